"""PROG — the statement level of the LALRPOP grammar as a Lean function (not a property: a shared tie).

`PV.Prog.parseProgram : Mode -> List PTok -> Option Mod` (lean/PV/Prog/Parse.lean) is a fuel-indexed recursive-descent
parser written from parser/src/python.lalrpop nonterminal by nonterminal, calling PV.C11's expression functions at
every expression position.  This module ties it to the REAL parser on every run:

    prog <mode> <hex source> <attachment>

  harness (pvh_prog): rustpython_parser::parse(source, mode) -> canonical tree (ranges / ctx erased) | parse-error
  driver  (drv_prog): attachment = the real token stream after lexing + soft-keyword pass (harness op `toks`, a pre-pass;
                      the lexer is tied to its own Lean model by C05/C10, so the tokens are a legitimate parameter)
                      -> List PTok -> parseProgram -> the same canonical tree | parse-error
  The two answers must be byte-identical.  Kinds and offsets of errors are not compared.

There is no oracle beyond agreement (C01 owns the comparison with CPython).  `search` turns a disagreement into a
shrunk concrete input and records which side CPython agrees with.  Other property modules can import `streams`,
`requests_for` and `corpus_items` from here (C01 / C08 / C09 statement-level ties).

The printer `PV.Prog.render` (theorem `render_parse_partial`: all 28 statement kinds, 8 pattern kinds) is tied too:

    rt <mode> <hex source> <attachment> <hex rendered text> <attachment of the rendered text>      (stream render-roundtrip)

  the driver renders the tree it parsed (pre-pass `render`), the REAL lexer and parser read that text; harness: real parse of
  source and rendering, trees compared; driver: its rendering is the text of the request, the real tokens of the text are
  exactly `render tree`, `parseProgram` of them is the original tree.  Oracle: `eq=1 text=1 toks=1 infrag=1` on the real side.
"""
import ast
import io
import os
import random
import re
import sys
import tokenize
import unicodedata
import warnings
from concurrent.futures import ProcessPoolExecutor

import core
from core import Stream, hexs, unhex

sys.path.insert(0, os.path.dirname(os.path.dirname(os.path.abspath(__file__))))
import gen_program
import pyref

warnings.simplefilter("ignore")

ID = "PROG"
DESIGN_REF = "design/PROG.md (DESIGN.md section 3, 'the LALRPOP-generated LR automaton is not modelled'; section 5 C01/C08/C09)"
LEAN_TARGETS = ["PV.Prog.Thm"]
DRIVER = "drv_prog"
HARNESS = {"bin": "pvh_prog", "features": "default"}
THEOREMS = [
    # (a) fuel
    "PV.Prog.parseProgramFuel_mono",
    "PV.Prog.parseProgram_total",
    "PV.Prog.accepts_iff_eventually",
    "PV.Prog.c11Mono",
    "PV.Prog.progMono",
    # (b) positions
    "PV.Prog.parseProgram_layout_free",
    # (c) entry points
    "PV.Prog.parse_expr_stmt_agree",
    "PV.Prog.parse_expr_stmt_agreeT",
    "PV.Prog.interactive_module_agree",
    "PV.Prog.yield_is_statement_only",
    "PV.Prog.semicolon_is_statement_only",
    "PV.Prog.leading_newline_is_statement_only",
    "PV.Prog.starred_both_ways",
    "PV.Prog.walrus_neither_way",
    "PV.Prog.c11Suf",
    "PV.Prog.c11LastNL",
    # (d) action code at program level
    "PV.Prog.elif_chain_spec",
    "PV.Prog.ifAssemble_spec",
    "PV.Prog.import_level_spec",
    "PV.Prog.annassign_simple_spec",
    "PV.Prog.annassign_bare_name",
    "PV.Prog.annassign_paren_not_simple",
    "PV.Prog.annassign_paren_name_not_simple",
    "PV.Prog.match_subject_spec",
    "PV.Prog.match_subject_trailing_comma",
    # (e) printer round trip: all 28 statement kinds, 8 pattern kinds, over C11's extended expression fragment
    "PV.Prog.render_parse_partial",
    "PV.Prog.render_parse_partial_ev",
    "PV.Prog.inFragment_core_sub",
    "PV.Prog.rtStmt",
    "PV.Prog.rtBlock",
    "PV.Prog.progRT",
    "PV.Prog.rt_patterns",
    "PV.Prog.rt_parameters",
    "PV.Prog.afterClose_rx",
]
TRUSTED = [
    "Lean 4.33.0 kernel; axioms limited to propext, Classical.choice, Quot.sound",
    "hand-written reference parser lean/PV/Prog/Parse.lean (statements, patterns, parameters, with-items, type "
    "parameters, decorators) on top of lean/PV/C11/Spec.lean (expressions), written from parser/src/python.lalrpop and "
    "the action code it calls (function.rs, context.rs erased); tied to the generated LR parser parser/src/python.rs "
    "only by the correspondence streams of this run (canonical trees / rejection of both sides are diffed); the LR "
    "automaton itself (tables, 1 721 action functions) is not modelled",
    "the token stream is a parameter: produced by the real lexer + soft_keywords.rs (harness op `toks`), which have "
    "their own Lean models and checks (C05, C10, C03, C01 softKw theorems)",
    "string tokens are decoded by the string model of PV.C11.Lexer (string.rs escapes); `\\N{name}` escapes are "
    "rewritten to `\\UXXXXXXXX` in the attachment with CPython's unicodedata (the name table is a parameter)",
    "f-string replacement fields are re-lexed by the small reference tokenizer PV.C11.lex (as in C11)",
    "tools/props/prog.py (generators, corpus, mutations), harness/src/bin/pvh_prog.rs, lean/Drv/Prog.lean (incl. `renderText`: "
    "tokens separated by one space, four spaces per INDENT, literal spelling by PV.C11.Model's Tok.text — checked against the "
    "real lexer by the `toks=1` flag of every render-roundtrip request)",
]
PARTIAL = [
    "fuel: monotonicity is proved for every function of PV.Prog.Parse AND of PV.C11.Spec (progMono, c11Mono): a positive "
    "answer never changes with more fuel.  The converse half — fuelFor is always enough, so a rejection is never an "
    "out-of-fuel artefact — is stated (parseProgram_fuel_adequate_full) and not proved; every request of the streams runs "
    "the driver with exactly fuelFor",
    "parse_expr_stmt_agree is about acceptance for SOME (equivalently: every sufficiently large) fuel, on one-expression "
    "lines (ExprLine: no NEWLINE / `;` inside, not starting with `yield`); the exceptions are witnessed at the driver's fuel",
    "(e) render_parse_partial covers all 28 statement kinds and all 8 pattern kinds (parameters of every kind with "
    "annotations and defaults, with-items, type parameters, decorators) over C11's extended expression fragment "
    "InFragmentX, in Module / Interactive / Expression mode, at token level and for every sufficiently large fuel (an "
    "existential bound, not the driver's fuelFor).  Outside the fragment InFragmentP (render_parse_full is stated, not "
    "proved): every tree that contains an f-string (JoinedStr / FormattedValue: outside C11's InFragmentX) or a "
    "comprehension target that is a parenthesised conditional / lambda / boolean / comparison / named expression (unparse.rs "
    "writes comprehension targets bare: excluded by C11's `fx .target`); and trees the "
    "grammar cannot build (empty bodies, `_` as a capture name, a repeated keyword, …: the side conditions of inFragM). The "
    "TEXT of the rendering (spacing, literal spelling, indentation) is tied to the real lexer and parser by the stream "
    "`render-roundtrip` of this run, not by the theorem",
    "the reference parser is tied to python.rs by correspondence only (no text is dropped from the streams any more: the "
    "former exclusions for f-string fields became obsolete with C11's model repair)",
]
RULE = ("one request = one source text x one mode; both sides answer with the canonical range-erased, ctx-erased tree or "
        "`parse-error`; byte-identical answers required")
READY = True
TECHNIQUE = ("Lean 4 reference parser for the whole statement grammar + theorems about it, tied to the generated LR parser by "
             "differential execution on the real token stream")
LEVEL_TEXT = "Machine-checked Lean 4 theorems about the reference parser; correspondence with the real parser on every run."
LEVEL_NOTE = "Not a property: a shared tie used by C01 / C08 / C09."

MODES = {"m": "Module", "i": "Interactive", "e": "Expression"}


# ------------------------------------------------------------------------------------------------ harness pre-pass

def _bin():
    rc, out, path = core.cargo_build(HARNESS["bin"], HARNESS["features"])
    if rc != 0:
        raise RuntimeError("cargo build pvh_prog failed: %s" % out[-600:])
    return path


_NAMED = re.compile(r"N\{([^}]*)\}")


def _fix_named_in_body(body):
    """`\\N{NAME}` -> `\\UXXXXXXXX` in the source text of a non-raw str / f-string literal (escape-aware scan)"""
    if "\\N{" not in body:
        return body
    out = []
    i = 0
    n = len(body)
    while i < n:
        c = body[i]
        if c == "\\" and i + 1 < n:
            m = _NAMED.match(body, i + 1)
            if m:
                try:
                    cp = ord(unicodedata.lookup(m.group(1)))
                    out.append("\\U%08x" % cp)
                    i = m.end()
                    continue
                except (KeyError, TypeError):
                    pass
            out.append(body[i:i + 2])
            i += 2
        else:
            out.append(c)
            i += 1
    return "".join(out)


def fix_attachment(att):
    """the only rewriting of the real token stream: named escapes (outside the string model's domain) are replaced by the
    equivalent \\U escape in str / f-string tokens (kinds s, u, f); raw and bytes literals do not have that escape"""
    if "5c4e7b" not in att:
        return att
    items = att.split(",")
    for k, it in enumerate(items):
        if it[:1] == "s" and it[1:2] in "suf" and "5c4e7b" in it:
            body = unhex(it[3:]).decode("utf-8")
            items[k] = it[:3] + hexs(_fix_named_in_body(body))
    return ",".join(items)


def outside_domain(att):
    """No request is outside the model's lexical domain any more.  (Until C11's model repair — `scanField` EmptyExpression
    check at a format spec, `fstrField` lexing the field text inside its parentheses, XID tables in `PV.C11.lex`; see
    design/C11.md "Corrections" — f-string fields with a line break, a `#`, a non-identifier non-ASCII character, and
    `f'{:x}'` had to be dropped here.  Re-verified with the exclusion off: quick and thorough tier, 0 disagreements.)"""
    return False


DROPPED = {"n": 0}


def requests_for(items, jobs=8, keep_all=False):
    """items: [(mode, source text)] -> request lines `prog <mode> <hex src> <attachment>` (harness pre-pass `toks`);
    requests outside the model's lexical domain (`outside_domain`) are dropped unless `keep_all`"""
    if not items:
        return []
    hbin = _bin()
    pre = core.run_lines([hbin], ["toks %s %s" % (m, hexs(s)) for m, s in items], jobs=jobs)
    out = []
    for (m, s), a in zip(items, pre):
        if not a or a.startswith("(") or a == "bad-request":
            a = "E"            # the pre-pass itself failed (panic / abort): the driver answers parse-error
        if not keep_all and outside_domain(a):
            DROPPED["n"] += 1
            continue
        out.append("prog %s %s %s" % (m, hexs(s), fix_attachment(a)))
    return out


_SOFT_NAMES = {"n" + hexs(w) for w in ("match", "case", "type")}


RT_STATS = {}


def render_requests(items, jobs=8, stats=None):
    """items: [(mode, source text)] -> request lines `rt <mode> <hex src> <att> <hex rendered> <att of rendered>` for the
    items whose tree lies in the fragment of the proved printer round trip.  Three passes: the real tokens of the source
    (harness `toks`), the rendering of the tree by the Lean printer (driver `render`), the real tokens of the rendering."""
    stats = stats if stats is not None else {}
    base = requests_for(items, jobs=jobs)
    if not base:
        return []
    drv = core.driver_path(DRIVER)
    ren = core.run_lines([drv], ["render" + r[4:] for r in base], jobs=jobs)
    keep = []
    for r, a in zip(base, ren):
        if a.startswith("R "):
            k, t = a[2:].split(" ")
            keep.append((r, t, int(k)))
        else:
            k = "rejected" if a == "parse-error" else ("outside-fragment" if a == "outside" else "other")
            stats[k] = stats.get(k, 0) + 1
    if not keep:
        return []
    hbin = _bin()
    pre = core.run_lines([hbin], ["toks %s %s" % (r.split()[1], t) for r, t, _ in keep], jobs=jobs)
    out = []
    for (r, t, k), a in zip(keep, pre):
        if not a or a.startswith("(") or a == "bad-request":
            a = "E"
        if k and sum(1 for it in a.split(",") if it in _SOFT_NAMES) != k:
            # the printer puts every statement on its own line: a `match` / `case` / `type` used as a NAME that stood in
            # mid-line may come to stand first, and the real soft-keyword pass then takes it for the keyword (`case[0]: int`):
            # C01's open finding `soft-keyword-colon-heuristic`, not the printer's matter
            stats["soft-keyword-placement"] = stats.get("soft-keyword-placement", 0) + 1
            continue
        ws = r.split()
        out.append("rt %s %s %s %s %s" % (ws[1], ws[2], ws[3] if len(ws) > 3 else "-", t, fix_attachment(a)))
    stats["rendered"] = stats.get("rendered", 0) + len(out)
    return out


def split_request(req):
    ws = req.split()
    return ws[1], unhex(ws[2]).decode("utf-8"), (ws[3] if len(ws) > 3 else "-")


# ------------------------------------------------------------------------------------------------ counting (stream notes)

STMT_KINDS = ["FunctionDef", "AsyncFunctionDef", "ClassDef", "Return", "Delete", "Assign", "TypeAlias", "AugAssign",
              "AnnAssign", "For", "AsyncFor", "While", "If", "With", "AsyncWith", "Match", "Raise", "Try", "TryStar",
              "Assert", "Import", "ImportFrom", "Global", "Nonlocal", "Expr", "Pass", "Break", "Continue"]
PATTERN_KINDS = ["MatchValue", "MatchSingleton", "MatchSequence", "MatchMapping", "MatchClass", "MatchStar", "MatchAs", "MatchOr"]
_KIND_RE = re.compile(r"\((" + "|".join(STMT_KINDS + PATTERN_KINDS) + r")[ )]")


def _counter(ctx, stream, base_note):
    """per-stream oracle that judges nothing and counts acceptance and node kinds of the IMPLEMENTATION's answers; the
    totals go into the stream note and into evidence `prog_stream_counts`"""
    total = len(stream.requests)
    c = {"n": 0, "accepted": 0, "rejected": 0, "other": 0, "kinds": {}}
    ctx.extra.setdefault("prog_stream_counts", {})[stream.name] = c

    def oracle(req, out):
        c["n"] += 1
        if out == "parse-error":
            c["rejected"] += 1
        elif out.startswith("(Module") or out.startswith("(Interactive") or out.startswith("(Expression"):
            c["accepted"] += 1
            for k in _KIND_RE.findall(out):
                c["kinds"][k] = c["kinds"].get(k, 0) + 1
        else:
            c["other"] += 1
        if c["n"] == total:
            missing = [k for k in STMT_KINDS if k not in c["kinds"]]
            kinds = ", ".join("%s %d" % (k, c["kinds"][k]) for k in STMT_KINDS + PATTERN_KINDS if k in c["kinds"])
            stream.note = "%s | accepted %d, rejected %d%s | nodes: %s%s" % (
                base_note, c["accepted"], c["rejected"], (", panic/abort %d" % c["other"]) if c["other"] else "", kinds,
                (" | statement kinds not met: " + ", ".join(missing)) if missing and stream.kind != "malformed" else "")
        return None
    return oracle


def _stream(ctx, name, items, kind, note, exhaustive=False):
    before = DROPPED["n"]
    reqs = requests_for(items)
    if DROPPED["n"] > before:
        note += " (%d texts dropped, see outside_domain)" % (DROPPED["n"] - before)
    s = Stream(name, reqs, kind=kind, exhaustive=exhaustive, note=note)
    s.oracle = _counter(ctx, s, note)
    return s


def _render_stream(ctx, name, items):
    """`rt` requests: the tree of a source text (when it lies in the fragment of PV.Prog.render_parse_partial) is printed by
    the Lean printer `PV.Prog.render`; the REAL lexer and parser read that text; both sides' trees must be the original tree"""
    stats = {}
    reqs = render_requests(items, stats=stats)
    note = ("the Lean printer against the real parser: of %d texts (corpus, generated programs of the three modes, small "
            "stdlib files) %d are accepted and lie in the fragment of render_parse_partial; their tree is rendered by "
            "PV.Prog.render (driver), the rendered TEXT is lexed and parsed by the real parser: it must give the original "
            "tree (eq=1), the real token stream of the text must be exactly `render tree` (toks=1) | not rendered: %s"
            % (len(items), len(reqs), ", ".join("%s %d" % kv for kv in sorted(stats.items()) if kv[0] != "rendered") or "-"))
    s = Stream(name, reqs, kind="random", note=note)
    c = {"n": 0, "eq": 0, "bad": 0}
    ctx.extra.setdefault("prog_stream_counts", {})[name] = dict(stats, checked=c)

    def oracle(req, out):
        c["n"] += 1
        if out.startswith("eq=1 text=1 toks=1 infrag=1 tree=("):
            c["eq"] += 1
            return None
        c["bad"] += 1
        ws = req.split()
        return ("the rendering of the tree does not parse back to it with the real parser: source %r rendered %r answer %s"
                % (unhex(ws[2]).decode("utf-8", "replace")[:300], unhex(ws[4]).decode("utf-8", "replace")[:300], out[:200]))
    s.oracle = oracle
    return s


# ------------------------------------------------------------------------------------------------ corpus

VALID = [
    # simple statements
    "pass\n", "break\n", "continue\n", "pass; pass\n", "pass; break;\n", "x\n", "x;\n", "x; y; z\n", "x = 1\n", "x = y = z = 1\n",
    "x, = 1,\n", "x, y = y, x\n", "*a, b = c\n", "a = *b, c\n", "a = b = *c, d\n", "[a, b] = c\n", "(a, b) = c\n", "a.b = c[d] = e\n",
    "x = yield\n", "x = yield y\n", "x = yield y, z\n", "x = y = yield from z\n", "x = yield = 3\n", "1 = x\n", "f() = 3\n",
    "x += 1\n", "x -= 1\n", "x *= 1\n", "x @= 1\n", "x /= 1\n", "x %= 1\n", "x &= 1\n", "x |= 1\n", "x ^= 1\n", "x <<= 1\n", "x >>= 1\n",
    "x **= 1\n", "x //= 1\n", "x += yield\n", "x += 1, 2\n", "x, y += 1\n", "x.y += z\n", "x[0] -= yield z\n",
    "x: int\n", "x: int = 1\n", "(x): int = 1\n", "x.y: int\n", "x[0]: int = 1\n", "x: int = yield\n", "x: int = 1, 2\n", "x: list[int] = []\n",
    "x: (yield)\n", "a + 1: int\n", "lambda: x: int\n", "f(): int\n", "x: lambda: 0\n",
    "del x\n", "del x, y\n", "del x,\n", "del (x), [y], z.w, a[0]\n", "del *a, b\n", "del a | b\n",
    "return\n", "return x\n", "return x, y\n", "return *a, b\n", "return x,\n", "yield\n", "yield x\n", "yield x,\n", "yield *a, b\n",
    "yield from x\n", "raise\n", "raise x\n", "raise x from y\n", "raise x from None\n", "raise x(1) from y.z\n",
    "import a\n", "import a.b.c\n", "import a as b\n", "import a.b as c, d, e.f as g\n", "from a import b\n", "from a.b import c as d, e\n",
    "from . import a\n", "from .. import a\n", "from ... import a\n", "from .... import a\n", "from ..... import a\n", "from . . import a\n",
    "from .a import b\n", "from ...a.b import c\n", "from .. .a import b\n", "from a import (b)\n", "from a import (b, c)\n", "from a import (b, c,)\n",
    "from a import (b as c,)\n", "from a import *\n", "from . import *\n", "from .a import (b as c, d as e)\n",
    "global a\n", "global a, b, c\n", "nonlocal a\n", "nonlocal a, b\n", "assert a\n", "assert a, b\n", "assert a, 'm' % b\n", "assert (a, b)\n",
    "type X = int\n", "type X[T] = list[T]\n", "type X[T: int, *Ts, **P] = dict[T, P]\n", "type X[T,] = T\n", "type type = type\n",
    "type match[case] = case\n", "type X[T: (int, str)] = T\n", "pass; type X = int\n", "if x: type X = int\n",
    # soft keywords as names
    "match = 1\n", "case = 1\n", "type = 1\n", "match(x)\n", "match[x]\n", "match.x\n", "print(type(x))\n", "type: int = 1\n", "match: int\n",
    "match, case = case, match\n", "match * x\n", "match - x\n", "match if x else y\n", "type(x).y = 1\n", "case(x); match(y)\n",
    "def match(case, type): pass\n", "class type: pass\n", "import match, case as type\n", "from type import match\n", "x = match.case.type\n",
    # if / while / for
    "if a: b\n", "if a: b; c\n", "if a: b; c;\n", "if a:\n    b\n", "if a:\n    b\n    c\n", "if a:\n    b\nelse:\n    c\n", "if a: b\nelse: c\n",
    "if a: b\nelif c: d\n", "if a: b\nelif c: d\nelse: e\n", "if a: b\nelif c: d\nelif e: f\nelif g: h\nelse: i\n",
    "if a:\n    if b:\n        c\n    elif d:\n        e\n    else:\n        f\nelif g:\n    h\n", "if a := 1: pass\n", "if (a := 1): pass\n",
    "if a:\n  pass\n  if b: pass\n  else: pass\nelse:\n  pass\n", "if a: pass\nx\n", "if a:\n pass\nx\n",
    "while a: b\n", "while a:\n    b\nelse:\n    c\n", "while a := f(): pass\n", "while a: break\nelse: continue\n", "while True:\n    if x: break\n    continue\n",
    "for a in b: c\n", "for a, b in c: d\n", "for a, in b: c\n", "for *a, b in c: d\n", "for a in b, c: d\n", "for a in *b, c: d\n", "for a in b,: c\n",
    "for (a, b) in c:\n    d\nelse:\n    e\n", "for a.b in c: pass\n", "for a[0] in c: pass\n", "for [a, b] in c: pass\n", "for a in lambda: 0: pass\n",
    "async for a in b: c\n", "async for a, b in c:\n    d\nelse:\n    e\n",
    # try
    "try: a\nexcept: b\n", "try:\n    a\nexcept:\n    b\n", "try: a\nexcept E: b\n", "try: a\nexcept E as e: b\n", "try: a\nexcept (E, F) as e: b\n",
    "try: a\nexcept E: b\nexcept F as f: c\nexcept: d\n", "try: a\nexcept: b\nelse: c\n", "try: a\nexcept: b\nfinally: c\n", "try: a\nexcept: b\nelse: c\nfinally: d\n",
    "try: a\nfinally: b\n", "try:\n    a\nfinally:\n    b\n", "try: a\nexcept* E: b\n", "try: a\nexcept* E as e: b\n", "try: a\nexcept *E: b\nexcept *(F, G) as g: c\nelse: d\nfinally: e\n",
    "try: a\nexcept E if x else F: b\n", "try: a\nexcept lambda: 0: b\n", "try:\n    try: a\n    finally: b\nexcept: c\n", "try: a\nexcept E: b\nx\n",
    # with
    "with a: b\n", "with a as b: c\n", "with a, b: c\n", "with a as b, c as d: e\n", "with a as b, c: d\n", "with a, b as c: d\n", "with a as (b, c): d\n",
    "with a as [b, c]: d\n", "with a as b.c: d\n", "with a as b[0]: d\n", "with (a): b\n", "with (a, b): c\n", "with (a, b,): c\n", "with (a,): b\n",
    "with (a as b): c\n", "with (a as b,): c\n", "with (a as b, c as d): e\n", "with (a as b, c): d\n", "with (a, b as c): d\n", "with (a, b as c, d): e\n",
    "with (a, b as c, d as e,): f\n", "with (a, b) as c: d\n", "with (a, b), c: d\n", "with (a), b: c\n", "with (a).b: c\n", "with (a)(b): c\n",
    "with (a) + 1: b\n", "with (a)[0] as b: c\n", "with (a) as b: c\n", "with (a) if b else c: d\n", "with (a, b)[0]: c\n", "with (): a\n", "with () as a: b\n",
    "with (yield): a\n", "with (yield x): a\n", "with (yield from x): a\n", "with (a := 1): b\n", "with (a := 1, b): c\n", "with (a, b := 1): c\n",
    "with (*a, b): c\n", "with (a, *b): c\n", "with (a for a in b): c\n", "with (a for a in b) as c: d\n", "with (lambda: x): a\n", "with (a if b else c): d\n",
    "with ((a, b)): c\n", "with ((a)): c\n", "with ((a := 1), b): c\n", "with (a)(b) as c, (d): e\n", "with (a\n  , b): c\n",
    "with [a, b]: c\n", "with {a: b}[a]: c\n", "with a(b) as c:\n    d\n    e\n", "with (a as b.c, d as e[0]): f\n", "with (a as (b, c)): d\n",
    "async with a: b\n", "async with a as b, c as d: e\n", "async with (a, b as c): d\n", "async with (a, b): c\n",
    "with a as b | c: d\n", "with a as b.c(d).e: f\n",
    # def / class / decorators / type params
    "def f(): pass\n", "def f():\n    pass\n", "def f(a): return a\n", "def f(a, b=1): pass\n", "def f(a, b=1, *c, d, e=2, **f): pass\n", "def f(a, /): pass\n",
    "def f(a, /, b): pass\n", "def f(a=1, /, b=2): pass\n", "def f(a, /, b, *, c): pass\n", "def f(a, /, *, c): pass\n", "def f(a, /, **k): pass\n",
    "def f(*a): pass\n", "def f(*a, b): pass\n", "def f(*, a): pass\n", "def f(*, a=1, b): pass\n", "def f(*, a, **k): pass\n", "def f(**k): pass\n",
    "def f(a,): pass\n", "def f(a, /,): pass\n", "def f(*a,): pass\n", "def f(*, a,): pass\n", "def f(**k,): pass\n", "def f(a, *, b,): pass\n",
    "def f(a: int): pass\n", "def f(a: int = 1, *b: str, c: list[int] = [], **d: dict) -> None: pass\n", "def f(*a: *Ts): pass\n", "def f(a: lambda: 0 = 1): pass\n",
    "def f() -> int: pass\n", "def f() -> lambda: 0: pass\n", "def f(a=lambda: 0, b=(yield)): pass\n", "def f(*, **k): pass\n", "def f(**): pass\n", "def f(a, **): pass\n",
    "def f(*a, **): pass\n", "def f[T](a: T) -> T: pass\n", "def f[T: int, *Ts, **P](): pass\n", "def f[T,](): pass\n", "async def f(): pass\n",
    "async def f():\n    await x\n    async for a in b: pass\n    async with c: pass\n    return [d async for d in e]\n",
    "def f():\n    def g():\n        def h(): pass\n        return h\n    return g\n", "def f():\n    global a\n    nonlocal b\n    return (yield)\n",
    "class A: pass\n", "class A(): pass\n", "class A(B): pass\n", "class A(B, C, metaclass=M): pass\n", "class A(*B, **C): pass\n", "class A(B, m=1, *C): pass\n",
    "class A(x for x in y): pass\n", "class A[T]: pass\n", "class A[T: int, *U, **V](B[T], k=1):\n    x: T\n    def f(self): pass\n", "class A(B,): pass\n",
    "class A:\n    x = 1\n    def f(self):\n        return self.x\n    class B:\n        pass\n",
    "@a\ndef f(): pass\n", "@a.b\n@c(d)\n@e[f]\ndef g(): pass\n", "@a\nclass B: pass\n", "@a\nasync def f(): pass\n", "@(a := b)\ndef f(): pass\n", "@a := b\ndef f(): pass\n",
    "@lambda f: f\ndef g(): pass\n", "@a if b else c\nclass D: pass\n", "@a\n@b\n@c\nclass D(E):\n    @f\n    def g(self): pass\n",
    # match
    "match x:\n    case 1: pass\n", "match x:\n    case 1:\n        pass\n    case 2:\n        pass\n", "match x:\n case -1: pass\n case 1.5: pass\n case 2j: pass\n case -3j: pass\n",
    "match x:\n case 1+2j: pass\n case -1-2j: pass\n case 1-2: pass\n case 1.5+3: pass\n", "match x:\n case 'a': pass\n case 'a' 'b': pass\n case b'a': pass\n case f'a': pass\n",
    "match x:\n case None: pass\n case True: pass\n case False: pass\n", "match x:\n case a: pass\n case _: pass\n", "match x:\n case a.b: pass\n case a.b.c: pass\n",
    "match x:\n case a | b: pass\n case 1 | 2 | 3: pass\n case a.b | None | _: pass\n", "match x:\n case a as b: pass\n case 1 | 2 as c: pass\n case (a as b) as c: pass\n",
    "match x:\n case (a): pass\n case (a,): pass\n case (a, b): pass\n case (a, b,): pass\n case (): pass\n", "match x:\n case []: pass\n case [a]: pass\n case [a,]: pass\n case [a, b]: pass\n case [a, b,]: pass\n",
    "match x:\n case [a, *b]: pass\n case [*_]: pass\n case (*a, b): pass\n case [a, *b, c]: pass\n", "match x:\n case *a, b: pass\n case a, *b: pass\n case a,: pass\n case a, b,: pass\n case *a,: pass\n",
    "match x:\n case {}: pass\n case {1: a}: pass\n case {1: a,}: pass\n case {'a': 1, 'b': c}: pass\n", "match x:\n case {**r}: pass\n case {**r,}: pass\n case {1: a, **r}: pass\n case {1: a, **r,}: pass\n",
    "match x:\n case {a.b: c}: pass\n case {None: a, True: b, False: c}: pass\n case {-1: a, 1+2j: b, 'a' 'b': c}: pass\n", "match x:\n case {1: {2: [a, {3: b}]}}: pass\n",
    "match x:\n case A(): pass\n case A(a): pass\n case A(a,): pass\n case A(a, b): pass\n", "match x:\n case A(a=1): pass\n case A(a=1,): pass\n case A(a=1, b=c): pass\n case A(a, b=1): pass\n case A(a, b, c=1, d=e,): pass\n",
    "match x:\n case a.B(): pass\n case a.b.C(d, e=f): pass\n case a.B(c=1): pass\n case a.B(c,): pass\n", "match x:\n case A(B(c), d=E(f=g)): pass\n",
    "match x:\n case a if b: pass\n case a if b := c: pass\n case [a, b] if a > b: pass\n", "match x:\n case a: pass; pass\n case b: y; z;\n",
    "match x, y:\n case a, b: pass\n", "match x,:\n case a,: pass\n", "match x, y,:\n case _: pass\n", "match *x, y:\n case _: pass\n", "match x := y:\n case _: pass\n",
    "match (x):\n case _: pass\n", "match -x:\n case _: pass\n", "match [x]:\n case _: pass\n", "match {x}:\n case _: pass\n", "match x.y:\n case _: pass\n", "match x if y else z:\n case _: pass\n",
    "match match:\n case case: pass\n", "match case:\n case match: type\n", "match x:\n case type: pass\n case match(): pass\n case case.type: pass\n",
    "match x:\n case 1 | (2 | 3): pass\n case (1 | 2) as a: pass\n case [1 | 2, (3 | 4) as b]: pass\n", "match x:\n case {1: a | b, 2: (c as d)}: pass\n",
    "match x:\n case _:\n  match y:\n   case _:\n    pass\n", "if a:\n match x:\n  case 1:\n   pass\n  case 2: pass\n b\n",
    "match x:\n case 1 + 2: pass\n", "match x:\n case -1 + 2: pass\n", "match x:\n case 1j + 2j: pass\n", "match x:\n case a.b(c.d): pass\n",
    "match x:\n case str() | int(): pass\n", "match x:\n case {'k': str(v)}: pass\n", "match x:\n case [Point(x=0, y=0), *rest] if rest: pass\n",
    # nested suites, layout, empty lines
    "\n", "", "\n\n\n", "# c\n", "x = 1\n\n\ny = 2\n", "if a:\n\n    b\n\n\n    c\n\nd\n", "if a:\n    b\n  # c\n    d\n", "if a:\n\tb\n\tc\n", "def f():\n    if a:\n        b\n    c\nd\n",
    "if a:\n    if b:\n        if c:\n            d\ne\n", "if a:\n    b\n", "if a:\n    b", "x", "x = (1,\n  2)\n", "x = [\n 1,\n 2,\n]\n", "x = 1 \\\n  + 2\n", "if a: b  # c\n",
    "class A:\n    '''doc'''\n    def f(self):\n        '''doc'''\n", "x = 1; y = 2; z = 3\n", "if a: x = 1; y = 2\nelse: z = 3; w = 4;\n", "for a in b: c; d\nelse: e; f\n",
    "while a: b; c\n", "try: a; b\nexcept: c; d\nelse: e; f\nfinally: g; h\n", "with a: b; c\n", "def f(): a; b\n", "class A: a; b\n",
    "if a: return\n", "if a: del b\n", "if a: import b\n", "if a: global b\n", "if a: assert b\n", "if a: raise b\n", "if a: yield b\n", "if a: b += 1\n", "if a: b: int = 1\n",
    # expressions at statement level
    "f(x)\n", "f(x, *y, k=1, **z)\n", "a.b.c(d)[e](f)\n", "x = a if b else c\n", "x = lambda a, b=1, *c, d, **e: a\n", "x = [a for a in b if c]\n", "x = {a: b for a, b in c}\n",
    "x = {a for a in b}\n", "x = (a for a in b)\n", "x = a < b <= c != d\n", "x = not a is not b\n", "x = a or b and not c\n", "x = -a ** -b\n", "x = a[1:2, ::3, ...]\n",
    "x = a[*b]\n", "x = a[*b, c]\n", "x = a[b:=1]\n", "x = {**a, 'b': c}\n", "x = {*a, b}\n", "x = f'{a}{b!r:>{c}}'\n", "x = 'a' 'b' f'{c}'\n", "x = b'a' b'b'\n",
    "x = await y\n", "await x\n", "x = (yield)\n", "x = [(yield)]\n", "print >> f, x\n", "x = 0xFF + 0o7 + 0b1 + 1_0 + 1.5e3 + 2j\n", "x = ...\n", "x = a @ b\n", "*a, b\n", "*a,\n",
    "a, b\n", "a,\n", "(a, b)\n", "(a)\n", "[a]\n", "x = u'a'\n", "x = r'\\d' rb'\\x'\n", "x = '\\N{BULLET} \\N{LATIN SMALL LETTER A}'\n", "x = f'\\N{BULLET}{y}'\n",
]

INVALID = [
    "x =\n", "= 1\n", "x = = 1\n", "x +=\n", "x += y += 1\n", "x: int: str\n", "x, y: int\n", "*x: int\n", "x,: int\n", "x := 1\n", "x = y := 1\n", "(x := 1) := 2\n",
    "pass pass\n", "pass;; pass\n", ";\n", "x;;\n", "del\n", "del x y\n", "return return\n", "raise from x\n", "raise x from\n", "raise x, y\n", "yield from\n", "yield from x, y\n",
    "import\n", "import a,\n", "import a.\n", "import .a\n", "import a as\n", "import a as b.c\n", "import (a)\n", "import *\n", "from import a\n", "from a import\n", "from a import b,\n",
    "from a import (b,,)\n", "from a import ()\n", "from a import (*)\n", "from a import b.c\n", "from a import *, b\n", "from .a. import b\n", "from a.b. import c\n",
    "global\n", "global a,\n", "global a.b\n", "global (a)\n", "nonlocal\n", "nonlocal 1\n", "assert\n", "assert a, b, c\n", "assert a,\n",
    "type X\n", "type X =\n", "type X[] = int\n", "type X[T = int\n", "type X[T:] = int\n", "type X.y = int\n", "type X[*T: int] = int\n", "type 1 = int\n", "type X = yield\n",
    "if a\n", "if: b\n", "if a: \n", "if a:\nb\n", "if a:\n    b\n  c\n", "if a: b\nelif: c\n", "if a: b\nelse c\n", "else: a\n", "elif a: b\n", "if a: b\nelse: c\nelse: d\n", "if a: b\nelse: c\nelif d: e\n",
    "if a: if b: c\n", "if a: while b: c\n", "if a: def f(): pass\n", "if a: b; if c: d\n", "if a:\n    b\n        c\n", "    x\n", "if a: b;; c\n",
    "while: a\n", "while a\n", "while a: b\nelif c: d\n", "for a: b\n", "for a in: b\n", "for in b: c\n", "for a in b c: d\n", "for a := 1 in b: c\n", "for a if b else c in d: e\n",
    "for lambda: 0 in b: c\n", "for not a in b: c\n", "for a in b: c\nelse: d\nelse: e\n", "async x\n", "async\n", "async if a: b\n", "async while a: b\n", "async class A: pass\n", "async try: a\nfinally: b\n",
    "try: a\n", "try: a\nelse: b\n", "try a\nexcept: b\n", "try: a\nexcept: b\nexcept* E: c\n", "try: a\nexcept* E: b\nexcept: c\n", "try: a\nexcept* E: b\nexcept F: c\n", "try: a\nexcept*: b\n",
    "try: a\nexcept E as: b\n", "try: a\nexcept E as f.g: b\n", "try: a\nexcept as e: b\n", "try: a\nfinally: b\nexcept: c\n", "try: a\nfinally: b\nelse: c\n", "try: a\nexcept: b\nfinally: c\nelse: d\n",
    "try: a\nexcept: b\nfinally: c\nfinally: d\n", "try: a\nexcept E, F: b\n", "try: a\nexcept *E, F: b\n", "try: a\nexcept E as (f): b\n", "except: a\n", "finally: a\n",
    "with: a\n", "with a\n", "with a as: b\n", "with a, : b\n", "with a as b, : c\n", "with (a as b), c: d\n", "with (a as b) as c: d\n", "with (*a): b\n", "with (a as b, *c): d\n", "with (*a as b): c\n",
    "with (a := 1 as b): c\n", "with (a as b := 1): c\n", "with (a, b: c\n", "with a as b as c: d\n", "with a as lambda: 0: b\n", "with a as not b: c\n", "with (a as b c): d\n", "with (**a): b\n",
    "with (a,,): b\n", "with (,): a\n", "with (yield as a): b\n", "with (a for a in b as c): d\n", "with (a as b for a in c): d\n", "with a as b if c else d: e\n", "with a as *b: c\n",
    "def f: pass\n", "def f() pass\n", "def (): pass\n", "def f(a, a): pass\n", "def f(a, *a): pass\n", "def f(a, **a): pass\n", "def f(*a, a): pass\n", "def f(a=1, b): pass\n", "def f(a=1, /, b): pass\n",
    "def f(a, b=1, c): pass\n", "def f(*): pass\n", "def f(*,): pass\n", "def f(a, *): pass\n", "def f(/): pass\n", "def f(/, a): pass\n", "def f(a, /, b, /): pass\n", "def f(*a, /): pass\n", "def f(*a, *b): pass\n",
    "def f(**a, b): pass\n", "def f(**a, *b): pass\n", "def f(**a, **b): pass\n", "def f(*, a, *b): pass\n", "def f(a,, b): pass\n", "def f(,): pass\n", "def f(a b): pass\n", "def f(a:): pass\n", "def f(a=): pass\n",
    "def f(a: *b): pass\n", "def f(**a: *b): pass\n", "def f(a := 1): pass\n", "def f(1): pass\n", "def f((a)): pass\n", "def f(a.b): pass\n", "def f() ->: pass\n", "def f() -> : pass\n", "def f[]: pass\n", "def f[](): pass\n",
    "def f[T: int = 3](): pass\n", "def f(*a: int = 3): pass\n", "def f(**a = 3): pass\n", "def f(*a = 3): pass\n", "def f(a, /, *, ): pass\n", "def f(*, /): pass\n",
    "class: pass\n", "class A(: pass\n", "class A(B C): pass\n", "class A(a=1, b): pass\n", "class A(**a, *b): pass\n", "class A(a=1, a=2): pass\n", "class A[]: pass\n", "class A[T]()[U]: pass\n", "class A.B: pass\n", "class A(B) -> C: pass\n",
    "@\ndef f(): pass\n", "@a\n", "@a\nx = 1\n", "@a\n@b\n", "@a def f(): pass\n", "@a\nif b: pass\n", "@a\nasync for x in y: pass\n", "@a\nasync with x: pass\n", "@*a\ndef f(): pass\n", "@yield\ndef f(): pass\n",
    "match x:\n case 1: pass\nelse: pass\n", "match x:\n pass\n", "match x: case 1: pass\n", "match x:\ncase 1: pass\n", "match:\n case 1: pass\n" , "match x:\n case: pass\n", "match x:\n case 1 pass\n",
    "match x:\n case a as _: pass\n", "match x:\n case a as b.c: pass\n", "match x:\n case a as 1: pass\n", "match x:\n case a as b as c: pass\n", "match x:\n case 1 as: pass\n",
    "match x:\n case a.: pass\n", "match x:\n case .a: pass\n", "match x:\n case a.b as c.d: pass\n", "match x:\n case -a: pass\n", "match x:\n case +1: pass\n", "match x:\n case --1: pass\n", "match x:\n case 1 + : pass\n",
    "match x:\n case 1 + a: pass\n", "match x:\n case 1 * 2: pass\n", "match x:\n case 1 + 2 + 3: pass\n", "match x:\n case 1 + -2: pass\n", "match x:\n case a + 1: pass\n", "match x:\n case not a: pass\n",
    "match x:\n case (a: pass\n", "match x:\n case [a: pass\n", "match x:\n case [,]: pass\n", "match x:\n case (,): pass\n", "match x:\n case [a,,b]: pass\n", "match x:\n case **a: pass\n",
    "match x:\n case {a: b}: pass\n", "match x:\n case {1}: pass\n", "match x:\n case {1: }: pass\n", "match x:\n case {: a}: pass\n", "match x:\n case {**a, 1: b}: pass\n", "match x:\n case {**a, **b}: pass\n",
    "match x:\n case {*a}: pass\n", "match x:\n case {1: a,,}: pass\n", "match x:\n case {,}: pass\n", "match x:\n case {**1}: pass\n", "match x:\n case {**a.b}: pass\n", "match x:\n case {[1]: a}: pass\n",
    "match x:\n case A(a=1, b): pass\n", "match x:\n case A(,): pass\n", "match x:\n case A(a=): pass\n", "match x:\n case A(=1): pass\n", "match x:\n case A(a.b=1): pass\n", "match x:\n case A(**k): pass\n",
    "match x:\n case A()(): pass\n", "match x:\n case A[0](): pass\n", "match x:\n case 1(): pass\n", "match x:\n case A(a)(b): pass\n", "match x:\n case a.b.(): pass\n", "match x:\n case a |: pass\n",
    "match x:\n case | a: pass\n", "match x:\n case a || b: pass\n", "match x:\n case a if: pass\n", "match x:\n case a if b if c: pass\n", "match x:\n case a if *b: pass\n",
    "match x:\n case 1:\n pass\n", "match x:\n  case 1: pass\n case 2: pass\n", "match x:\n case 1: pass\n  case 2: pass\n", "match x:\n case 1: pass\n x\n", "match x, :\n case 1: pass\n x = 1\n",
    "match x:\n case 1: pass\n\n case 2: pass\nelse: pass\n", "match **x:\n case _: pass\n", "match x:: \n case _: pass\n", "match yield:\n case _: pass\n",
    "case 1: pass\n", "match x:\n case 1: pass\ncase 2: pass\n", "return x y\n", "x y\n", "1 2\n", "a b = c\n", "x = 1 y = 2\n", "(\n", ")\n", "x = (1\n", "x = [1, 2\n", "x = {1: \n", "x = 1 +\n", "x = * \n", "x = **y\n",
    "x = (*a)\n", "x = (**a)\n", "f(a=1, b)\n", "f(**a, *b)\n", "f(a=1, a=2)\n", "f(**a, b)\n", "lambda a, a: 0\n", "lambda a=1, b: 0\n", "lambda *: 0\n", "x = (*a for a in b)\n",
    "x = {**a for a in b}\n", "x = a[]\n", "x = a.\n", "x = .a\n", "x = a..b\n", "x = a b\n", "x = 'a\n", "x = f'{'\n", "x = f'{a b}'\n", "x = f'{}'\n", "x = b'a' 'b'\n", "x = 1__0\n", "x = 0x\n", "x = 1e\n", "x = $\n", "x = ?\n", "x = a ! b\n",
    "if a:\n\tb\n        c\n", "if a:\n    b\n\tc\n", "x = '\\N{no such name}'\n", "x = '\\x4'\n", "x = '\\U00110000'\n", "x = b'\\xfz'\n",
]

EXPRESSIONS = [
    "x", "x\n", "x\n\n", "x,", "x, y", "x, y,", "*x, y", "*x,", "*x", "(x)", "()", "x if y else z", "lambda: x", "lambda x, y=1: x", "not x", "x or y and z", "x < y < z", "x | y ^ z & w", "x << y >> z",
    "x + y - z", "x * y / z // w % v @ u", "-x ** -y", "await x", "x.y[z](w)", "x[1:2, ::3]", "x[*y]", "[x for x in y]", "{x: y for x in z}", "{x for x in y}", "(x for x in y)", "[x, *y]", "{x, *y}", "{x: y, **z}",
    "f(x, *y, k=1, **z)", "f(x for x in y)", "(x := 1)", "[x := 1]", "f'{x}'", "'a' 'b'", "b'a'", "1", "1.5", "2j", "...", "None", "True", "False", "(yield)", "(yield x)", "(yield from x)", "x if y else lambda: z",
    "match", "case", "type", "match(x)", "type(x)", "x  # c", "x \\\n + y", "(x,\n y)", " x", "x\n y",
    # rejected in expression mode
    "", "\n", "x := 1", "yield", "yield x", "x = 1", "x;", "x; y", "pass", "if x: y", "x y", "x +", "(x", "x)", "lambda", "*", "**x", "x,,", ", x", "del x", "return x", "x: int", "x += 1", "import x", "x\n  y\n",
]


def corpus_items():
    items = [("m", s) for s in VALID + INVALID]
    items += [("i", s) for s in (VALID + INVALID)[::3]]
    items += [("e", s) for s in EXPRESSIONS]
    items += [("e", s) for s in (VALID + INVALID)[::7]]
    items += [("m", s) for s in EXPRESSIONS]
    return items


# ------------------------------------------------------------------------------------------------ generated programs

NPROC = 16


def _gen_chunk(args):
    seed, n, mode, opts = args
    rng = random.Random(seed)
    g = gen_program.Gen(rng, **opts)
    out = []
    for _ in range(n):
        try:
            p = g.expression_program() if mode == "e" else g.program(mode)
        except RecursionError:
            continue
        try:
            p.text.encode("utf-8")
        except UnicodeEncodeError:
            continue
        out.append((mode, p.text))
    return out


def generated(ctx, name, n, mode, opts, chunk=250):
    rng = ctx.rng(name)
    jobs = []
    left = n
    while left > 0:
        k = min(chunk, left)
        jobs.append((rng.getrandbits(62), k, mode, dict(opts)))
        left -= k
    if len(jobs) <= 2:
        res = [_gen_chunk(j) for j in jobs]
    else:
        with ProcessPoolExecutor(NPROC) as ex:
            res = list(ex.map(_gen_chunk, jobs))
    return [x for r in res for x in r]


# ------------------------------------------------------------------------------------------------ stdlib

def stdlib_items(max_bytes=None, limit=None, rng=None):
    files = pyref.stdlib_files()
    if max_bytes:
        files = [f for f in files if os.path.getsize(f) <= max_bytes]
    if limit and rng and len(files) > limit:
        files = sorted(rng.sample(files, limit))
    out = []
    for f in files:
        try:
            s = pyref.read_source(f)
            s.encode("utf-8")
        except Exception:
            continue
        out.append(("m", s))
    return out


# ------------------------------------------------------------------------------------------------ mutations (malformed)

_LEXEME = re.compile(r"[A-Za-z_][A-Za-z_0-9]*|\d+|\r\n|\n[ \t]*|[ \t]+|\*\*=|//=|>>=|<<=|->|:=|==|!=|<=|>=|\*\*|//|<<|>>|[-+*/%@&|^]=|\.\.\.|.", re.S)
_POOL = ["if", "else", "elif", "for", "in", "while", "try", "except", "finally", "with", "as", "def", "class", "return", "yield", "from",
         "import", "pass", "break", "lambda", "match", "case", "type", "async", "await", "not", "and", "or", "is", "del", "global",
         "raise", "assert", "None", "x", "_", "1", "'s'", "(", ")", "[", "]", "{", "}", ",", ":", ";", ".", "=", "*", "**", "@", "->", ":=",
         "+=", "|", "-", "...", "\n", "\n    ", " ", "#c\n"]


def mutate(rng, s):
    lx = _LEXEME.findall(s)
    if not lx:
        return rng.choice(_POOL)
    k = rng.randrange(len(lx))
    op = rng.randrange(6)
    if op == 0:
        del lx[k]
    elif op == 1:
        lx.insert(k, lx[k])
    elif op == 2 and k + 1 < len(lx):
        lx[k], lx[k + 1] = lx[k + 1], lx[k]
    elif op == 3:
        lx[k] = rng.choice(_POOL)
    elif op == 4:
        lx.insert(k, rng.choice(_POOL))
    else:
        j = rng.randrange(len(lx))
        lx[k] = lx[j]
    return "".join(lx)


def mutation_items(ctx, name, pool, n):
    rng = ctx.rng(name)
    out = []
    seen = set()
    tries = 0
    while len(out) < n and tries < 4 * n:
        tries += 1
        m, s = pool[rng.randrange(len(pool))]
        t = mutate(rng, s)
        if rng.random() < 0.15:
            t = mutate(rng, t)
        try:
            t.encode("utf-8")
        except UnicodeEncodeError:
            continue
        if (m, t) in seen or t == s:
            continue
        seen.add((m, t))
        out.append((m, t))
    return out


# ------------------------------------------------------------------------------------------------ streams

def streams(ctx):
    q = ctx.quick
    out = []
    corpus = corpus_items()
    out.append(_stream(ctx, "corpus", corpus, "corpus",
                       "hand-written texts for every statement, pattern, parameter-list, with-item, import, type-parameter and "
                       "decorator form (valid and invalid), Module / Interactive / Expression mode"))

    nm, ni, ne, nd = (6000, 2000, 4000, 300) if q else (120000, 40000, 60000, 6000)
    gm = generated(ctx, "gen-m", nm, "m", {"depth": 3})
    gi = generated(ctx, "gen-i", ni, "i", {"depth": 3})
    ge = generated(ctx, "gen-e", ne, "e", {"depth": 4})
    gd = generated(ctx, "gen-deep", nd, "m", {"depth": 5, "stmts": (1, 3)})
    out.append(_stream(ctx, "generated-module", gm, "random", "tools/gen_program.py (type-directed, all statement / expression / "
                       "pattern forms, PEP 695, layout noise), Module mode; the known-finding shapes of C01 are NOT excluded: the "
                       "model mirrors the code there"))
    out.append(_stream(ctx, "generated-interactive", gi, "random", "the same generator, Interactive mode"))
    out.append(_stream(ctx, "generated-expression", ge, "random", "generated expressions / expression lists, Expression mode"))
    out.append(_stream(ctx, "generated-deep", gd, "random", "deeper nesting, fewer statements"))

    std = stdlib_items(max_bytes=60000 if q else None)
    out.append(_stream(ctx, "stdlib", std, "corpus", "CPython 3.11 stdlib files%s, Module mode" % (" of at most 60 kB" if q else "")))
    if not q:
        out.append(_stream(ctx, "stdlib-interactive", [("i", s) for _, s in std[::4]], "corpus", "every fourth stdlib file, Interactive mode"))

    # the printer against the real lexer and parser
    rq = 1 if q else 10
    nf = {"fstrings": False}       # f-strings are outside the printer's fragment: most programs of these batches are inside
    rt_items = (corpus + gm[:500 * rq] + gi[:150 * rq] + ge[:300 * rq] + gd[:40 * rq] +
                generated(ctx, "gen-rt-m", 1600 * rq, "m", dict(nf, depth=3)) +
                generated(ctx, "gen-rt-i", 300 * rq, "i", dict(nf, depth=3)) +
                generated(ctx, "gen-rt-e", 500 * rq, "e", dict(nf, depth=4)) +
                generated(ctx, "gen-rt-deep", 100 * rq, "m", dict(nf, depth=5, stmts=(1, 3))) +
                [(m, s) for m, s in std if len(s) < (6000 if q else 40000)][:(150 if q else 1200)])
    out.append(_render_stream(ctx, "render-roundtrip", rt_items))

    small = [(m, s) for m, s in std if len(s) < 3000]
    pool = [("m", s) for s in VALID] + [("e", s) for s in EXPRESSIONS[:60]] + gm[:1500] + gi[:300] + ge[:500] + small[:150]
    mut = mutation_items(ctx, "mutations", pool, 12000 if q else 200000)
    out.append(_stream(ctx, "mutations", mut, "malformed",
                       "single (15 %: double) lexeme edits — delete, duplicate, swap, replace, insert, copy — of valid corpus texts, "
                       "generated programs and small stdlib files: both sides reject, or both accept with the same tree"))
    return out


# ------------------------------------------------------------------------------------------------ violation search

def _both(bins, items):
    """answers of both sides for texts INSIDE the model's lexical domain (others are dropped: [] is returned for them)"""
    hbin = (bins or {}).get((HARNESS["bin"], HARNESS["features"]))
    if not hbin or not os.path.exists(hbin):
        hbin = _bin()
    reqs = requests_for(items)
    a = core.run_lines([hbin], reqs, jobs=4)
    b = core.run_lines([core.driver_path(DRIVER)], reqs, jobs=4)
    return reqs, a, b


def _cpython(mode, src):
    try:
        ast.parse(src, mode={"m": "exec", "i": "exec", "e": "eval"}[mode])
        return "accepts"
    except (SyntaxError, ValueError, RecursionError, MemoryError):
        return "rejects"


def search(ctx, disagreements, bins):
    """A disagreement between the Lean parser and the real parser IS the failing input of this check: shrink the source
    of the first few disagreeing requests (line-wise, then lexeme-wise), keeping `answers differ`, and report the smallest."""
    best = None
    for e in disagreements[:4]:
        mode, src, _ = split_request(e["request"])
        if e["request"].startswith("rt "):
            # the printer stream: the text both sides disagree about is the RENDERED text
            src = unhex(e["request"].split()[4]).decode("utf-8")

        def differs(t):
            try:
                t.encode("utf-8")
            except UnicodeEncodeError:
                return None
            r, a, b = _both(bins, [(mode, t)])
            if not r:
                return None         # the candidate left the model's lexical domain
            return (r[0], a[0], b[0]) if a[0] != b[0] else None

        cur = differs(src)
        if cur is None:
            continue
        text = src
        for unit in ("line", "lexeme"):
            parts = text.splitlines(True) if unit == "line" else _LEXEME.findall(text)
            n = 2
            while len(parts) >= 2:
                size = max(1, len(parts) // n)
                changed = False
                i = 0
                while i < len(parts):
                    cand = parts[:i] + parts[i + size:]
                    got = differs("".join(cand)) if cand else None
                    if got is not None:
                        parts, cur, changed = cand, got, True
                    else:
                        i += size
                if not changed:
                    if size == 1:
                        break
                    n = min(len(parts), n * 2)
            text = "".join(parts)
        if best is None or len(text) < len(best[0]):
            best = (text, mode, cur, e["stream"])
        if len(text) < 80:
            break
    if best is None:
        return None
    text, mode, (req, a, b), stream = best
    return {"stream": stream, "request": req, "source": text, "mode": MODES[mode], "impl_output": a[:4000], "model_output": b[:4000],
            "cpython": _cpython(mode, text),
            "theorem_or_stream_broken": "correspondence real parser vs PV.Prog.parseProgram (shrunk input)"}
