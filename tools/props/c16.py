"""C16 - repr of text and bytes is a literal that decodes back to the same value."""
import ast
import itertools
import os
import unicodedata
import warnings

import core
from core import Stream, hexs, unhex

ID = "C16"
DESIGN_REF = "DESIGN.md section 5, C16"
LEAN_TARGETS = ["PV.C16.Thm"]
DRIVER = "drv_c16"
HARNESS = {"bin": "pvh_c16", "features": "default"}
THEOREMS = [
    "PV.C16.repr_decodes",
    "PV.C16.repr_decodes_pref",
    "PV.C16.repr_decodes_forced",
    "PV.C16.bytes_repr_decodes",
    "PV.C16.bytes_repr_decodes_pref",
    "PV.C16.bytes_repr_decodes_forced",
    "PV.C16.layout_some",
    "PV.C16.bytes_layout_some",
    "PV.C16.quote_rule",
    "PV.C16.bytes_quote_rule",
    "PV.C16.layout_len_exact",
    "PV.C16.bytes_layout_len_exact",
    "PV.C16.fast_path_sound",
    "PV.C16.fast_path_complete",
    "PV.C16.bytes_fast_path_sound",
    "PV.C16.repr_eq_py",
    "PV.C16.bytes_repr_eq_py",
    "PV.C16.toString_eq",
    "PV.C16.bytes_toString_eq",
    "PV.C16.named_layout_spec",
    "PV.C16.named_repr_decodes",
]
TRUSTED = [
    "Lean 4.33.0 kernel; axioms limited to propext, Classical.choice, Quot.sound",
    "hand-written model lean/PV/C16/Model.lean of literal/src/escape.rs (choose_quote, UnicodeEscape, AsciiEscape, "
    "Escape::changed/write_body, StrRepr, BytesRepr incl. Display, AsciiEscape::new/named_repr_layout), tied to the code by the correspondence streams of this run",
    "rustpython_literal::char::is_printable (unic-ucd-category, Unicode 10 table) is a parameter of the model; the "
    "theorems hold for every printability function; the real table is compared with CPython's on every code point "
    "whose status is the same in Unicode 3.2 and 14 (stream printable-table)",
    "Rust `{:02x}`/`{:04x}`/`{:08x}` formatting of a value below 16^width = that many lower-case hex digits",
    "lean/PV/C16/Spec.lean (partial Python literal decoder, CPython unicode_repr/bytes_repr) as the meaning of "
    "'Python literal' / 'Python repr'; validated against CPython 3.11.7 ast.literal_eval / repr on every run",
    "the real parser's decoding of the produced literal is observed (field rt), not modelled",
    "named_repr_layout reads only name.len(): long names are a fabricated &str (dangling pointer, never read); name "
    "lengths stay <= isize::MAX - 5, where the length checker's `as isize` casts are the identity",
    "tools/props/c16.py (generator, independent CPython oracle), harness/src/bin/pvh_c16.rs, lean/Drv/C16.lean",
]
PARTIAL = []
READY = True
TECHNIQUE = ("Lean 4 theorems (induction over the string) about a hand-written model of the escape helpers with "
             "printability as a parameter + exhaustive/random correspondence with the real crate + CPython oracle")
LEVEL_TEXT = ("Machine-checked Lean 4 theorems for strings and byte strings of every length and every printability "
              "function: the produced repr decodes (independent Python-literal decoder) to the original value, for "
              "the default, preferred-double and forced-quote constructors; the quote is Python's choice; the UTF-8 "
              "length of the text is the announced layout length plus the quotes; the fast path is taken exactly when "
              "no character needs escaping and then copies a text equal to the slow path's; the text equals CPython's "
              "unicode_repr whenever the printability function agrees with Python's on the string's non-ASCII "
              "characters, and bytes_repr always. The model is tied to the Rust code on every run by exhaustive "
              "small-scope (all byte strings of <= 2 bytes, all <= 2-character texts over a class-representative "
              "alphabet) plus random correspondence; the real code is additionally judged by CPython "
              "(ast.literal_eval, repr) and by decoding through the real parser.")
LEVEL_NOTE = ("Trusted: Lean kernel (axioms propext/Classical.choice/Quot.sound only), the hand-written model's "
              "fidelity as sampled by correspondence, the Unicode table behind is_printable (a parameter; compared "
              "with CPython on version-independent code points), Rust integer hex formatting, the Lean reference "
              "decoder/repr as validated against CPython, harness and generator. The isize overflow guard of the "
              "layout (len = None) is exercised through named_repr_layout with a name length near isize::MAX (the "
              "function only reads name.len(); the harness passes a length over a never-dereferenced pointer).")
RULE = ("request lines (text or bytes x constructor) sent to both the real rustpython-literal crate and the Lean model; "
        "distinct = distinct request line; non-trivial = the value is non-empty")

# ------------------------------------------------------------------ Python-side reference

ISIZE_MAX = 2**63 - 1
_OLD = unicodedata.ucd_3_2_0
_NONPRINT = {"Cc", "Cf", "Cs", "Co", "Cn", "Zl", "Zp", "Zs"}


def _stable(cp):
    """printable status of the code point is the same in Unicode 3.2 and in CPython's Unicode (14.0): taken as
    'does not depend on the Unicode version' (the Rust table is Unicode 10)"""
    if cp < 0x100:
        return True
    ch = chr(cp)
    return (_OLD.category(ch) in _NONPRINT) == (unicodedata.category(ch) in _NONPRINT)


def _comparable(s, plist):
    """every character either has a version-independent status, or the attached (real) classification agrees
    with CPython's"""
    for ch in set(s):
        cp = ord(ch)
        if cp < 128 or _stable(cp):
            continue
        if (cp in plist) != ch.isprintable():
            return False
    return True


def _py_quote(v, sq, dq):
    return '"' if (sq in v and dq not in v) else "'"


def _fields(out):
    return dict(kv.split("=", 1) for kv in out.split())


def _plist(arg):
    return set() if arg == "-" else {int(x) for x in arg.split(",")}


def _lit_eval(text):
    with warnings.catch_warnings():
        warnings.simplefilter("ignore")
        return ast.literal_eval(text)


def _judge_text(s, text, strict_py):
    """text must be a str literal with value s, Python's quote, and (strict_py) CPython's repr"""
    try:
        v = _lit_eval(text)
    except Exception as e:  # noqa: BLE001
        return f"repr is not a Python literal: {e!r}"
    if not (isinstance(v, str) and v == s):
        return "repr evaluates (ast.literal_eval) to a different value"
    q = _py_quote(s, "'", '"')
    if not (text[:1] == q and text[-1:] == q):
        return f"quote choice differs from Python's ({q})"
    if strict_py and text != repr(s):
        return "text differs from CPython repr()"
    return None


def _judge_bytes(b, text):
    try:
        v = _lit_eval(text)
    except Exception as e:  # noqa: BLE001
        return f"repr is not a Python literal: {e!r}"
    if not (isinstance(v, bytes) and v == b):
        return "repr evaluates (ast.literal_eval) to a different value"
    if text != repr(b):
        return "text differs from CPython repr()"
    return None


def oracle(req, out):
    """Judge the implementation's answer against the property, independently of the Lean model."""
    ws = req.split()
    if out in ("(panic)", "(abort)", "(timeout)"):
        return "implementation " + out
    op = ws[0]
    if op == "printable":
        return _oracle_table(int(ws[1]), int(ws[2]), out)
    if out == "bad-request":
        return "harness rejected the request"
    f = _fields(out)
    try:
        text = unhex(f["repr"]).decode("utf-8")
    except Exception:  # noqa: BLE001
        return "produced repr is not UTF-8"
    if f.get("rt") != "ok":
        return f"the real parser does not decode the repr back to the value (rt={f.get('rt')})"
    nbytes = len(text.encode("utf-8"))

    def other_text(key, what, judge):
        """a second way of producing the repr (Display, AsciiEscape::new): `same`, or judged on its own"""
        d = f.get(key)
        if d == "same":
            return None
        if d is None:
            return f"{what}: no answer"
        try:
            dtext = unhex(d).decode("utf-8")
        except Exception:  # noqa: BLE001
            return f"{what} is not UTF-8"
        fail = judge(dtext)
        return f"{what}: {fail}" if fail else None

    def lit_is(value):
        def judge(t):
            try:
                v = _lit_eval(t)
            except Exception as e:  # noqa: BLE001
                return f"not a Python literal: {e!r}"
            return None if (type(v) is type(value) and v == value) else "evaluates to a different value"
        return judge
    if op == "named":
        b = unhex(ws[1])
        name_len = int(ws[2])
        try:
            v = _lit_eval(text)
        except Exception as e:  # noqa: BLE001
            return f"repr is not a Python literal: {e!r}"
        if not (isinstance(v, bytes) and v == b):
            return "repr evaluates (ast.literal_eval) to a different value"
        fail = other_text("fmt", "Display of BytesRepr", lit_is(b))
        if fail:
            return fail
        # the text to be produced is  name + "(" + bytes repr + ")"
        whole = name_len + 2 + len(repr(b))
        if f["len"] == "none":
            if whole <= ISIZE_MAX:
                return (f"named layout announces no length although name({name_len}) + parentheses + repr = {whole} "
                        f"fits isize")
            return None
        if whole > ISIZE_MAX:
            return f"named layout announces length {f['len']} although the whole text ({whole}) exceeds isize::MAX"
        if int(f["len"]) + 3 != nbytes:
            return f"announced length {f['len']} + 3 != produced length {nbytes}"
        fail = _judge_bytes(b, text)
        if fail:
            return fail
        if f["q"] != ("d" if _py_quote(b, 39, 34) == '"' else "s"):
            return "layout quote differs from Python's choice"
        body_changed = text[2:-1].encode("latin-1", "replace") != b
        if (f["changed"] == "true") != body_changed:
            return f"changed()={f['changed']} but body {'differs from' if body_changed else 'equals'} the source"
        return None
    if op in ("reprs", "reprq"):
        s = unhex(ws[-2]).decode("utf-8")
        plist = _plist(ws[-1])
        if f.get("cls") != "ok":
            return "attached printability classification is not the real one (generator/harness out of sync)"
        if op == "reprq":
            try:
                v = _lit_eval(text)
            except Exception as e:  # noqa: BLE001
                return f"repr is not a Python literal: {e!r}"
            if not (isinstance(v, str) and v == s):
                return "repr evaluates (ast.literal_eval) to a different value"
            if f["len"] != "none" and int(f["len"]) + 2 != nbytes:
                return f"announced length {f['len']} + 2 != produced length {nbytes}"
            return other_text("fmt", "Display of StrRepr", lit_is(s))
        fail = _judge_text(s, text, _comparable(s, plist))
        if fail:
            return fail
        if f["q"] != ("d" if text[0] == '"' else "s"):
            return "layout quote differs from the quote written"
        if f["len"] == "none":
            return "layout announces no length"
        if int(f["len"]) + 2 != nbytes:
            return f"announced length {f['len']} + 2 != produced length {nbytes}"
        body_changed = text[1:-1] != s
        if (f["changed"] == "true") != body_changed:
            return f"changed()={f['changed']} but body {'differs from' if body_changed else 'equals'} the source"
        if f.get("tostr") != "same":
            return f"StrRepr::to_string() is {f.get('tostr')}"
        d = f.get("disp")
        if d != "eq":
            if d in ("panic", None):
                return "Constant::Str display panicked"
            try:
                dtext = unhex(d).decode("utf-8")
            except Exception:  # noqa: BLE001
                return "Constant::Str display is not UTF-8"
            fail = _judge_text(s, dtext, _comparable(s, plist))
            if fail:
                return fail
        return other_text("fmt", "Display of StrRepr", lambda t: _judge_text(s, t, _comparable(s, plist)))
    if op in ("reprb", "reprbq"):
        b = unhex(ws[-1])
        if op == "reprbq":
            try:
                v = _lit_eval(text)
            except Exception as e:  # noqa: BLE001
                return f"repr is not a Python literal: {e!r}"
            if not (isinstance(v, bytes) and v == b):
                return "repr evaluates (ast.literal_eval) to a different value"
            if f["len"] != "none" and int(f["len"]) + 3 != nbytes:
                return f"announced length {f['len']} + 3 != produced length {nbytes}"
            return other_text("fmt", "Display of BytesRepr", lit_is(b))
        fail = _judge_bytes(b, text)
        if fail:
            return fail
        q = _py_quote(b, 39, 34)
        if f["q"] != ("d" if q == '"' else "s"):
            return "layout quote differs from Python's choice"
        if f["len"] == "none":
            return "layout announces no length"
        if int(f["len"]) + 3 != nbytes:
            return f"announced length {f['len']} + 3 != produced length {nbytes}"
        body_changed = text[2:-1].encode("latin-1", "replace") != b
        if (f["changed"] == "true") != body_changed:
            return f"changed()={f['changed']} but body {'differs from' if body_changed else 'equals'} the source"
        if f.get("tostr") != "same":
            return f"BytesRepr::to_string() is {f.get('tostr')}"
        d = f.get("disp")
        if d != "eq":
            if d in ("panic", None):
                return "Constant::Bytes display panicked"
            try:
                dtext = unhex(d).decode("utf-8")
            except Exception:  # noqa: BLE001
                return "Constant::Bytes display is not UTF-8"
            fail = _judge_bytes(b, dtext)
            if fail:
                return fail
        return (other_text("fmt", "Display of BytesRepr", lambda t: _judge_bytes(b, t))
                or other_text("new", "AsciiEscape::new(b, repr_layout(b))", lambda t: _judge_bytes(b, t)))
    return None


def _parse_ranges(out):
    rs = []
    if out != "-":
        for r in out.split(","):
            a, b = r.split("-")
            rs.append((int(a), int(b)))
    return rs


def _oracle_table(lo, hi, out):
    """is_printable agrees with str.isprintable on every non-ASCII code point of [lo, hi] whose status does not
    depend on the Unicode version"""
    try:
        rs = _parse_ranges(out)
    except Exception:  # noqa: BLE001
        return "unparsable answer"
    real = bytearray(hi - lo + 1)
    for a, b in rs:
        for c in range(max(a, lo), min(b, hi) + 1):
            real[c - lo] = 1
    for cp in range(max(lo, 128), hi + 1):
        if 0xD800 <= cp <= 0xDFFF or not _stable(cp):
            continue
        if bool(real[cp - lo]) != chr(cp).isprintable():
            return (f"is_printable(U+{cp:04X}) = {bool(real[cp - lo])}, Python says {chr(cp).isprintable()} "
                    f"(status identical in Unicode 3.2 and 14.0), so repr of that character differs from Python's")
    return None


def search(ctx, disagreements, bins):
    """Model and implementation disagree on some request although the oracle accepted the implementation's
    answer there: look for a concrete failing input in the neighbourhood (single characters, pairs, the text with
    either quote appended) by evaluating the property's oracle on the real implementation."""
    hbin = bins.get((HARNESS["bin"], HARNESS["features"]))
    if not hbin or not disagreements:
        return None
    tab, _ = _real_table(hbin)
    reqs, seen = [], set()

    def add(r):
        if r not in seen:
            seen.add(r)
            reqs.append(r)
    for e in disagreements[:40]:
        ws = e["request"].split()
        if ws[0] in ("reprs", "reprq"):
            s = unhex(ws[-2]).decode("utf-8")
            cands = {s} | set(s) | {a + b for a in set(s) for b in set(s)}
            for t in sorted(cands):
                for v in (t, t + "'", t + '"', "'" + t, t + "\n", "a" + t):
                    add(f"reprs {hexs(v)} {_pl(v, tab)}")
        elif ws[0] in ("reprb", "reprbq"):
            b = unhex(ws[-1])
            cands = {b} | {bytes([x]) for x in b} | {bytes([x, y]) for x in set(b) for y in set(b)}
            for t in sorted(cands):
                for v in (t, t + b"'", t + b'"', b"'" + t, t + b"\n", b"a" + t):
                    add(f"reprb {hexs(v)}")
    if not reqs:
        return None
    outs = core.run_lines([hbin], reqs[:20000], jobs=4)
    for r, a in zip(reqs, outs):
        try:
            fail = oracle(r, a)
        except Exception:  # noqa: BLE001
            fail = None
        if fail:
            return {"request": r, "impl": a, "failure": fail, "stream": "violation-search"}
    return None


# ------------------------------------------------------------------ generators

# class representatives (one comment per class)
ALPHABET = [
    "'", '"', "\\",                                   # quotes, backslash
    "\n", "\r", "\t",                                 # the three named escapes
    "\x00", "\x01", "\x08", "\x0b", "\x0c", "\x1b", "\x1f",   # other C0 controls
    " ", "a", "n", "x", "u", "U", "N", "0", "7", "f", "{", "~",   # space, letters/digits that follow a backslash in escapes
    "\x7f",                                           # DEL
    "\x80", "\x85", "\x9f",                           # C1 controls
    "\xa0", "\xa1", "\xad", "\xe9", "\xff",           # Latin-1: NBSP (Zs), printable, soft hyphen (Cf), printable, last
    "\u0100", "\u0378", "\u0870",                     # first beyond Latin-1; unassigned BMP; assigned after Unicode 10
    "\u200b", "\u2028", "\u2029", "\u3000",           # format; line / paragraph separator; ideographic space (Zs)
    "\ud7ff", "\ue000", "\ufeff", "\ufffd", "\uffff",  # before surrogates; private use; BOM (Cf); replacement; nonchar
    "\U00010000", "\U0001f600", "\U00020000",         # astral printable (Unicode 4.0 / 6.1 / 3.1)
    "\U00030000",                                     # astral, assigned in Unicode 13 (status is version dependent)
    "\U000e0001", "\U000f0000", "\U0010ffff",         # astral format char; plane-15 private use; max scalar value
]
SMALL = ["'", '"', "\\", "\n", "a", "\x00", "\x7f", "\xe9", "\xa0", "\u2028", "\U0001f600", "\U0010ffff"]


def _real_table(hbin):
    out = core.run_lines([hbin], ["printable 128 1114111"])[0]
    tab = bytearray(0x110000)
    for a, b in _parse_ranges(out):
        for c in range(a, b + 1):
            tab[c] = 1
    return tab, out


def _pl(s, tab):
    cps = sorted({ord(c) for c in s if ord(c) >= 128 and tab[ord(c)]})
    return ",".join(str(c) for c in cps) if cps else "-"


def _texts(alpha, maxlen):
    for n in range(maxlen + 1):
        for tup in itertools.product(alpha, repeat=n):
            yield "".join(tup)


def _rand_cp(rng):
    while True:
        k = rng.randrange(6)
        cp = (rng.randrange(0x80) if k == 0 else rng.randrange(0x80, 0x100) if k == 1 else
              rng.randrange(0x100, 0x3000) if k == 2 else rng.randrange(0x3000, 0x10000) if k == 3 else
              rng.randrange(0x10000, 0x30000) if k == 4 else rng.randrange(0x30000, 0x110000))
        if not 0xD800 <= cp <= 0xDFFF:
            return chr(cp)


def _spec_validation(ctx, texts, byte_strings):
    """Second, weaker tie on the spec side (DESIGN 1.1): the Lean reference definitions are run on the same inputs
    as CPython; a difference is a defect of the spec, recorded in the evidence, never reported as a violation."""
    drv = core.driver_path(DRIVER)
    if not os.path.exists(drv):
        return
    rng = ctx.rng("spec")
    reqs, want = [], []
    for s in texts:
        pyp = sorted({ord(c) for c in s if ord(c) >= 128 and c.isprintable()})
        reqs.append(f"specrepr {hexs(s)} {','.join(map(str, pyp)) if pyp else '-'}")
        want.append(hexs(repr(s)))
        reqs.append(f"specdecode {hexs(repr(s))}")
        want.append("str:" + hexs(s))
    for b in byte_strings:
        reqs.append(f"specreprb {hexs(b)}")
        want.append(hexs(repr(b)))
        reqs.append(f"specdecode {hexs(repr(b))}")
        want.append("bytes:" + hexs(b))
    # literals beyond what repr produces: other escapes, prefixes, unsupported forms (answer `none` allowed)
    pieces = ["a", "7", " ", "\\\\", "\\'", '\\"', "\\n", "\\r", "\\t", "\\a", "\\b", "\\f", "\\v", "\\0", "\\12",
              "\\377", "\\400", "\\x41", "\\xfF", "\\u00e9", "\\u2028", "\\U0001F600", "\\U0010ffff", "\\U00110000",
              "\\q", "\\8", "\\\n", "\\N{BULLET}", "\\x4", "\\u12", "\u00e9", "\u2028", "'", '"', "\\ud800", "\t", "\x0c"]
    n = 1500 if ctx.quick else 20000
    partial = 0
    for _ in range(n):
        q = rng.choice("'\"")
        body = "".join(rng.choice(pieces) for _ in range(rng.randrange(0, 6)))
        pre = rng.choice(["", "", "", "b", "B", "u", "U", "r", "f"])
        lit = pre + q + body + rng.choice([q, q, q, q, "", q + q])
        try:
            v = _lit_eval(lit)
            if isinstance(v, str):
                w = "str:" + (v.encode("utf-8", "surrogatepass").hex() or "-")
            elif isinstance(v, bytes):
                w = "bytes:" + hexs(v)
            else:
                w = "none"
        except Exception:  # noqa: BLE001
            w = "none"
        if not lit.encode("utf-8", "surrogatepass"):
            continue
        reqs.append(f"specdecode {hexs(lit)}")
        want.append("?" + w)          # '?': the reference decoder may answer none (partial), otherwise must agree
    got = core.run_lines([drv], reqs, jobs=4)
    bad = []
    for r, w, g in zip(reqs, want, got):
        if w.startswith("?"):
            if g == "none":
                partial += w != "?none"
                continue
            if g != w[1:]:
                bad.append((r, w[1:], g))
        elif g != w:
            bad.append((r, w, g))
    ctx.extra["spec_validation"] = {"requests": len(reqs), "mismatches": len(bad),
                                    "literals_outside_the_reference_decoder": partial,
                                    "what": "Spec.pyRepr / pyBytesRepr / pyLiteralDecode vs CPython repr / ast.literal_eval"}
    for r, w, g in bad[:5]:
        ctx.notes.append(f"SPEC MISMATCH (defect of the Lean reference, not of the code): {r} -> {g}, CPython {w}")


def streams(ctx):
    # the real printability table is needed to attach the classification to each request
    rc, out, hbin = core.cargo_build(HARNESS["bin"], HARNESS["features"])
    if rc != 0:
        raise RuntimeError("harness build failed: " + out[-300:])
    tab, _ = _real_table(hbin)

    def rs(s):
        return f"reprs {hexs(s)} {_pl(s, tab)}"

    out = []
    # 1. corpus
    corpus_t = ["", "hello", "'hello'", '"hello"', "'\"hello", "hello\n", "it's", 'say "hi"', "a\\b", "\\'", "\\\"",
                "'" * 3, '"' * 3, "''\"", "tab\there", "\x00f", "\x7f7", "\u00e9", "\xa0", "\xad", "\u2028\u2029", "\u65e5\u672c\u8a9e",
                "\U0001f600'", "\U0010ffff\"", "\ue000", "\ufeff'\"", "\\N{BULLET}", "\\x41", "\\u1234", "a\rb", "\x1b[0m",
                "\u00df\u0378", "\u0870'", "\U00030000"]
    corpus_b = [b"", b"hello", b"'hello'", b'"hello"', b"'\"hello", b"hello\n", b"\x00\xff", b"\\", b"\\'", b"it's",
                b"\x7f", b"\x80", b"\t\r\n", b"~ ", bytes(range(256))]
    reqs = [rs(s) for s in corpus_t] + [f"reprb {hexs(b)}" for b in corpus_b]
    reqs += [f"named {hexs(b)} {n}" for b in corpus_b for n in (9, ISIZE_MAX - 5 - len(repr(b)) + 3,
                                                                 ISIZE_MAX - 5 - len(repr(b)) + 4)
             if 0 <= n <= ISIZE_MAX - 5]
    for m in ("ps", "pd", "fs", "fd"):
        reqs += [f"reprq {m} {hexs(s)} {_pl(s, tab)}" for s in corpus_t]
        reqs += [f"reprbq {m} {hexs(b)}" for b in corpus_b]
    out.append(Stream("corpus", reqs, kind="corpus"))

    nonempty = lambda r: r.split()[-2 if r.startswith("reprs") or r.startswith("reprq") else -1] != "-"  # noqa: E731

    # 2. exhaustive small scope
    texts2 = list(_texts(ALPHABET, 2))
    out.append(Stream("text-exhaustive-len<=2", [rs(s) for s in texts2], kind="exhaustive", exhaustive=True,
                      note=f"all texts of <= 2 characters over {len(ALPHABET)} class representatives "
                           "(quotes, backslash, named escapes, C0, DEL, C1, Latin-1, separators, format, private use, "
                           "unassigned, version-dependent, astral, U+10FFFF)", nontrivial=nonempty))
    all_b2 = [b""] + [bytes([a]) for a in range(256)] + [bytes([a, b]) for a in range(256) for b in range(256)]
    out.append(Stream("bytes-exhaustive-len<=2", [f"reprb {hexs(b)}" for b in all_b2], kind="exhaustive",
                      exhaustive=True, note="ALL byte strings of <= 2 bytes", nontrivial=nonempty))
    qm_t = list(_texts(["'", '"', "\\", "a"], 5))
    qm_b = [t.encode() for t in qm_t]
    out.append(Stream("quote-mixtures-len<=5", [rs(s) for s in qm_t] + [f"reprb {hexs(b)}" for b in qm_b],
                      kind="exhaustive", exhaustive=True,
                      note="all texts and byte strings of <= 5 symbols over {', \", backslash, a}: every count "
                           "combination choose_quote distinguishes", nontrivial=nonempty))
    reqs = []
    small_t = list(_texts(SMALL, 2 if ctx.quick else 3))
    small_b = [b""] + [bytes([a]) for a in range(256)] + [bytes(t) for t in itertools.product(
        [39, 34, 92, 10, 97, 0, 127, 255], repeat=2)]
    for m in ("ps", "pd", "fs", "fd"):
        reqs += [f"reprq {m} {hexs(s)} {_pl(s, tab)}" for s in small_t]
        reqs += [f"reprbq {m} {hexs(b)}" for b in small_b]
    out.append(Stream("preferred-and-forced-quote", reqs, kind="exhaustive", exhaustive=True,
                      note="with_preferred_quote(Single|Double), with_forced_quote(Single|Double) over a reduced "
                           "alphabet; the oracle only asks for the round trip and the announced length",
                      nontrivial=nonempty))
    # named_repr_layout: the layout of  name(b'...')  — ordinary names and names so long that the whole text
    # crosses isize::MAX (the only way to reach the `len: None` exits of the layout loop)
    nb = [b""] + [bytes(t) for n in (1, 2, 3) for t in itertools.product([39, 34, 92, 97, 10, 0, 255], repeat=n)
                  if n < 3 or ctx.tier != "quick" or t[0] in (39, 34)]
    name_lens = [0, 1, 9, 4096, 4097, 2**32] + [ISIZE_MAX - 5 - k for k in range(0, 20)]
    reqs = [f"named {hexs(b)} {n}" for b in nb for n in name_lens]
    out.append(Stream("named-layout", reqs, kind="exhaustive", exhaustive=True,
                      note="AsciiEscape::new(b, named_repr_layout(b, name)): byte strings of <= 3 bytes over "
                           "{', \", backslash, a, LF, NUL, 0xff} x name lengths 0, 1, 9 (bytearray), 4096/4097, 2^32 and "
                           "isize::MAX-5-k for k < 20 (every position of the overflow border incl. the `stop` exit inside "
                           "the loop and the exit after it)"))
    if not ctx.quick:
        t3 = list(_texts(ALPHABET[:3] + ["\n", "\x00", "a", "x", "0", "\x7f", "\xa0", "\xe9", "\u2028",
                                         "\ue000", "\U0001f600", "\U000e0001", "\U0010ffff"], 3))
        out.append(Stream("text-exhaustive-len<=3-reduced", [rs(s) for s in t3 if len(s) == 3], kind="exhaustive",
                          exhaustive=True, note="all 3-character texts over 16 class representatives",
                          nontrivial=nonempty))

    # 3. single characters: the whole BMP and every boundary of the real table; thorough: every scalar value
    cps = set(range(0, 0x10000))
    prev = 0
    for cp in range(128, 0x110000):
        if tab[cp] != prev:
            cps.update((cp - 1, cp))
            prev = tab[cp]
    cps.update((0xFFFF, 0x10000, 0x10FFFF, 0xD7FF, 0xE000))
    if not ctx.quick:
        cps.update(range(0, 0x110000))
    cps = sorted(c for c in cps if not 0xD800 <= c <= 0xDFFF)
    reqs = []
    for cp in cps:
        reqs.append(rs(chr(cp)))
    for cp in cps[::5 if ctx.quick else 23]:
        reqs.append(rs("'" + chr(cp)))
    out.append(Stream("single-characters", reqs, kind="exhaustive", exhaustive=False,
                      note="one-character texts: the whole BMP, both sides of every boundary of the real printability "
                           "table, plane boundaries (thorough: EVERY scalar value)",
                      nontrivial=nonempty))

    # 4. the printability table itself against CPython (implementation judged by the oracle only)
    step = 0x4000
    reqs = [f"printable {lo} {min(lo + step - 1, 0x10FFFF)}" for lo in range(0, 0x110000, step)]
    out.append(Stream("printable-table", reqs, kind="exhaustive", exhaustive=True, compare=False,
                      note="char::is_printable on all 1,114,112 code points vs str.isprintable, judged on those whose "
                           "status is the same in Unicode 3.2 and 14.0 (the model takes printability as a parameter)"))

    # 5. random longer
    rng = ctx.rng("random")
    n = 30000 if ctx.quick else 250000
    reqs = []
    rtexts, rbytes = [], []
    for i in range(n):
        k = rng.randrange(3, 40)
        mode = rng.randrange(4)
        if mode == 0:
            s = "".join(rng.choice(ALPHABET) for _ in range(k))
        elif mode == 1:
            s = "".join(_rand_cp(rng) for _ in range(k))
        elif mode == 2:   # mostly plain text with a few specials: exercises the fast path and its boundary
            s = "".join(rng.choice("abc xyz_09\u00e9\u65e5") if rng.random() < 0.93 else rng.choice(ALPHABET) for _ in range(k))
        else:
            s = "".join(rng.choice(["'", '"', "\\", "a", "\n", "\xe9"]) for _ in range(k))
        rtexts.append(s)
        reqs.append(rs(s))
        kb = rng.randrange(3, 60)
        mb = rng.randrange(3)
        if mb == 0:
            b = bytes(rng.randrange(256) for _ in range(kb))
        elif mb == 1:
            b = bytes(rng.choice(b"abc xyz_09~") if rng.random() < 0.93 else rng.randrange(256) for _ in range(kb))
        else:
            b = bytes(rng.choice([39, 34, 92, 97, 10, 0, 255]) for _ in range(kb))
        rbytes.append(b)
        reqs.append(f"reprb {hexs(b)}")
        if i % 10 == 0:
            m = rng.choice(["ps", "pd", "fs", "fd"])
            reqs.append(f"reprq {m} {hexs(s)} {_pl(s, tab)}")
            reqs.append(f"reprbq {m} {hexs(b)}")
    out.append(Stream("random-longer", reqs, kind="random", nontrivial=nonempty))

    # spec-side validation against CPython (recorded, never a violation)
    try:
        _spec_validation(ctx, corpus_t + texts2 + rtexts[:2000],
                         corpus_b + all_b2[:257] + all_b2[257::97] + rbytes[:2000])
    except Exception as e:  # noqa: BLE001
        ctx.notes.append(f"spec validation could not run: {e!r}")
    return out
