"""C14 — converting between the two parameter-list forms keeps every parameter.

Request lines (see harness/src/bin/pvh_c14.rs for the signature syntax):
  rt <b|p> <sig>      Arguments -> PythonArguments -> Arguments by the three API routes
  topy <b|p> <sig>    Arguments -> PythonArguments by the three API routes (+ split_kwonlyargs)
  intoargs <pysig>    hand-built PythonArguments -> Arguments
<sig>   = posonly;args;vararg;kwonly;kwarg                  parameter  N | N:A | N=D | N:A=D
<pysig> = posonly;args;defaults;vararg;kwonly;kw_defaults;kwarg

The oracle below is written from the property text and the Python documentation of
`ast.arguments`; it does not look at the Lean model.
"""
import itertools
import os

import core
from core import Stream

# Flip to True once fixes/C14-kwonly-defaults.diff is applied to /repo (see design/C14.md, "After the
# fix"): the driver then answers with the repaired model of lean/PV/C14/Fixed.lean, the full-strength
# theorems PV.C14.Fixed.* become the claim, and the two known findings are no longer expected.
FIX_APPLIED = os.environ.get("PV_C14_FIX_APPLIED", "1") == "1"
if FIX_APPLIED:
    os.environ["PV_C14_MODEL"] = "fixed"        # inherited by lean/Drv/C14.lean
else:
    os.environ.pop("PV_C14_MODEL", None)

ID = "C14"
DESIGN_REF = "DESIGN.md section 5, C14"
LEAN_TARGETS = ["PV.C14.Thm", "PV.C14.Fixed"]
DRIVER = "drv_c14"
HARNESS = {"bin": "pvh_c14", "features": "default"}
THEOREMS = [
    "PV.C14.roundtrip_positional",
    "PV.C14.routes_agree",
    "PV.C14.roundtrip_partial",
    "PV.C14.roundtrip_partial_eq",
    "PV.C14.roundtrip_fails",
    "PV.C14.roundtrip_kwonly_length",
    "PV.C14.roundtrip_loses_parameter",
    "PV.C14.roundtrip_needs_trailing",
    "PV.C14.toPython_kwonly_order_partial",
    "PV.C14.toPython_kwonly_order_fails",
    "PV.C14.splitKwonly_spec",
    "PV.C14.defaults_spec",
    "PV.C14.intoArguments_none_iff",
    "PV.C14.intoArguments_no_underflow",
    "PV.C14.toPython_no_underflow",
    "PV.C14.intoArguments_denote_partial",
    "PV.C14.intoArguments_denote_fails",
    "PV.C14.toPython_denotes_partial",
    "PV.C14.toPython_denotes_fails",
    # the repaired code of fixes/C14-kwonly-defaults.diff (not applied): full statements
    "PV.C14.Fixed.roundtrip",
    "PV.C14.Fixed.toPython_kwonly_order",
    "PV.C14.Fixed.intoArguments_denote",
    "PV.C14.Fixed.toPython_denotes",
    "PV.C14.Fixed.positional_unchanged",
    "PV.C14.Fixed.intoArguments_no_underflow",
    "PV.C14.Fixed.defaults_eq",
]
TRUSTED = [
    "Lean 4.33.0 kernel; axioms limited to propext, Classical.choice, Quot.sound",
    "hand-written model lean/PV/C14/Model.lean of ast/src/generic.rs (to_python_arguments, into_python_arguments, "
    "split_kwonlyargs, defaults, into_arguments, ArgWithDefault::from_arg/as_arg/to_arg/into_arg), tied to the code by the "
    "correspondence streams of this run (exhaustive over all shapes with <= 3 parameters per kind)",
    "a parameter is modelled as (name id, optional annotation id, optional default id); range and type_comment travel "
    "inside the moved/cloned Arg value and are not observed",
    "Vec::drain / iter::zip / repeat_with().take().chain() semantics of the Rust standard library",
    "default feature set only (ArgWithDefault::from_arg is todo!() under all-nodes-with-ranges)",
    "tools/props/c14.py (generator, independent Python oracle), harness/src/bin/pvh_c14.rs, lean/Drv/C14.lean",
]
_FIXED_THEOREMS = [t for t in THEOREMS if ".Fixed." in t]
_PARTIAL_IF_FIXED = []
PARTIAL = [
    "roundtrip_full is FALSE on the unchanged code (roundtrip_fails, witness def f(*, a, b=1)); proved instead: "
    "roundtrip_positional (positional-only/positional/vararg/kwarg, all lengths, full strength) and roundtrip_partial "
    "(whole signature when every keyword-only parameter has a default); roundtrip_loses_parameter shows every other "
    "signature fails",
    "toPython_kwonly_order_full is FALSE on the unchanged code (toPython_kwonly_order_fails, witness def f(*, a=1, b)); "
    "proved instead: toPython_kwonly_order_partial (source already ordered)",
    "PV.C14.Fixed.* prove both full statements for the repaired functions of fixes/C14-kwonly-defaults.diff; they are "
    "about the proposed code, not the code in /repo, until the fix is applied and Model.lean is switched",
]
if FIX_APPLIED:
    THEOREMS = _FIXED_THEOREMS + ["PV.C14.splitKwonly_spec", "PV.C14.defaults_spec"]
    PARTIAL = _PARTIAL_IF_FIXED
READY = True
TECHNIQUE = ("Lean 4 theorems over a hand-written list-level model of the conversion functions + exhaustive small-scope "
             "and random correspondence with the real rustpython-ast crate, real code judged by an independent Python oracle")
LEVEL_TEXT = ("Machine-checked Lean 4 theorems for signatures of every size: the positional part of the round trip "
              "(positional-only, positional, trailing defaults, vararg, kwarg) is the identity and never underflows; the "
              "keyword-only part is proved correct exactly when every keyword-only parameter has a default, and the full "
              "statements are proved FALSE for the unchanged code with concrete witnesses (two listed known findings). "
              "The full statements are proved for the proposed repair. The model is tied to the Rust code on every run by "
              "exhaustive correspondence over all signature shapes with <= 3 parameters per kind (every default subset), "
              "hand-built Python-style lists, parsed signatures and random larger ones.")
LEVEL_NOTE = ("Trusted: Lean kernel, fidelity of the hand model as sampled by the correspondence (exhaustive to 3 per kind; "
              "the functions are length-generic list code), Rust std Vec/iterator semantics, harness and generator.")
RULE = ("request lines (operation x signature) sent to both the real rustpython-ast conversions and the Lean model; "
        "distinct = distinct request line; non-trivial = signature has at least one parameter")

KEY_SHIFT = "kwonly-defaults-shifted"
KEY_ORDER = "kwonly-not-ordered"


# ------------------------------------------------------------------ signature syntax

def _param(s):
    head, _, d = s.partition("=")
    n, _, a = head.partition(":")
    return (n, a or None, d or None)


def _plist(s):
    return [] if s == "-" else [_param(x) for x in s.split(",")]


def _popt(s):
    return None if s == "-" else _param(s)


def parse_sig(s):
    f = s.split(";")
    if len(f) != 5:
        raise ValueError("not a signature: " + s)
    return {"posonly": _plist(f[0]), "args": _plist(f[1]), "vararg": _popt(f[2]),
            "kwonly": _plist(f[3]), "kwarg": _popt(f[4])}


def parse_py(s):
    f = s.split(";")
    if len(f) != 7:
        raise ValueError("not a python-style list: " + s)
    nums = lambda x: [] if x == "-" else x.split(",")
    return {"posonly": _plist(f[0]), "args": _plist(f[1]), "defaults": nums(f[2]), "vararg": _popt(f[3]),
            "kwonly": _plist(f[4]), "kw_defaults": nums(f[5]), "kwarg": _popt(f[6])}


def _sp(p):
    n, a, d = p
    return n + (":" + a if a is not None else "") + ("=" + d if d is not None else "")


def _sl(l):
    return ",".join(_sp(p) for p in l) if l else "-"


def show_sig(a):
    return ";".join([_sl(a["posonly"]), _sl(a["args"]), _sp(a["vararg"]) if a["vararg"] else "-",
                     _sl(a["kwonly"]), _sp(a["kwarg"]) if a["kwarg"] else "-"])


def show_py(p):
    nl = lambda l: ",".join(l) if l else "-"
    return ";".join([_sl(p["posonly"]), _sl(p["args"]), nl(p["defaults"]), _sp(p["vararg"]) if p["vararg"] else "-",
                     _sl(p["kwonly"]), nl(p["kw_defaults"]), _sp(p["kwarg"]) if p["kwarg"] else "-"])


def _fields(out):
    return dict(kv.split("=", 1) for kv in out.split(" "))


def _bare(p):
    return (p[0], p[1], None)


# ------------------------------------------------------------------ the property, in Python

def _same_signature(a, b):
    """tags of the clauses of 'preserves the signature' that fail between a (original) and b"""
    tags = []
    if a["posonly"] != b["posonly"] or a["args"] != b["args"]:
        tags.append("positional")
    if a["vararg"] != b["vararg"]:
        tags.append("vararg")
    if a["kwarg"] != b["kwarg"]:
        tags.append("kwarg")
    if sorted(a["kwonly"], key=str) != sorted(b["kwonly"], key=str):
        tags.append("kwonly-roundtrip")
    return tags


def _attach_last(params, defaults):
    """Python: 'if there are fewer defaults, they correspond to the last n arguments'"""
    k = len(params) - len(defaults)
    return [(p[0], p[1], None if i < k else defaults[i - k]) for i, p in enumerate(params)]


def _denote(p):
    pos = _attach_last(p["posonly"] + p["args"], p["defaults"])
    n = len(p["posonly"])
    return {"posonly": pos[:n], "args": pos[n:], "vararg": p["vararg"],
            "kwonly": _attach_last(p["kwonly"], p["kw_defaults"]), "kwarg": p["kwarg"]}


def _in_domain(p):
    return len(p["defaults"]) <= len(p["posonly"]) + len(p["args"]) and len(p["kw_defaults"]) <= len(p["kwonly"])


def _judge_rt(req, out):
    ws = req.split()
    f = _fields(out)
    a = parse_sig(f["in"])
    fails = []
    if ws[1] == "b" and f["in"] != ws[2]:
        fails.append(f"[harness] built {f['in']} for request {ws[2]}")
    for route in ("to", "into", "from"):
        if f[route] == "none":
            fails.append(f"[panic] {route}: conversion panicked")
            continue
        for t in _same_signature(a, parse_sig(f[route])):
            fails.append(f"[{t}] {route}: {f['in']} came back as {f[route]}")
    return fails


def _judge_topy(req, out):
    ws = req.split()
    f = _fields(out)
    a = parse_sig(f["in"])
    fails = []
    if ws[1] == "b" and f["in"] != ws[2]:
        fails.append(f"[harness] built {f['in']} for request {ws[2]}")
    nodef = [_bare(p) for p in a["kwonly"] if p[2] is None]
    withdef = [_bare(p) for p in a["kwonly"] if p[2] is not None]
    srt = lambda l: sorted(l, key=str)
    for route in ("to", "into", "from"):
        if f[route] == "none":
            fails.append(f"[panic] {route}: conversion panicked")
            continue
        p = parse_py(f[route])
        if (p["posonly"] != [_bare(x) for x in a["posonly"]] or p["args"] != [_bare(x) for x in a["args"]]
                or p["defaults"] != [x[2] for x in a["posonly"] + a["args"] if x[2] is not None]):
            fails.append(f"[py-positional] {route}: {f['in']} -> {f[route]}")
        if p["vararg"] != a["vararg"]:
            fails.append(f"[py-vararg] {route}: {f['in']} -> {f[route]}")
        if p["kwarg"] != a["kwarg"]:
            fails.append(f"[py-kwarg] {route}: {f['in']} -> {f[route]}")
        n = len(nodef)
        if srt(p["kwonly"][:n]) != srt(nodef) or srt(p["kwonly"][n:]) != srt(withdef):
            fails.append(f"[kwonly-order] {route}: keyword-only parameters without defaults are not listed first: "
                         f"{f['in']} -> {f[route]}")
        if not _in_domain(p) or srt(_denote(p)["kwonly"]) != srt(a["kwonly"]):
            fails.append(f"[kwonly-denote] {route}: read the Python way, {f[route]} is not the signature {f['in']}")
    nd, _, wd = f["split"].partition("/")
    if srt(_plist(nd)) != srt(nodef) or srt(_plist(wd)) != srt([p for p in a["kwonly"] if p[2] is not None]):
        fails.append(f"[split] split_kwonlyargs({f['in']}) = {f['split']}")
    want = [x[2] for x in a["posonly"] + a["args"] if x[2] is not None]
    got = None if f.get("defs") in (None, "none") else ([] if f["defs"] == "-" else f["defs"].split(","))
    if got != want:
        fails.append(f"[defaults-iter] Arguments::defaults() of {f['in']} = {f.get('defs')}, expected the defaults of the "
                     f"positional-only then the positional parameters: {','.join(want) or '-'}")
    return fails


def _judge_intoargs(req, out):
    f = _fields(out)
    p = parse_py(f["in"])
    fails = []
    if f["in"] != req.split()[1]:
        fails.append(f"[harness] built {f['in']} for request {req.split()[1]}")
    if not _in_domain(p):
        # outside the property's quantifier: anything but losing a parameter silently is fine
        if f["back"] != "none":
            b = parse_sig(f["back"])
            for k in ("posonly", "args", "kwonly"):
                if [x[:2] for x in b[k]] != [x[:2] for x in p[k]]:
                    fails.append(f"[malformed-{k}] {f['in']} -> {f['back']}")
        return fails
    if f["back"] == "none":
        return [f"[panic] into_arguments({f['in']}) panicked"]
    exp = _denote(p)
    b = parse_sig(f["back"])
    for t in _same_signature(exp, b):
        t = "kwonly-attach" if t == "kwonly-roundtrip" else t
        fails.append(f"[{t}] into_arguments({f['in']}) = {f['back']}, Python reads it as {show_sig(exp)}")
    return fails


def oracle(req, out):
    """Judge the implementation's answer against the property, independently of the Lean model."""
    if out in ("(panic)", "(abort)", "(timeout)"):
        return "[crash] implementation " + out
    if out == "parse-error":
        return None          # the parser could not supply the value: nothing to observe (C01's business)
    if out == "bad-request":
        return "[harness] bad-request"
    op = req.split()[0]
    try:
        fails = {"rt": _judge_rt, "topy": _judge_topy, "intoargs": _judge_intoargs}[op](req, out)
    except (KeyError, ValueError, IndexError) as e:
        return f"[unparsable] {out[:120]} ({e!r})"
    return "; ".join(fails) if fails else None


# ------------------------------------------------------------------ known findings

def _tags(failure):
    return {part.split("]")[0][1:] for part in failure.split("; ") if part.startswith("[")}


def _defect_back(a):
    """What the recorded defect (kw_only.len() == 0 => no padding, zip truncates) makes of `a`."""
    ds = [p[2] for p in a["kwonly"] if p[2] is not None]
    b = dict(a)
    b["kwonly"] = [(p[0], p[1], d) for p, d in zip(a["kwonly"], ds)]
    return b


def classify(req, impl_out, model_out, failure):
    """Map a failure to a listed known finding only if the implementation's answer is exactly what that
    recorded defect produces on this input, and nothing else is wrong."""
    if not failure or impl_out is None or FIX_APPLIED:
        return None
    tags = _tags(failure)
    op = req.split()[0]
    try:
        f = _fields(impl_out)
        if op == "rt":
            if tags != {"kwonly-roundtrip"}:
                return None
            a = parse_sig(f["in"])
            if all(p[2] is not None for p in a["kwonly"]):
                return None
            exp = show_sig(_defect_back(a))
            return KEY_SHIFT if all(f[r] == exp for r in ("to", "into", "from")) else None
        if op == "intoargs":
            if tags != {"kwonly-attach"}:
                return None
            p = parse_py(f["in"])
            if len(p["kw_defaults"]) >= len(p["kwonly"]):
                return None
            exp = _denote(dict(p, kwonly=[], kw_defaults=[]))
            exp["kwonly"] = [(x[0], x[1], d) for x, d in zip(p["kwonly"], p["kw_defaults"])]
            return KEY_SHIFT if f["back"] == show_sig(exp) else None
        if op == "topy":
            if not tags or not tags <= {"kwonly-order", "kwonly-denote"}:
                return None
            a = parse_sig(f["in"])
            seen_default = False
            unordered = False
            for p in a["kwonly"]:
                if p[2] is not None:
                    seen_default = True
                elif seen_default:
                    unordered = True
            if not unordered:
                return None
            exp = {"posonly": [_bare(x) for x in a["posonly"]], "args": [_bare(x) for x in a["args"]],
                   "defaults": [x[2] for x in a["posonly"] + a["args"] if x[2] is not None], "vararg": a["vararg"],
                   "kwonly": [_bare(x) for x in a["kwonly"]],
                   "kw_defaults": [x[2] for x in a["kwonly"] if x[2] is not None], "kwarg": a["kwarg"]}
            exp = show_py(exp)
            return KEY_ORDER if all(f[r] == exp for r in ("to", "into", "from")) else None
    except (KeyError, ValueError, IndexError):
        return None
    return None


# ------------------------------------------------------------------ generators

def _mk(pn, an, nd, var, kwmask, kwn, kwarg, ann):
    """signature with pn positional-only, an positional (last nd of them with defaults), kwn keyword-only
    (bit i of kwmask = parameter i has a default); ann(i) -> annotation id or None for the i-th parameter"""
    i = 0
    out = {"posonly": [], "args": [], "vararg": None, "kwonly": [], "kwarg": None}

    def nxt(default):
        nonlocal i
        i += 1
        a = ann(i)
        return (str(i), None if a is None else str(a), str(100 + i) if default else None)
    tot = pn + an
    for k in range(pn):
        out["posonly"].append(nxt(k >= tot - nd))
    for k in range(an):
        out["args"].append(nxt(pn + k >= tot - nd))
    if var:
        out["vararg"] = nxt(False)
    for k in range(kwn):
        out["kwonly"].append(nxt(bool(kwmask >> k & 1)))
    if kwarg:
        out["kwarg"] = nxt(False)
    return out


ANN = {
    "none": lambda i: None,
    "all": lambda i: 200 + i,
    "odd": lambda i: 200 + i if i % 2 else None,
}


def shapes(maxn, anns=("none", "all", "odd")):
    for pn in range(maxn + 1):
        for an in range(maxn + 1):
            for nd in range(pn + an + 1):
                for kwn in range(maxn + 1):
                    for kwmask in range(1 << kwn):
                        for var in (0, 1):
                            for kwarg in (0, 1):
                                for a in anns:
                                    if a != "none" and pn + an + kwn + var + kwarg == 0:
                                        continue
                                    yield _mk(pn, an, nd, var, kwmask, kwn, kwarg, ANN[a])


def to_py_form(a):
    """the documented Python-style list of a signature (keyword-only without defaults first)"""
    kw = [p for p in a["kwonly"] if p[2] is None] + [p for p in a["kwonly"] if p[2] is not None]
    return {"posonly": [_bare(p) for p in a["posonly"]], "args": [_bare(p) for p in a["args"]],
            "defaults": [p[2] for p in a["posonly"] + a["args"] if p[2] is not None], "vararg": a["vararg"],
            "kwonly": [_bare(p) for p in kw], "kw_defaults": [p[2] for p in kw if p[2] is not None],
            "kwarg": a["kwarg"]}


def py_shapes(maxn):
    """hand-built Python-style lists inside the quantifier (defaults <= parameters on both sides)"""
    for a in shapes(maxn, anns=("odd",)):
        if any(p[2] is not None and q[2] is None for p, q in zip(a["kwonly"], a["kwonly"][1:])):
            continue        # one representative per number of kw defaults
        yield to_py_form(a)


def _random_sig(rng, maxn):
    pn, an, kwn = rng.randrange(maxn + 1), rng.randrange(maxn + 1), rng.randrange(maxn + 1)
    nd = rng.randrange(pn + an + 1)
    ids = rng.sample(range(1, 10 ** 6), pn + an + kwn + 2)
    it = iter(ids)
    tot = pn + an

    def p(default):
        return (str(next(it)), str(rng.randrange(10 ** 6)) if rng.random() < 0.4 else None,
                str(rng.randrange(10 ** 9)) if default else None)
    a = {"posonly": [p(k >= tot - nd) for k in range(pn)],
         "args": [p(pn + k >= tot - nd) for k in range(an)],
         "vararg": p(False) if rng.random() < 0.5 else None}
    mode = rng.randrange(4)     # all defaults / none / ordered / arbitrary
    a["kwonly"] = []
    cut = rng.randrange(kwn + 1)
    for k in range(kwn):
        d = {0: True, 1: False, 2: k >= cut, 3: rng.random() < 0.5}[mode]
        a["kwonly"].append(p(d))
    a["kwarg"] = p(False) if rng.random() < 0.5 else None
    return a


def _parsed_oracle(ctx):
    """oracle of the parser-fed streams; counts the requests the parser could not supply (not judged)"""
    ctx.extra.setdefault("parse_errors_not_judged", 0)

    def f(req, out):
        if out == "parse-error":
            ctx.extra["parse_errors_not_judged"] += 1
        return oracle(req, out)
    return f


def _nonempty(req):
    return any(c.isdigit() for c in req.split()[-1])


def streams(ctx):
    out = []
    # 1. corpus: the recorded defects (one deterministic probe each, both ways of obtaining the value),
    #    boundary shapes
    corpus = [
        "rt b -;-;-;1,2=7;-",                   # def f(*, a, b=1)   -> kwonly-defaults-shifted
        "rt p -;-;-;1,2=7;-",
        "intoargs -;-;-;-;1,2;7;-",             # Python-style (*, a, b=1)
        "topy b -;-;-;1=7,2;-",                 # def f(*, a=1, b)   -> kwonly-not-ordered
        "topy p -;-;-;1=7,2;-",
        "rt b -;-;-;1=7,2;-",
        "rt b -;-;-;1;-",                       # def f(*, a)
        "rt b -;-;-;-;-", "topy b -;-;-;-;-", "intoargs -;-;-;-;-;-;-",
        "rt b 1:2=3,4=5;6=8;9;10=11,12:3=13;14:4", "rt p 1:2=3,4=5;6=8;9;10=11,12:3=13;14:4",
        "topy b 1:2=3,4=5;6=8;9;10=11,12:3=13;14:4",
        "rt b 1,2=3;4=5;-;-;-", "rt b 1,2;3=5;-;-;-", "rt b 1=2;-;-;-;-", "rt b -;1=2;-;-;-",
        "rt b 1,2,3;4,5,6=7;-;-;-", "rt b 1,2,3=9;4=8,5=6,6=7;-;-;-",
        "intoargs 1,2;3;9;-;-;-;-", "intoargs 1,2;3;8,9;-;-;-;-", "intoargs 1,2;3;7,8,9;-;-;-;-",
        "intoargs -;-;-;-;1,2;7,8;-", "intoargs -;-;-;5;1:3,2;7,8;6",
    ]
    out.append(Stream("corpus", corpus, kind="corpus", nontrivial=_nonempty,
                      note="recorded defects and boundary shapes"))

    n = 3 if ctx.quick else 4
    sigs = [show_sig(a) for a in shapes(n, anns=("none", "all", "odd") if ctx.quick else ("none", "odd"))]
    out.append(Stream(f"roundtrip-exhaustive<={n}-per-kind", [f"rt b {s}" for s in sigs], kind="exhaustive",
                      exhaustive=True, nontrivial=_nonempty,
                      note="every shape: 0..n positional-only x 0..n positional x every trailing-default count x "
                           "vararg x every default subset of 0..n keyword-only x kwarg x annotation pattern; "
                           "structs built directly; to_python_arguments, into_python_arguments, From"))
    out.append(Stream(f"topython-exhaustive<={n}-per-kind", [f"topy b {s}" for s in sigs], kind="exhaustive",
                      exhaustive=True, nontrivial=_nonempty,
                      note="same shapes; the Python-style list itself (order of keyword-only parameters, defaults, "
                           "split_kwonlyargs)"))
    pys = [show_py(p) for p in py_shapes(n)]
    out.append(Stream(f"intoargs-exhaustive<={n}-per-kind", [f"intoargs {s}" for s in pys], kind="exhaustive",
                      exhaustive=True, nontrivial=_nonempty,
                      note="hand-built Python-style lists with every admissible number of defaults / kw_defaults"))

    # 4. parsed signatures: the value comes from rustpython_parser; judged by the oracle only (relative to
    #    the Arguments value the parser delivered), so a parser problem cannot raise a C14 alarm
    m = 2 if ctx.quick else 3
    psigs = [show_sig(a) for a in shapes(m, anns=("odd",))]
    out.append(Stream(f"parsed-signatures<={m}-per-kind",
                      [f"{op} p {s}" for s in psigs for op in ("rt", "topy")], kind="exhaustive", exhaustive=True,
                      compare=False, nontrivial=_nonempty, oracle=_parsed_oracle(ctx),
                      note="def f(<sig>): pass parsed by rustpython_parser, conversions run on the parsed Arguments"))

    # 5. random larger signatures
    rng = ctx.rng("random")
    cnt = 3000 if ctx.quick else 60000
    reqs = []
    for _ in range(cnt):
        a = _random_sig(rng, rng.choice([4, 6, 9, 14]))
        s = show_sig(a)
        reqs.append(f"rt b {s}")
        reqs.append(f"topy b {s}")
        p = to_py_form(a)
        reqs.append(f"intoargs {show_py(p)}")
    out.append(Stream("random-larger", reqs, kind="random", nontrivial=_nonempty,
                      note="up to 14 parameters per kind, random ids / annotations; keyword-only defaults: all, none, "
                           "ordered, arbitrary"))
    rng = ctx.rng("random-parsed")
    reqs = []
    for _ in range(300 if ctx.quick else 5000):
        s = show_sig(_random_sig(rng, rng.choice([3, 6, 10])))
        reqs.append(f"rt p {s}")
        reqs.append(f"topy p {s}")
    out.append(Stream("random-parsed", reqs, kind="random", compare=False, nontrivial=_nonempty,
                      oracle=_parsed_oracle(ctx)))

    # 6. malformed Python-style lists (more defaults than parameters): outside the quantifier; the only
    #    demand is that no parameter is silently lost and the process survives
    reqs = []
    for pn, an in itertools.product(range(3), repeat=2):
        for extra in (1, 2):
            ds = ",".join(str(100 + k) for k in range(pn + an + extra))
            po = ",".join(str(1 + k) for k in range(pn)) or "-"
            ar = ",".join(str(10 + k) for k in range(an)) or "-"
            reqs.append(f"intoargs {po};{ar};{ds};-;-;-;-")
    for kwn in range(3):
        kd = ",".join(str(100 + k) for k in range(kwn + 1))
        kw = ",".join(str(1 + k) for k in range(kwn)) or "-"
        reqs.append(f"intoargs -;-;-;-;{kw};{kd};-")
    out.append(Stream("malformed-python-lists", reqs, kind="malformed", compare=False,
                      note="defaults.len() > parameters: into_arguments may panic (caught) or keep every parameter"))
    return out


def search(ctx, disagreements, bins):
    """Model and code disagree although the streams' oracle is content: evaluate the property itself on the
    real code over a deeper exhaustive scope and around the disagreeing inputs."""
    hbin = bins.get((HARNESS["bin"], HARNESS["features"]))
    if not hbin:
        return None
    reqs = [e["request"] for e in disagreements]
    for e in disagreements:
        ws = e["request"].split()
        if ws[0] in ("rt", "topy"):
            reqs += [f"rt b {ws[2]}", f"topy b {ws[2]}", f"rt p {ws[2]}"]
            try:
                reqs.append(f"intoargs {show_py(to_py_form(parse_sig(ws[2])))}")
            except ValueError:
                pass
    for a in shapes(4, anns=("odd",)):
        s = show_sig(a)
        reqs += [f"rt b {s}", f"topy b {s}", f"intoargs {show_py(to_py_form(a))}"]
    outs = core.run_lines([hbin], reqs, jobs=8)
    for r, o in zip(reqs, outs):
        fail = oracle(r, o)
        if fail and not classify(r, o, None, fail):
            return {"stream": "violation-search", "request": r, "impl": o, "failure": fail,
                    "theorem_or_stream_broken": "correspondence"}
    return None
