"""C12 — Fold and Visitor traverse the whole tree faithfully; constant-tuple optimiser."""
import collections
import os
import re

import core
from core import Stream, hexs, unhex

import c12_translate as T
import c12_programs as P

ID = "C12"
DESIGN_REF = "DESIGN.md section 5, C12"
LEAN_TARGETS = ["PV.C12.Thm", "PV.Gen.C12Witness"]
DRIVER = "drv_c12"
HARNESS = {"bin": "pvh_c12", "features": "default"}
BASE_THEOREMS = [
    "PV.C12.fold_identity",
    "PV.C12.fold_callbacks_once",
    "PV.C12.visit_complete_upto",
    "PV.C12.visit_complete",
    "PV.C12.foldWF_gen",
    "PV.C12.fold_identity_gen",
    "PV.C12.fold_callbacks_once_gen",
    "PV.C12.visitWF_gen_value",
    "PV.C12.visitWFExcept_gen",
    "PV.C12.visit_complete_gen",
    "PV.C12.visit_complete_partial",
    # generated into PV/Gen/C12Witness.lean only while the regenerated obligation VisitWF is true; if a visit body is
    # emptied again the translator emits witnesses + visit_complete_fails instead and this obligation is broken
    "PV.C12.Gen.visit_complete_holds",
    "PV.C12.opt_idempotent",
    "PV.C12.opt_spec",
]
THEOREMS = list(BASE_THEOREMS)      # pre_build appends regenerated witness theorems (only when VisitWF is false)
TRUSTED = [
    "Lean 4.33.0 kernel; axioms limited to propext, Classical.choice, Quot.sound",
    "tools/c12_translate.py (strict scanner of ast/src/gen/{generic,fold,visitor}.rs and ast/src/fold.rs; regenerates "
    "lean/PV/Gen/C12*.lean on every run; stops on any unrecognised shape) — cross-checked on every run by the recorded "
    "call sequences of the real Fold/Visitor against the generic interpreters over the regenerated programs",
    "the generic interpreters lean/PV/C12/Model.lean (foldWith / visitWith) as the meaning of the regenerated programs; "
    "Rust's type checker for what the translator does not record (a fold dispatcher arm rebuilding another variant, "
    "a visit call on a field of another type cannot compile)",
    "hand-written model Opt.constTuple of ast/src/optimizer.rs, tied by the `opt` correspondence stream",
    "harness/src/bin/pvh_c12.rs (recording Folder/Visitor, scanner of the derived Debug text), lean/Drv/C12.lean, "
    "tools/props/c12.py + tools/c12_programs.py (Debug-text parser, program generator, Python oracle)",
    "derive(Debug)/derive(PartialEq) of the AST types; rustpython_parser::parse as the source of trees "
    "('trees produced from valid programs')",
]
PARTIAL = [
    "none for the statement itself: fold_identity_gen / fold_callbacks_once_gen, Gen.visit_complete_holds "
    "(visit_complete_full) and opt_spec / opt_idempotent are the full property on the models",
    "scope of the tie, not of the theorems: correspondence runs on Module / Expression / Interactive roots "
    "(FunctionType roots and TypeIgnore nodes cannot be produced by the parser); feature all-nodes-with-ranges is covered "
    "by the theorems through rangeMode 2 and, in the thorough tier, by the `allranges-*` streams",
]
READY = True
TECHNIQUE = ("Lean 4 schema-generic theorems by induction over a generic tree + `decide` on fold/visit programs regenerated "
             "from the Rust sources on every run + recorded-call-sequence correspondence with the real Fold/Visitor")
LEVEL_TEXT = ("Machine-checked Lean 4 theorems for trees of every size and shape: for ANY fold program satisfying a decidable "
              "well-formedness predicate, folding with a range-preserving folder returns the input tree and the range "
              "callbacks are a permutation of the ranges of the range-carrying nodes; for ANY visitor program satisfying its "
              "predicate the default Visitor reaches exactly the stmt/expr/pattern/excepthandler nodes of the tree, each once. "
              "The fold and visit programs of all 80 node kinds are regenerated from ast/src/gen/*.rs on every run and shown "
              "well-formed by kernel `decide`, which yields the property for the real node kinds (fold_identity_gen, "
              "fold_callbacks_once_gen, Gen.visit_complete_holds). The constant-tuple optimiser model is proved equal to the "
              "reference transformation on every tree and idempotent. The translator and the hand model are tied to the code "
              "by running the real recording Folder/Visitor/optimiser and the Lean interpreters on the same parsed programs "
              "and diffing call sequences and dumps; an independent Python oracle judges the real code.")
LEVEL_NOTE = ("Trusted: Lean kernel, the translator (checked by call-sequence correspondence on every run), the generic "
              "interpreter as the reading of the generated Rust, rustc's type checker for mismatched-type edits, the harness, "
              "the Debug-text parser and the generator.")
RULE = ("request lines (operation x parsed program, tree attached) sent to both the real crate and the Lean interpreters; "
        "distinct = distinct request line; non-trivial = program has at least one statement")

FINDING_KEY = {
    "Arguments": "visitor-skips-arguments",
    "Arg": "visitor-skips-arg",
    "Keyword": "visitor-skips-keyword",
    "Alias": "visitor-skips-alias",
    "WithItem": "visitor-skips-withitem",
    "MatchCase": "visitor-skips-match_case",
    "Comprehension": "visitor-skips-comprehension",
}
OPT_KEY = "optimizer-folds-store-tuple"

_state = {}


def _res():
    """translator output; if fold.rs/visitor.rs are not recognised the oracle still works from the node definitions"""
    if "res" not in _state:
        try:
            _state["res"] = T.translate()
        except T.TranslateError:
            _state["res"] = T.translate_schema_only()
    return _state["res"]


# ------------------------------------------------------------------ pre_build

def pre_build(ctx):
    _state.pop("res", None)
    res = T.translate()            # raises TranslateError on any unrecognised shape
    _state["res"] = res
    changed = T.emit(res)
    THEOREMS[:] = BASE_THEOREMS + [t for t in res.witness_theorems if t not in BASE_THEOREMS]
    sc = res.schema
    out = [("translate ast/src/gen/{generic,fold,visitor}.rs -> lean/PV/Gen/C12*.lean", True,
            f"{len(sc.kinds)} node kinds, {len(sc.sums)} sum types, orphans {sc.orphans}; rewritten: {changed or 'nothing'}")]
    known = core.load_known()
    unexplained = [k for k in res.visit_skip if (ID, FINDING_KEY.get(k, "?")) not in known]
    ok = not res.visit_problems and not unexplained
    detail = ("VisitWF is true" if not res.visit_skip and not res.visit_problems else
              f"VisitWF is false; empty visit bodies: {res.visit_skip} (listed known findings: "
              f"{[k for k in res.visit_skip if k not in unexplained]}); other defects: {res.visit_problems}")
    out.append(("regenerated obligation VisitWF Gen.visitProg Gen.schema",
                ok, detail))
    ctx.extra["translator"] = {"kinds": len(sc.kinds), "visit_skip": res.visit_skip, "visit_problems": res.visit_problems}
    return out


# ------------------------------------------------------------------ Debug text -> generic tree -> request words

class DebugError(Exception):
    pass


def parse_debug(s):
    """generic parse of Rust `{:?}` output. Returns nested nodes:
       ('struct', name, [(field, node)], a, b) | ('call', name, [node], a, b) | ('list', [node], a, b) | ('atom', a, b)"""
    n = len(s)

    def skip_str(i):
        i += 1
        while s[i] != '"':
            if s[i] == "\\":
                i += 1
            i += 1
        return i + 1

    def value(i):
        c = s[i]
        if c == '"':
            j = skip_str(i)
            return ("atom", i, j), j
        if c == "[":
            items = []
            j = i + 1
            if s[j] == "]":
                return ("list", items, i, j + 1), j + 1
            while True:
                v, j = value(j)
                items.append(v)
                if s.startswith(", ", j):
                    j += 2
                elif s[j] == "]":
                    return ("list", items, i, j + 1), j + 1
                else:
                    raise DebugError(f"list at {j}: {s[j:j + 30]!r}")
        if c == "(":
            if s[i + 1] == ")":
                return ("atom", i, i + 2), i + 2
            raise DebugError(f"tuple at {i}")
        m = re.compile(r"[A-Za-z_][A-Za-z0-9_]*").match(s, i)
        if m:
            name = m.group(0)
            j = m.end()
            if s.startswith(" { ", j):
                j += 3
                fields = []
                while True:
                    fm = re.compile(r"([a-z_][a-z0-9_]*): ").match(s, j)
                    if not fm:
                        raise DebugError(f"field at {j}: {s[j:j + 30]!r}")
                    v, j = value(fm.end())
                    fields.append((fm.group(1), v))
                    if s.startswith(", ", j):
                        j += 2
                    elif s.startswith(" }", j):
                        return ("struct", name, fields, i, j + 2), j + 2
                    else:
                        raise DebugError(f"struct at {j}: {s[j:j + 30]!r}")
            if j < n and s[j] == "(":
                args = []
                j += 1
                if s[j] == ")":
                    return ("call", name, args, i, j + 1), j + 1
                while True:
                    v, j = value(j)
                    args.append(v)
                    if s.startswith(", ", j):
                        j += 2
                    elif s[j] == ")":
                        return ("call", name, args, i, j + 1), j + 1
                    else:
                        raise DebugError(f"call at {j}: {s[j:j + 30]!r}")
        # bare atom: number, range, bool, identifier, -inf …
        j = i
        while j < n and s[j] not in ",)]} ":
            j += 1
        if j == i:
            raise DebugError(f"value at {i}: {s[i:i + 30]!r}")
        return ("atom", i, j), j

    v, j = value(0)
    if j != n:
        raise DebugError(f"trailing text at {j}")
    return v


def span(v):
    return (v[-2], v[-1])


def encode_tree(res, s, v, t):
    """type-directed conversion of a parsed Debug value `v` (of source text `s`) of Rust type `t` into request words"""
    sc = res.schema
    tag, x = t
    if tag == "leaf":
        a, b = span(v)
        return ["A", hexs(s[a:b])]
    if tag == "box":
        return encode_tree(res, s, v, x)
    if tag == "opt":
        a, b = span(v)
        if v[0] == "atom" and s[a:b] == "None":
            return ["O"]
        if v[0] == "call" and v[1] == "Some" and len(v[2]) == 1:
            return ["S"] + encode_tree(res, s, v[2][0], x)
        raise DebugError(f"option value {s[a:b][:40]!r}")
    if tag == "vec":
        if v[0] != "list":
            raise DebugError("expected a list")
        out = ["L", str(len(v[1]))]
        for e in v[1]:
            out += encode_tree(res, s, e, x)
        return out
    # node
    if x in sc.sum_variants:
        if v[0] != "call" or len(v[2]) != 1 or v[2][0][0] != "struct":
            raise DebugError(f"expected {x}::Variant(..)")
        st = v[2][0]
        if st[1] != x + v[1] or sc.parent.get(st[1]) != x:
            raise DebugError(f"variant {v[1]} of {x} wraps {st[1]}")
        return encode_struct(res, s, st)
    if v[0] != "struct" or v[1] != x:
        raise DebugError(f"expected struct {x}")
    return encode_struct(res, s, v)


def encode_struct(res, s, v):
    sc = res.schema
    name = v[1]
    if name not in sc.kind_id:
        raise DebugError(f"unknown struct {name}")
    fields = v[2]
    decl = sc.structs[name]["fields"]
    if not fields or fields[0][0] != "range" or [f for f, _ in fields[1:]] != [f for f, _ in decl]:
        raise DebugError(f"fields of {name}: {[f for f, _ in fields]}")
    a, b = span(fields[0][1])
    r = s[a:b]
    if r == "()":
        r = "-"
    elif not re.fullmatch(r"\d+\.\.\d+", r):
        raise DebugError(f"range {r!r}")
    out = ["N", str(sc.kind_id[name]), r, str(len(decl))]
    for (fn, fv), (_, ft) in zip(fields[1:], decl):
        out += encode_tree(res, s, fv, ft)
    return out


def debug_to_words(res, dbg):
    v = parse_debug(dbg)
    return encode_tree(res, dbg, v, ("node", "Mod"))


# ------------------------------------------------------------------ request words -> Python tree; reference computations

def decode_words(ws):
    """-> nested: ('N', kind, range|None, [children]) | ('L', [..]) | ('S', t) | ('O',) | ('A', bytes)"""
    pos = [0]

    def tree():
        w = ws[pos[0]]
        pos[0] += 1
        if w == "O":
            return ("O",)
        if w == "S":
            return ("S", tree())
        if w == "A":
            h = ws[pos[0]]
            pos[0] += 1
            return ("A", unhex(h))
        if w == "L":
            n = int(ws[pos[0]])
            pos[0] += 1
            return ("L", [tree() for _ in range(n)])
        if w == "N":
            k = int(ws[pos[0]])
            r = ws[pos[0] + 1]
            n = int(ws[pos[0] + 2])
            pos[0] += 3
            return ("N", k, None if r == "-" else r, [tree() for _ in range(n)])
        raise ValueError(w)
    t = tree()
    if pos[0] != len(ws):
        raise ValueError("trailing words")
    return t


def req_tree(req):
    """decoded tree of a request (small cache keyed by the tree text itself: the same source has different trees
    in different parse modes / feature builds)"""
    skip = 3 if req.startswith("visit") else 2
    pos = 0
    for _ in range(skip):
        pos = req.index(" ", pos) + 1
    key = req[pos:]
    c = _state.setdefault("tree_cache", {})
    if key not in c:
        if len(c) > 32:
            c.clear()
        c[key] = decode_words(key.split(" "))
    return c[key]


def is_interesting(res, kind_name):
    return res.schema.parent.get(kind_name) in T.INTERESTING_SUMS


def walk_nodes(res, t, anc=()):
    """pre-order (kind name, range, ancestors kind names) of every node"""
    tag = t[0]
    if tag == "N":
        name = res.schema.kinds[t[1]]
        yield (name, t[2], anc)
        for c in t[3]:
            yield from walk_nodes(res, c, anc + (name,))
    elif tag == "L":
        for c in t[1]:
            yield from walk_nodes(res, c, anc)
    elif tag == "S":
        yield from walk_nodes(res, t[1], anc)


def module_body(res, t):
    names = [f for f, _ in res.schema.structs[res.schema.kinds[t[1]]]["fields"]]
    return t[3][names.index("body")]


def dump(res, t):
    """Rust `{:?}` text of a tree"""
    tag = t[0]
    if tag == "A":
        return t[1].decode("utf-8")
    if tag == "O":
        return "None"
    if tag == "S":
        return "Some(" + dump(res, t[1]) + ")"
    if tag == "L":
        return "[" + ", ".join(dump(res, c) for c in t[1]) + "]"
    sc = res.schema
    name = sc.kinds[t[1]]
    parts = ["range: " + (t[2] if t[2] else "()")]
    for (fn, _), c in zip(sc.structs[name]["fields"], t[3]):
        parts.append(f"{fn}: {dump(res, c)}")
    body = name + " { " + ", ".join(parts) + " }"
    v = sc.variant_name.get(name)
    return f"{v}({body})" if v else body


def opt_ref(res, t, load_only=True):
    """the property's transformation: load-context tuples whose elements are all constants become the tuple constant"""
    tag = t[0]
    if tag == "S":
        return ("S", opt_ref(res, t[1], load_only))
    if tag == "L":
        return ("L", [opt_ref(res, c, load_only) for c in t[1]])
    if tag != "N":
        return t
    sc = res.schema
    kt, kc = sc.kind_id["ExprTuple"], sc.kind_id["ExprConstant"]
    fs = [opt_ref(res, c, load_only) for c in t[3]]
    if t[1] == kt:
        elts, ctx = fs
        if (not load_only or ctx == ("A", b"Load")) and all(e[0] == "N" and e[1] == kc for e in elts[1]):
            vals = ", ".join(e[3][0][1].decode("utf-8") for e in elts[1])
            return ("N", kc, t[2], [("A", ("Tuple([" + vals + "])").encode()), ("O",)])
    return ("N", t[1], t[2], fs)


# ------------------------------------------------------------------ oracle

def _ev(out, prefix):
    m = re.match(re.escape(prefix) + r"(\S*)$", out)
    if not m:
        return None
    return [x for x in m.group(1).split(",") if x]


def visit_analysis(res, req, out):
    """-> (missed [(kind, range, ancestors)], extra [str]) for a `visit` answer"""
    t = req_tree(req)
    expect = [(k, r, anc) for k, r, anc in walk_nodes(res, module_body(res, t)) if is_interesting(res, k)]
    evs = _ev(out, "ev=")
    if evs is None:
        return None, None
    seen = collections.Counter(e for e in evs if is_interesting(res, e.split("@")[0]))
    missed = []
    for k, r, anc in expect:
        key = f"{k}@{r or '-'}"
        if seen[key] > 0:
            seen[key] -= 1
        else:
            missed.append((k, r, anc))
    extra = [k for k, c in seen.items() for _ in range(c)]
    return missed, extra


def oracle(req, out):
    res = _res()
    op = req.split(" ", 1)[0].split(":")[0]
    if out in ("(panic)", "(abort)", "(timeout)", "noparse", "bad-request"):
        return "implementation answered " + out
    t = req_tree(req)
    if op == "fold":
        m = re.match(r"eq=(true|false) ev=(\S*)$", out)
        if not m:
            return "unparsable answer"
        if m.group(1) != "true":
            return "tree folded with the range-preserving folder differs from the input"
        evs = [x for x in m.group(2).split(",") if x]
        want = collections.Counter(r for _, r, _ in walk_nodes(res, t) if r)
        got_m = collections.Counter(e[2:] for e in evs if e.startswith("M:"))
        got_w = collections.Counter(e[2:] for e in evs if e.startswith("W:"))
        if got_m != want:
            d = (want - got_m) + (got_m - want)
            return f"map_user calls are not exactly the ranges of the range-carrying nodes (differences: {dict(d)})"
        if got_w != want:
            return "will_map_user calls are not exactly the ranges of the range-carrying nodes"
        return None
    if op == "visit":
        missed, extra = visit_analysis(res, req, out)
        if missed is None:
            return "unparsable answer"
        if missed or extra:
            ms = [f"{k}@{r} below {'/'.join(a for a in anc if a in FINDING_KEY) or '-'}" for k, r, anc in missed[:6]]
            return f"default Visitor: {len(missed)} node(s) never reached {ms}; {len(extra)} reached too often {extra[:6]}"
        return None
    if op == "vhook":
        want = collections.Counter(res.schema.parent.get(k) for k, _, _ in walk_nodes(res, module_body(res, t)) if is_interesting(res, k))
        m = re.match(r"hooks=Stmt:(\d+),Expr:(\d+),Pattern:(\d+),ExceptHandler:(\d+)$", out)
        if not m:
            return "unparsable answer"
        got = dict(zip(("Stmt", "Expr", "Pattern", "ExceptHandler"), map(int, m.groups())))
        bad = {c: (got[c], want.get(c, 0)) for c in got if got[c] != want.get(c, 0)}
        if bad:
            return "dispatcher hooks of the default Visitor (visit_stmt / visit_expr / visit_pattern / visit_excepthandler) are not called once per node: " \
                   + ", ".join(f"{c}: {g} calls for {w} nodes" for c, (g, w) in bad.items())
        return None
    if op == "walk":
        want = [f"{k}@{r or '-'}" for k, r, _ in walk_nodes(res, module_body(res, t)) if is_interesting(res, k)]
        if _ev(out, "ev=") != want:
            return "canonical walk over the Debug text differs from the walk over the request tree (check tooling)"
        return None
    if op == "ranges":
        want = [r for _, r, _ in walk_nodes(res, t) if r]
        if _ev(out, "ranges=") != want:
            return "ranges in the Debug text differ from the request tree (check tooling)"
        return None
    if op == "opt":
        m = re.match(r"idem=(true|false) once=(.*)$", out)
        if not m:
            return "unparsable answer"
        if m.group(1) != "true":
            return "optimiser is not idempotent"
        want = dump(res, opt_ref(res, t))
        if m.group(2) != want:
            return "optimised tree differs from 'load-context all-constant tuples replaced by the tuple constant, nothing else'"
        return None
    return None


def classify(req, impl_out, model_out, failure):
    """map a failing request to a listed known finding — only if the failure is fully of that shape"""
    if not failure or impl_out is None:
        return None
    res = _res()
    op = req.split(" ", 1)[0].split(":")[0]
    if model_out is not None and model_out != impl_out:
        return None                      # the model mirrors the code as it is; a disagreement is never "known"
    if op == "visit":
        missed, extra = visit_analysis(res, req, impl_out)
        if not missed or extra:
            return None
        known = core.load_known()
        keys = []
        for k, r, anc in missed:
            stop = [a for a in anc if a in FINDING_KEY]       # outermost non-descending ancestor first
            if not stop:
                return None              # a missed node not under one of the product kinds: a different defect
            key = FINDING_KEY[stop[0]]
            if (ID, key) not in known:
                return None
            keys.append(key)
        return _multi(keys, req)
    if op == "opt":
        m = re.match(r"idem=(true|false) once=(.*)$", impl_out)
        if not m or m.group(1) != "true":
            return None
        t = req_tree(req)
        if m.group(2) == dump(res, opt_ref(res, t, load_only=False)) and m.group(2) != dump(res, opt_ref(res, t)):
            return OPT_KEY
    return None


def _multi(keys, req):
    """several findings in one program: report them round-robin so that every key shows up over a run"""
    ks = sorted(set(keys))
    seen = _state.setdefault("multi_seen", collections.Counter())
    k = min(ks, key=lambda x: (seen[x], x))
    seen[k] += 1
    return k


# ------------------------------------------------------------------ streams

def _dbg_all(hbin, sources, jobs, mode=""):
    reqs = [f"dbg{mode} {hexs(s)}" for s in sources]
    return core.run_lines([hbin], reqs, jobs=jobs, timeout=900)


def _coverage(res, trees):
    """per kind: seen; per optional field: present/absent; per list field: lengths 0/1/many"""
    sc = res.schema
    seen = collections.Counter()
    opt = collections.defaultdict(set)
    lst = collections.defaultdict(set)

    def rec(t):
        if t[0] == "N":
            name = sc.kinds[t[1]]
            seen[name] += 1
            for (fn, ft), c in zip(sc.structs[name]["fields"], t[3]):
                st = T.strip_box(ft)
                if st[0] == "opt":
                    opt[f"{name}.{fn}"].add(c[0] == "S")
                if st[0] == "vec":
                    lst[f"{name}.{fn}"].add(min(len(c[1]), 2))
                rec(c)
        elif t[0] == "L":
            for c in t[1]:
                rec(c)
        elif t[0] == "S":
            rec(t[1])
    for t in trees:
        rec(t)
    all_opt = [f"{k}.{fn}" for k in sc.kinds for fn, ft in sc.structs[k]["fields"] if T.strip_box(ft)[0] == "opt"]
    all_lst = [f"{k}.{fn}" for k in sc.kinds for fn, ft in sc.structs[k]["fields"] if T.strip_box(ft)[0] == "vec"]
    return {
        "kinds_seen": len(seen), "kinds_total": len(sc.kinds),
        "kinds_never_seen": [k for k in sc.kinds if k not in seen],
        "optional_fields_not_both_ways": [f for f in all_opt if opt[f] != {True, False}],
        "list_fields_missing_a_length_class": {f: sorted({0, 1, 2} - lst[f]) for f in all_lst if lst[f] != {0, 1, 2}},
    }


def _nontrivial(r):
    ws = r.split(" ", 10)
    if ws[0].startswith("visit"):
        ws = ws[:2] + ws[3:]
    return not (len(ws) > 7 and ws[6] == "L" and ws[7] == "0")


def _build(ctx):
    """build the harness (needed to obtain the trees), parse every program, build the streams"""
    res = _res()
    rc, out, hbin = core.cargo_build(HARNESS["bin"], HARNESS["features"])
    if rc != 0:
        raise RuntimeError("cargo build of pvh_c12 failed: " + out[-600:])
    jobs = 4 if ctx.quick else 16
    groups = P.program_groups(ctx)
    streams = []
    all_trees = []
    dropped = {}
    bins = {"default": hbin}
    vkinds = core.run_lines([hbin], ["vkinds -"])[0]
    if not re.fullmatch(r"[A-Za-z,]+", vkinds):
        raise RuntimeError("harness did not list its visit kinds: " + vkinds[:100])
    for g in groups:
        srcs = list(dict.fromkeys(g["sources"]))
        mode = g.get("mode", "")
        fs = g.get("features", "default")
        if fs not in bins:
            rc, out, b = core.cargo_build(HARNESS["bin"], fs)
            if rc != 0:
                raise RuntimeError(f"cargo build of pvh_c12 [{fs}] failed: " + out[-600:])
            bins[fs] = b
        dbgs = _dbg_all(bins[fs], srcs, jobs, mode)
        reqs_by_op = {op: [] for op in g["ops"]}
        nd = 0
        for s, d in zip(srcs, dbgs):
            if d in ("noparse", "(panic)", "(abort)", "(timeout)") or not re.match(r"(Module|Expression|Interactive)\(", d):
                nd += 1
                if g.get("must_parse"):
                    dropped.setdefault(g["name"], []).append(s[:80])
                continue
            try:
                words = debug_to_words(res, d)
            except (DebugError, IndexError) as e:
                raise RuntimeError(f"Debug text of {s[:60]!r} not understood: {e}")
            if g.get("coverage", True):
                all_trees.append(decode_words(words))
            tree = " ".join(words)
            for op in g["ops"]:
                extra = vkinds + " " if op == "visit" else ""
                reqs_by_op[op].append(f"{op}{mode} {hexs(s)} {extra}{tree}")
        for op in g["ops"]:
            streams.append(Stream(f"{g['name']}-{op}", reqs_by_op[op], kind=g["kind"], exhaustive=False,
                                  note=g.get("note", "") + (f" ({nd} sources not accepted by the parser were dropped)" if nd else ""),
                                  harness=None if fs == "default" else {"bin": HARNESS["bin"], "features": fs},
                                  nontrivial=_nontrivial, compare=(op != "vhook")))
    cov = _coverage(res, all_trees)
    ctx.extra["input_coverage"] = cov
    if dropped:
        ctx.notes.append(f"directed programs rejected by the parser: {dropped}")
    if cov["kinds_never_seen"]:
        ctx.notes.append(f"node kinds never produced by the generated programs: {cov['kinds_never_seen']}")
    return streams


def streams(ctx):
    key = ("streams", ctx.tier, ctx.seed)
    if key not in _state:
        _state[key] = _build(ctx)
    return _state[key]


def search(ctx, disagreements, bins):
    """violation search: evaluate the property itself (Python oracle) on the real implementation over all streams"""
    hbin = bins.get((HARNESS["bin"], HARNESS["features"]))
    if not hbin or not os.path.exists(hbin):
        return None
    first = [d["request"] for d in disagreements]
    try:
        sts = streams(ctx)
    except Exception:
        sts = []
    reqs = first + [r for s in sts for r in s.requests]
    outs = core.run_lines([hbin], reqs, jobs=4 if ctx.quick else 16)
    known = core.load_known()
    for r, o in zip(reqs, outs):
        f = oracle(r, o)
        if f:
            k = classify(r, o, None, f)
            if k and (ID, k) in known:
                continue
            return {"stream": "violation-search", "request": r, "impl": o, "failure": f}
    return None
