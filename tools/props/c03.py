"""C03 — lexing and parsing are total: never panic, hang or misplace an error.

Two halves (see design/C03.md):
  A. direct monitors on the REAL lexer and parser (harness op `total`/`rep`/`time`), judged by the
     oracle below, over valid programs, single-edit mutations, token soups, random Unicode,
     pathological shapes, three modes and start offsets up to the end of the 32-bit offset space;
  B. Lean theorems: (1) over the shared lexer model (PV.Lexer.*, tied to the code by the `lex`
     correspondence of C05, which this module additionally feeds with its own — mostly invalid —
     input families); (2) over small models of the arithmetic kernels of parser/src/string.rs
     (PV.C03.Escapes), tied to the code by the `oct`/`uni`/`name`/`fnest` correspondence ops.
"""
import itertools
import os
import re

import c03gen as G
import core
from core import Stream, hexs, unhex

ID = "C03"
DESIGN_REF = "DESIGN.md section 5, C03"
LEAN_TARGETS = ["PV.C03.Thm", "PV.Prog.Thm"]
DRIVER = "drv_c03"
HARNESS = {"bin": "pvh_c03", "features": "default"}
THEOREMS = [
    # the grammar as a total Lean function (PV.Prog.parseProgram, tied to the real parser by C01's prog-* streams): an explicit
    # fuel bound, and more fuel never changes an answer — the model of the parsing stage neither hangs nor panics
    "PV.Prog.parseProgram_total",
    "PV.Prog.parseProgramFuel_mono",
    "PV.C03.octet_value_le",
    "PV.C03.octet_no_panic",
    "PV.C03.octet_consumes",
    "PV.C03.unicodeLiteral_acc_lt",
    "PV.C03.unicodeLiteral_no_overflow",
    "PV.C03.unicodeLiteral_char_valid",
    "PV.C03.unicodeLiteral_err_offset",
    "PV.C03.unicodeName_guard",
    "PV.C03.unicodeName_err_offset",
    # the recursive skeleton over { } : x, with the expression check and an instrumented depth
    "PV.C03.fskel_depth_le_two",
    "PV.C03.fskel_terminates",
    "PV.C03.fskel_err_offset",
    # the f-string scanner over its FULL alphabet (C07's model PV.C07.parseFString, imported)
    "PV.C03.fstring_terminates",
    "PV.C03.fstring_no_panic",
    "PV.C03.fstring_err_offset",
    "PV.C03.fstring_field_starts",
    "PV.C03.fstring_depth_guard",
    "PV.C03.fstring_err_offset_in_source",
    "PV.C03.fstring_err_offset_crlf_fails",
    # parse_error_from_lalrpop + not_before + the start marker (PV.C03.ErrConv)
    "PV.C03.errconv_lower_bound",
    "PV.C03.errconv_offset_eq",
    "PV.C03.errconv_offset_in_input",
    "PV.C03.errconv_offset_token_boundary",
    "PV.C03.errconv_variants",
    "PV.C03.parse_err_offset_in_input",
    "PV.C03.lex_terminates",
    "PV.C03.lex_no_panic",
    "PV.C03.lex_none_iff_too_long",
    "PV.C03.lex_err_offset",
    "PV.C03.offset_arith_u32",
    # lexer + parser, end to end on the models (PV.Pipeline.parseText: lexer model -> filter -> token conversion ->
    # reference parser PV.Prog.parseProgram)
    "PV.C03.lex_parse_total_model",
    "PV.C03.lex_parse_never_panics",
]
TRUSTED = [
    "Lean 4.33.0 kernel; axioms limited to propext, Classical.choice, Quot.sound",
    "hand-written models lean/PV/C03/Escapes.lean (parse_octet, parse_unicode_literal, parse_unicode_name guard, "
    "f-string nesting skeleton of parser/src/string.rs), lean/PV/C07/Model.lean + lean/PV/C06/Model.lean (the f-string "
    "scanner over its full alphabet and the escape decoder; shared with C07/C06), lean/PV/C03/ErrConv.lean "
    "(parse_error_from_lalrpop, not_before, start marker of parser.rs) and lean/PV/Lexer/{Tok,Model,SoftKw}.lean (lexer.rs, "
    "soft_keywords.rs; shared with C05), tied to the code by the correspondence streams of this run",
    "ErrConv.reports: where the locations inside a lalrpop_util::ParseError come from (an unrecognised / extra token is an "
    "item of the stream, end of input is located at the end of the last item read or at the start marker, a User error is the "
    "stream's Err item or was raised by an action inside an item's range) is an assumption about the LALRPOP driver; the "
    "errconv stream evaluates it on the real token streams and errors of this run",
    "UParams.Sane: the hypothesis on unic_ucd_ident / unic_emoji_char tables under which the lexer theorems hold",
    "the LALRPOP-generated LR automaton and its 1.7k actions (parser/src/python.rs) are NOT modelled: the parser "
    "stage is covered by the direct monitors only (no panic, error offset in [start, start+len] on a char boundary)",
    "wall-clock bound (measured on a doubling ladder and fitted, not proved), native stack depth (measured: about "
    "1.0e5 nested nodes on an 8 MiB stack), allocator aborts",
    "unicode_names2::character, char::from_u32, u32::from_str_radix, f64::from_str, BigInt parsing: contracts only",
    "tools/props/c03.py + tools/c03gen.py (generators, independent Python oracle), harness/src/bin/pvh_c03.rs, "
    "lean/Drv/C03.lean",
]
PARTIAL = [
    "lex_parse_total_model composes the lexer theorems with the reference parser PV.Prog.parseProgram at MODEL level: for every "
    "text that fits the offset space the pipeline answers a tree (stable under more parser fuel), a rejection, or the first "
    "lexical error with its offset inside the input; never a panic, never out of fuel on the lexer side. Not claimed: that a "
    "rejection is never an out-of-fuel artefact of the reference parser (PV.Prog.parseProgram_fuel_adequate_full is stated, "
    "not proved; every PROG request exercises it), nor anything about the REAL LR driver beyond the PROG correspondence",
    "the parser stage: the LALRPOP LR driver loop, the 1.7k grammar actions and the function.rs validators have no model "
    "(direct monitors only; PV.Prog models the grammar as a recogniser, without error positions). The glue around the driver "
    "IS modelled (PV.C03.ErrConv: parse_error_from_lalrpop, not_before, marker placement): errconv_offset_in_input / "
    "parse_err_offset_in_input prove that every error the glue returns lies in [start, start+len] GIVEN that the LR driver "
    "reports locations taken from the token stream (ErrConv.reports, checked on every run by the errconv stream, not proved); "
    "the character-boundary half is proved for the LR driver's own variants (errconv_offset_token_boundary + C05 "
    "tokens_on_boundaries), for User errors it is the lexer's (lex_err_offset) or string.rs's (fstring_err_offset_in_source)",
    "string.rs: the f-string scanner is proved over its full alphabet on C07's model (termination with fuel 2|body|+1 and "
    "fuel monotonicity, no modelled panic, error offsets and field starts on boundaries of the token value inside the "
    "literal, the nested >= 2 guard). Left out: (a) parse_fstring_expr is abstracted — an InvalidExpression error is not in "
    "the model; it is reported at a field start, which fstring_field_starts places inside the literal for successful "
    "scans, and the skeleton (fskel_*) models it with its ordering over { } : x; the recursion through "
    "Expr::parse_starts_at into nested f-strings is bounded by the four quote kinds but not modelled; (b) the recursion "
    "depth is proved as the guard (parse_fstring(nested >= 2) returns at once) plus the instrumented maximum of the "
    "skeleton, not as an instrumented maximum of the full model; (c) parse_string / parse_bytes error offsets are C06's",
    "lexer theorems assume UParams.Sane (identifier-start characters are identifier characters; CR/LF are not) about "
    "the external Unicode tables; C05's pre_build checks it on the real tables",
    "time bound and native stack depth are measured (ladder exponents, depth about 1.0e5 on 8 MiB), not proved",
    "error offsets produced by string.rs are one byte early per CR LF inside the literal (known finding; "
    "fstring_err_offset_in_source assumes a CR-free token, fstring_err_offset_crlf_fails is the kernel-checked witness)",
]
READY = True
TECHNIQUE = ("Lean 4 theorems over hand-written models of the lexer and of the escape/f-string kernels + differential "
             "correspondence with the real crate + direct totality monitors on the real lexer and parser")
LEVEL_TEXT = ("Machine-checked Lean 4 theorems. Lexer (shared model of lexer.rs + soft_keywords.rs), for every text, mode and "
              "start offset: the token stream ends within length+1 steps, no modelled unwrap/expect/checked subtraction "
              "fails and location never exceeds start+len (so no u32 overflow when that fits), and a lexical error lies "
              "at start + the UTF-8 length of a prefix of the source. String literals, for bodies of every length: the "
              "modelled octal and hex escape "
              "accumulators stay within u32 and within char::from_u32's domain exactly where the code unwraps, the "
              "\\N{..} length guard and every modelled error offset stay inside the literal, and the f-string scanner over its "
              "full alphabet (C07's model) terminates with fuel 2|body|+1, never reaches a modelled panic, reports errors and "
              "field starts on character boundaries inside the literal (in the source file for CR-free literals) and refuses a "
              "third nesting level at once. Parser glue: the ParseError built from any LALRPOP error variant and clamped by "
              "not_before lies in [start, start+len] whenever the variant's locations come from the token stream. The models are tied to the Rust code on every run by "
              "exhaustive small-scope and random differential correspondence. The lexer and the whole parser are "
              "additionally monitored directly on the real code (no panic/abort/hang, error offset within the input and "
              "on a character boundary) over valid, mutated, random and pathological inputs in all modes and offsets.")
LEVEL_NOTE = ("Trusted: Lean kernel (axioms propext/Classical.choice/Quot.sound only), fidelity of the hand-written "
              "models as sampled by correspondence, the LALRPOP automaton (monitored, not modelled), timing and stack "
              "depth (measured), harness and generators.")
RULE = ("request lines sent to the real crate (and, for the kernel/lexer streams, also to the Lean model); distinct = "
        "distinct request line; non-trivial = the source text / literal body is non-empty")

U32MAX = 2 ** 32 - 1
MODES = "mie"

# ------------------------------------------------------------------------------------------------
# the oracle: judges the IMPLEMENTATION's answer against the property text only

_TOTAL = re.compile(r"len=(\d+) lex=(ok|panic|runaway|err@(\d+)) n=(\d+) parse=(ok|panic|err@(\d+))"
                    r"(?: lex_us=(\d+) parse_us=(\d+) cpu_ms=(\d+|na))?$")
_KERNEL = re.compile(r"(ok(?: \S+)?|other|panic|err@(\d+))$")
_ERRCONV = re.compile(r"\S+@(\d+) indent=[01] reports=\S+$")

_LADDER = {}        # shape -> {chars: {"lex_us":…, "parse_us":…}}; filled by the oracle, reported via ctx.extra
_STATE = {"tier": "quick", "skipped": 0}


def _is_boundary(b, i):
    return i == 0 or i == len(b) or (0 < i < len(b) and (b[i] & 0xC0) != 0x80)


def _req_source(ws):
    """(mode, start, source bytes) of a total/totalt/rep/time request"""
    if ws[0] in ("total", "totalt"):
        return ws[1], int(ws[2]), unhex(ws[3])
    return ws[1], int(ws[2]), unhex(ws[4]) + unhex(ws[5]) * int(ws[3]) + unhex(ws[6])


def _literal_of(ws):
    """source text (bytes) the harness builds for a kernel request"""
    if ws[0] == "oct":
        return (b"b" if ws[1] == "b" else b"") + b'"\\' + unhex(ws[2]) + b'"'
    if ws[0] == "uni":
        return (b"b" if ws[2] == "b" else b"") + b'"\\' + ws[1].encode() + unhex(ws[3]) + b'"'
    if ws[0] == "name":
        return b'"\\N' + unhex(ws[1]) + b'"'
    if ws[0] == "fnest":
        return b'f"' + unhex(ws[1]) + b'"'
    if ws[0] == "fscan":
        return unhex(ws[1])
    return None


def oracle(req, out):
    ws = req.split()
    op = ws[0]
    if out == "(skipped)":
        _STATE["skipped"] += 1
        return None
    if out in ("(panic)", "(abort)", "(timeout)"):
        what = {"(panic)": "a panic escaped", "(abort)": "the process aborted (stack overflow, abort or the "
                "per-request watchdog fired: no answer within its generous time budget)",
                "(timeout)": "no answer (hang)"}[out]
        return f"implementation {out}: {what}"
    if op in ("total", "totalt", "rep", "time"):
        m = _TOTAL.match(out)
        if not m:
            return "unparsable answer " + out[:80]
        start = int(ws[2])
        n = int(m.group(1))
        if m.group(2) == "panic":
            return "the lexer panicked"
        if m.group(2) == "runaway":
            return "the token stream before the first error does not end (more than 4*len+64 tokens)"
        if m.group(5) == "panic":
            return "the parser panicked"
        src = None
        for stage, off in (("lexer", m.group(3)), ("parser", m.group(6))):
            if off is None:
                continue
            off = int(off)
            if not (start <= off <= start + n):
                return f"{stage} error offset {off} outside [{start}, {start + n}]"
            if src is None:
                src = _req_source(ws)[2]
            if not _is_boundary(src, off - start):
                return f"{stage} error offset {off} (relative {off - start}) is not on a character boundary"
        if m.group(7) is not None and op == "time":
            shape = ws[7] if len(ws) > 7 else "?"
            cpu = m.group(9)
            cpu_ms = int(cpu) if cpu not in (None, "na") else (int(m.group(7)) + int(m.group(8))) // 1000
            _LADDER.setdefault(shape, {})[n] = {"lex_us": int(m.group(7)), "parse_us": int(m.group(8)), "cpu_ms": cpu_ms}
            _refit()
            # conservative: only a gross blow-up on the largest rung of the thorough tier is flagged, and it is
            # judged on CPU time (wall time depends on the load of the machine)
            if _STATE["tier"] == "thorough" and n >= 1_000_000 and cpu_ms > 60_000:
                return f"lexing+parsing {n} bytes took more than 60 s of CPU time"
        return None
    if op == "errconv":
        if out == "panic":
            return "the parser panicked"
        m = _ERRCONV.match(out)
        if not m:
            return "unparsable answer " + out[:80] if out != "ok" else None
        start = int(ws[2])
        src = unhex(ws[3])
        off = int(m.group(1))
        if not (start <= off <= start + len(src)):
            return f"parser error offset {off} outside [{start}, {start + len(src)}]"
        if not _is_boundary(src, off - start):
            return f"parser error offset {off} (relative {off - start}) is not on a character boundary"
        return None
    if op in ("oct", "uni", "name", "fnest", "fscan"):
        m = _KERNEL.match(out)
        if not m:
            return "unparsable answer " + out[:80]
        if out == "panic":
            return "the string-literal decoder panicked"
        if m.group(2) is not None:
            lit = _literal_of(ws)
            off = int(m.group(2))
            if not (0 <= off <= len(lit)):
                return f"error offset {off} outside [0, {len(lit)}]"
            if not _is_boundary(lit, off):
                return f"error offset {off} is not on a character boundary"
        return None
    if op == "lex":
        return _lex_oracle(ws, out)
    return None


def _lex_oracle(ws, out):
    """C05's `lex` op fed with C03's inputs: only what C03 says is judged here (no panic, the stream
    ends, error offset inside the input and on a character boundary)."""
    start = int(ws[2])
    src = unhex(ws[3])
    if out.startswith("(panic)"):
        return "the lexer panicked"
    if "(runaway)" in out or "(out-of-fuel)" in out:
        return "the token stream before the first error does not end"
    m = re.search(r"\(err (\S+) (\d+)\)$", out)
    if m:
        off = int(m.group(2))
        if not (start <= off <= start + len(src)):
            return f"lexer error offset {off} outside [{start}, {start + len(src)}]"
        if not _is_boundary(src, off - start):
            return f"lexer error offset {off} (relative {off - start}) is not on a character boundary"
    elif not out.endswith("(end)"):
        return "unparsable answer " + out[-60:]
    return None


def _tripped():
    """has the harness' watchdog fired so often in this run that it now answers `(skipped)`?"""
    p = os.environ.get("PVH_C03_TRIP")
    try:
        return bool(p) and os.path.getsize(p) >= 6
    except OSError:
        return False


def canon(req, out):
    """applied to both answers before they are compared.
    * `lex` lines (the shared lexer model fed with C03's inputs) are projected onto what C03 talks about: does the
      stream end, does it end in an error and at which byte offset, or does the lexer panic. Token kinds, payloads,
      spans and error kinds are C05's business: a lexing change that keeps C03 true must not alarm here.
    * Once the watchdog has tripped (the hangs are already reported as oracle failures) the harness skips every
      request; the skipped correspondence requests are then not counted as disagreements."""
    if out is None:
        return out
    if req.startswith("lex"):
        if out.startswith("(panic)"):
            return "panic"
        m = re.search(r"\(err \S+ (\d+)\)$", out)
        if m:
            return "err " + m.group(1)
        if out.endswith("(end)"):
            return "end"
        return out[-40:]
    if _tripped():
        return "(skipped)"
    return out


def _fit(points):
    """least-squares slope of log(time) over log(size), using rungs whose time is above 2 ms"""
    import math
    pts = [(math.log(n), math.log(t)) for n, t in points if t >= 2000]
    if len(pts) < 3:
        return None
    mx = sum(p[0] for p in pts) / len(pts)
    my = sum(p[1] for p in pts) / len(pts)
    den = sum((p[0] - mx) ** 2 for p in pts)
    if den == 0:
        return None
    return round(sum((p[0] - mx) * (p[1] - my) for p in pts) / den, 2)


_FITS = {}


def _refit():
    for shape, rungs in _LADDER.items():
        _FITS[shape] = {
            "rungs": len(rungs),
            "max_bytes": max(rungs),
            # robust under machine load: CPU time (10 ms resolution, rungs of at least 30 ms)
            "cpu_exponent": _fit([(n, v["cpu_ms"] * 1000) for n, v in sorted(rungs.items()) if v["cpu_ms"] >= 30]),
            # wall-clock fits (noisy when the machine is loaded), for information
            "lex_exponent": _fit([(n, v["lex_us"]) for n, v in sorted(rungs.items())]),
            "parse_exponent": _fit([(n, v["parse_us"]) for n, v in sorted(rungs.items())]),
            "lex_us_at_max": rungs[max(rungs)]["lex_us"],
            "parse_us_at_max": rungs[max(rungs)]["parse_us"],
            "cpu_ms_at_max": rungs[max(rungs)]["cpu_ms"],
        }


# ------------------------------------------------------------------------------------------------
# known findings

def classify(req, impl_out, model_out, failure):
    if not failure:
        return None
    ws = req.split()
    if ws[0] not in ("total", "totalt", "rep", "time"):
        return None
    m = _TOTAL.match(impl_out or "")
    if not m:
        return None
    mode, start, src = _req_source(ws)
    # (2) string.rs computes offsets from the token VALUE, in which the lexer folded CRLF to LF: errors after a
    #     CRLF inside a string literal are reported one byte early per CRLF and can land inside a UTF-8 sequence
    if "parser error offset" in failure and "not on a character boundary" in failure and m.group(2) == "ok":
        off = int(m.group(6)) - start
        crlf = src[:off + 16].count(b"\r\n")
        quoted = re.search(rb"'''|\"\"\"|\\\r\n", src[:off]) is not None
        if crlf >= 1 and quoted and any(_is_boundary(src, off + j) and src[:off + j].count(b"\r\n") >= j
                                        for j in range(1, crlf + 1)):
            return "string-literal-crlf-error-offset-short"
    return None


# ------------------------------------------------------------------------------------------------
# streams

def _starts(n):
    return [0, 1, 400, 2 ** 31, U32MAX - n]


def T(mode, start, src):
    b = src.encode("utf-8") if isinstance(src, str) else src
    return f"total {mode} {start} {hexs(b)}"


def _rot(i, src):
    """rotate modes and offsets deterministically; offset 0 most often"""
    b = src.encode("utf-8")
    st = _starts(len(b))
    start = [0, 0, 0, st[1], 0, st[2], 0, st[3], 0, st[4]][i % 10]
    mode = "mmmmmiie"[i % 8]
    return T(mode, start, b)


ALPHABET = ["a", "1", "0", " ", "\t", "\n", "\r", "(", ")", "[", "}", "'", '"', "\\", "#", ".", "e", "_", "=", "!",
            ":", "-", "é", "😀", "﻿", "\x0c", "f", "b", "j", "x", ",", "*", "{", "\x00", "́", "r"]

CORPUS = (G.STRINGS + G.BAD_STRINGS + G.NUMBERS + G.BAD_NUMBERS + G.OPERATORS + [
    "", " ", "\n", "\r", "\r\n", "\t", "\x0c", "\x00", "﻿", "﻿﻿", "﻿\n", "#", "# c", "#\r", "\\", "\\\n", "\\\r\n", "\\\r",
    "\\ \n", "x\\", "x \\\n", "(\\\n)", "(", ")", "((", "([)]", "(]", "{", "}", "[", "]", "(\n", "(\n\n", "x = (\n#c\n",
    "if x:\n  y\n z\n", "if x:\n\ty\n        z\n", "if x:\n        y\n\tz\n", " x", "\tx", " \tx", "\t x", "  x\n y\n",
    "if x:\ny\n", "if x:\n  y\n   z\n", "if x:\n  if y:\n    z\n w\n", "x\n  \n", "x\n  #c\n", "x\n\x0c\n", "  \x0c  x\n",
    "\x0cx", "x\x0c=\x0c1", "def f(:\n", "def f(a, a): pass\n", "def f(a=1, b): pass\n", "f(a=1, b)\n", "f(**a, *b)\n",
    "f(a=1, a=2)\n", "lambda a, a: 0\n", "class A(x=1, *b): pass\n", "match x:\n case 1: pass\n", "match x:\n", "match",
    "match:", "match x", "case", "type", "type X", "type X =", "type X[", "type X[T", "type X[T] = ", "match (x", "match x:\n case",
    "x = match if case else type\n", "1.else", "1if 1else 1", "0x", "0_", "1__", "1.__x", "1.e", "1.e+", "1e+x", "1 .real",
    "x.1", "x..y", "...", "....", "x = 1 +", "x = ", "= 1", "x == ", "x := 1", "(x := )", "print(", "print)", "a b", "a 1",
    "1 a", "'a' 1", "a 'a'", "f'{x}' 1", "return", "yield", "await", "async", "async def", "async x", "def", "class", "import",
    "from", "from . import", "from .. import (", "import a.", "global", "del", "assert", "raise from", "try:", "try:\n x\n",
    "try:\n x\nexcept* :\n y\n", "with", "with (", "with (a as b,", "for", "for x in", "while", "if", "elif", "else:", "else",
    "except:", "finally:", "lambda", "lambda:", "lambda *:", "lambda *: 0", "def f(*): pass", "def f(*, **k): pass",
    "def f(/): pass", "def f(a, /, /): pass", "def f(**k, a): pass", "def f(*a, *b): pass", "@", "@x", "@x\n", "@x\ny",
    "x: ", "x: int =", "x[", "x[:", "x[::", "x[,]", "x[*]", "x[*a]", "*", "**", "*x", "**x", "*x = 1", "*x,", "x = *y", "x = *y,",
    "{*x}", "{**x}", "{x: }", "{: y}", "{x: y, **z}", "{x, y: z}", "[x for]", "[x for y]", "[x for y in]", "[for x in y]",
    "(x for y in z if)", "x if y", "x if y else", "not", "not not", "x not", "x is", "x is not", "x in", "x not in", "- -", "~",
    "x++", "x--y", "x ** -", "await x", "(yield)", "yield from", "print >>x, y", "exec 'x'", "`x`", "x <> y", "$x", "x?", "é",
    "é = 1", "😀", "😀 = 1", "x😀", "١ = 1", "x́ = 1", "́", "\u2028", " x", "　x", "x y", "ª", "²", "a²", "℘ = 1", "·x", "x·",
    "ﬁ = 1", "𝐱 = 1", "\U0010ffff", "\U000e0100", "x\x00y", "'\x00'", "#\x00\n", "'''\x00", "x = 1\x1a", "\x7f", "\x1b[0m",
    "'\r'", "'\r\n'", "'''\r'''", "'''\r\n'''", "'\\\r\n'", "'\\\r'", "x = '\\\r\ny'", "f'''\r\n{x}'''", "f'{x}\r\n'", "#c\r\nx",
    "x\r\ry", "x\r\n\ry", "(\r\n)", "if x:\r\n  y\r\n", "if x:\r  y\r", "\r\n\r\n", "x\r", "x\r\n", "\rx", "\r\nx", "\r x",
    "x = 1 # é😀", "# é😀", "'é😀", "\"\"\"é😀", "f'{é😀}'", "f'{é}'", "f'é{'", "b'é", "'\\N{é}'", "'\\N{é'", "'\\xé'", "'\\ué'",
    "f'{x!é}'", "f'{x:é}'", "f'{x:é'", "f'{x é}'", "f'{\"é}'", "f'{(é}'", "f'{é)}'", "f'{é]}'", "f'{[é)}'", "f'{x}é}'",
    "f'{x=é}'", "f'{x= é}'", "f'{x=!é}'", "f'{x!ré}'", "f'{x!r é}'", "rb'\\é'", "b'\\é'", "'\\é'", "u'\\N{EN SPACE}é'",
    "f'{a:{b}é}'", "f'{a:{b:é}}'", "f'{a:{b:{é}}}'", "f'{a:é{'", "f'é}'", "f'}é'", "f'{{é}'", "f'{é}}'", "f'\\N{é}'", "f'\\é{'",
    "f'{lambda x: 1}'", "f'{x:{lambda: 1}}'", "f'{x!r:}'", "f'{x:}'", "f'{x!r:{y}}'", "f'{x,}'", "f'{yield}'", "f'{await x}'",
    "f'{x:=1}'", "f'{(x:=1)}'", "f'{x!=y}'", "f'{x==y}'", "f'{x<=y}'", "f'{x>=y}'", "f'{x=}'", "f'{x==}'", "f'{x!=}'", "f'{!x}'",
    "f'{x!}'", "f'{x!:}'", "f'{x!!r}'", "f'{:}'", "f'{ }'", "f'{ :}'", "f'{ !r}'", "f'{ =}'", "f'{}'", "f'{{}'", "f'{}}'",
    "f'{'''", "f\"{'''}\"", "f'''{\"\"\"a\"b\"\"\"}'''", "f'{f\"{f'''{f\"\"\"{x}\"\"\"}'''}\"}'", "f'{f\"{f'''{1+}'''}\"}'",
    "f'{x' f'}'", "f'{' 'x}'", "'a' f'{' 'b'", "f'{x}' b'y'", "b'x' f'{y}'", "u'a' b'b'", "'a' 'b' b'c'", "b'a' b'\\xg'",
    "b'a' 'é'", "f'{x:{y}}' f'{z:{w:{v}}}'", "'\\N{EN SPACE}' '\\N{XX}'", "'\\1234'", "'\\8'", "'\\400'", "b'\\400'", "'\\x'",
    "'\\xg'", "'\\x1'", "'\\x1g'", "'\\u'", "'\\u123'", "'\\u123g'", "'\\ud800'", "'\\udfff'", "'\\U'", "'\\U0000000'",
    "'\\Uffffffff'", "'\\U00110000'", "'\\U0010ffff'", "'\\U0000d800'", "'\\N'", "'\\N{'", "'\\N}'", "'\\N{}'", "'\\Nx'",
    "'\\N{" + "A" * 88 + "}'", "'\\N{" + "A" * 89 + "}'", "'\\N{" + "é" * 44 + "}'", "'\\N{" + "é" * 45 + "}'",
    "'\\N{LATIN SMALL LETTER A}'", "'\\N{latin small letter a}'", "'\\N{CJK UNIFIED IDEOGRAPH-4E00}'", "'\\N{HANGUL SYLLABLE GA}'",
    "b'\\u1234'", "b'\\N{EN SPACE}'", "rb'\\N{'", "r'\\N{'", "r'\\'", "r'\\''", "r'\\\\'", "'\\\\'", "'\\''", "'\\", "'\\\n", "'''\\",
    "0" * 5000, "1" * 5000, "0x" + "f" * 5000, "0b" + "1" * 5000, "0o" + "7" * 5000, "1" * 400 + ".5e-400", "1e" + "9" * 400,
    "1_" * 2000 + "1", "1" + "_1" * 2000 + "j", "." + "1" * 1000, "1." + "1" * 1000 + "j", "00000000000000000000000000000000000001",
    "0000000000.0", "00e0", "00j", "0_0_0", "09.5", "0e", "09", "0777", "0b1_", "0x_", "0x_f", "0o_7_", "1e1_", "1_.0", "1._0",
    "1.0_", "1e+_1", "1E_1", "1J1", "1jj", "1.j", ".j", ".e1", ". 1", ".1.", "1.1.1", "1..", "1...", "1....",
    # string prefixes with and without a quote behind them, at end of input and before other characters
    "r", "b", "f", "u", "rb", "br", "Rb", "bR", "BR", "fr", "rf", "Fr", "rF", "ur", "bu", "rr", "bb", "rb ", "rb1", "rbx",
    "rb\n", "fr#", "rb'", 'rb"', "fr'", "rf'''", 'bR"""', "rb'\\", "ub'x'", "fb'x'", "bf'x'", "rbr'x'", "r'", 'b"', "f'",
    "u'", "r''", "b''b", "x = rb", "x = fr\n", "(rb", "[fr]", "rb.x", "rb=1", "br: int",
    # comments and other constructs that end exactly at end of input
    "x #", "x # c", "  #", "\t# c", "(#", "(# c", "x\n#", "x\n  # c", "if x:\n  y\n  # c", "if x:\n  y\n# c", "'''a''' #",
])


def _kernel_reqs(ctx):
    quick = ctx.quick
    rng = ctx.rng("kernels")
    corpus, exh = [], []
    # parse_octet: every digit string "\d{1,4}" (first digit octal as in the code's entry condition)
    for n in range(1, 5):
        for tup in itertools.product("0123456789", repeat=n):
            s = "".join(tup)
            if s[0] in "89":
                continue
            for kind in "sb":
                if n == 4 and quick and rng.random() < .75:
                    continue
                exh.append(f"oct {kind} {hexs(s)}")
    # parse_unicode_literal
    hexalpha = "0123456789abcdefABCDEFgG"
    for n in range(0, 3):
        for tup in itertools.product(hexalpha + "é", repeat=n):
            for kind in "sb":
                exh.append(f"uni x {kind} {hexs(''.join(tup))}")
    for tup in itertools.product("0d8fg", repeat=4):
        exh.append(f"uni u s {hexs(''.join(tup))}")
    for n in range(0, 4):
        exh.append(f"uni u s {hexs('1' * n)}")
        exh.append(f"uni U s {hexs('0' * n)}")
        exh.append(f"uni u b {hexs('1' * n)}")
    for v in [0, 1, 0x7f, 0x80, 0xff, 0x100, 0xd7ff, 0xd800, 0xdbff, 0xdc00, 0xdfff, 0xe000, 0xfffd, 0xffff, 0x10000,
              0x10ffff, 0x110000, 0x7fffffff, 0x80000000, 0xffffffff, 0xfffffffe, 0xf0000000, 0x0fffffff, 0x00d800ff]:
        corpus.append(f"uni U s {hexs('%08x' % v)}")
        corpus.append(f"uni U s {hexs('%08X' % v + 'z')}")
        corpus.append(f"uni U b {hexs('%08x' % v)}")
    for _ in range(300 if quick else 20000):
        n = rng.choice([8, 8, 8, 7, 9, 4])
        s = "".join(rng.choice("00000001dDfF89abcg") for _ in range(n))
        exh.append(f"uni U s {hexs(s)}")
    for _ in range(200 if quick else 5000):
        s = "".join(rng.choice(hexalpha + "é") for _ in range(rng.choice([4, 4, 3, 5])))
        exh.append(f"uni u s {hexs(s)}")
    # parse_unicode_name: the length guard (names that do not exist, so the lookup contract is not involved)
    for n in range(0, 100):
        corpus.append(f"name {hexs('{' + 'Q' * n + '}')}")
    for n in (0, 1, 43, 44, 45, 46, 88):
        corpus.append(f"name {hexs('{' + 'é' * n + '}')}")
        corpus.append(f"name {hexs('{' + 'é' * n)}")
    for s in ["", "x", "{", "}", "{}", "{Q", "Q}", "{Q}x", "{Q}{Q}", "{" + "Q" * 200, "{" + "Q" * 200 + "}x", "{😀}", "{😀",
              "{EN SPACE}", "{LATIN SMALL LETTER A}", "{GREEK SMALL LETTER ALPHA}x", "{en space}", "{EN SPACE"]:
        corpus.append(f"name {hexs(s)}")
    # f-string nesting skeleton: every body over { } : x up to length L
    L = 7 if quick else 9
    for n in range(0, L + 1):
        for tup in itertools.product("{}:x", repeat=n):
            exh.append(f"fnest {hexs(''.join(tup))}")
    for s in ["{x:{x:{x}}}", "{x:{x:{x:{x}}}}", "{x:{x}{x}}", "{x:x{x:x}x}", "{x:{x:x}}" * 3, "{" * 50, "{x:" * 50, "{x:{" * 50,
              "}" * 50, "{{" * 40 + "}}" * 40, "{x}" * 200, "{x:{x}}" * 200, "{x:" + "{x}" * 100 + "}", "{{x}}", "{{{x}}}",
              "{{{{x}}}}", "{x:{{}}}", "{x:{{x}}}", "{x::}", "{x:::}", "{:x}", "{x:{:x}}", "{x:{x:}}", "{x:{x::}}"]:
        corpus.append(f"fnest {hexs(s)}")
    for _ in range(500 if quick else 30000):
        s = "".join(rng.choice("{}:x{}x") for _ in range(rng.randrange(8, 30)))
        exh.append(f"fnest {hexs(s)}")
    return corpus, exh


LADDER_SHAPES = [
    # name, mode, prefix, unit, suffix
    ("lines", "m", "", "x = 1\n", ""),
    ("list-one-line", "m", "x = [", "a, ", "]\n"),
    ("call-args", "m", "f(", "a, ", ")\n"),
    ("string", "m", 'x = "', "a", '"\n'),
    ("comment", "m", "#", "c", "\n"),
    ("digits", "m", "x = ", "9", "\n"),
    ("hexdigits", "m", "x = 0x", "f", "\n"),
    ("spaces", "m", "x", " ", "\n"),
    ("blank-lines", "m", "", "\n", "x\n"),
    ("match-lines", "m", "", "match x:\n case 1: pass\n", ""),
    ("softkw-long-lookahead", "m", "match (", "x, ", "):\n case _: pass\n"),
    ("type-lookahead", "m", "type X[", "T, ", "] = int\n"),
    # soft-keyword pass after the `start_of_statement` repair: a `type` look-ahead per `;` / `:` must stay linear (look-aheads that
    # start outside brackets are disjoint; honouring `;` / `:` inside brackets would make these two shapes quadratic)
    ("type-after-semi-open-bracket", "m", "", "type X[;", "\n"),
    ("type-after-colon-open-bracket", "m", "", "x:type X[", "\n"),
    ("type-aliases-one-line", "m", "", "type X = 1;", "\n"),
    ("implicit-concat", "m", "x = (", "'a' ", ")\n"),
    ("fstring-fields", "m", 'x = f"', "{a}", '"\n'),
    ("unicode-idents", "m", "", "é = 1\n", ""),
    ("brackets-flat", "m", "", "(a)[b]{c}\n", ""),
    ("garbage", "m", "", "$", ""),
    ("unterminated-string", "m", "'''", "a\n", ""),
    ("compare-chain", "e", "x", " < x", ""),
    ("expr-tuple", "e", "", "a, ", "a"),
    ("interactive-lines", "i", "", "x = 1; y = 2\n", ""),
    ("dict-one-line", "m", "x = {", "1: 2, ", "}\n"),
    ("def-lines", "m", "", "def f(a, b=1, *c, d, **e): return a\n", ""),
    ("crlf-lines", "m", "", "x = 1\r\n", ""),
]


def _ladder(ctx):
    top = 160_000 if ctx.quick else 1_280_000
    reqs = []
    size = 10_000
    sizes = []
    while size <= top:
        sizes.append(size)
        size *= 2
    for name, mode, pre, unit, suf in LADDER_SHAPES:
        for s in sizes:
            n = max(1, s // len(unit.encode()))
            reqs.append(f"time {mode} 0 {n} {hexs(pre)} {hexs(unit)} {hexs(suf)} {name}")
    return reqs


def _pathological(ctx):
    reqs = []
    depth = [1, 10, 100, 1000, 5000] + ([] if ctx.quick else [20000])

    def rep(mode, n, pre, unit, suf, start=0):
        reqs.append(f"rep {mode} {start} {n} {hexs(pre)} {hexs(unit)} {hexs(suf)}")
    # nesting: openers then closers (suffix carries the closers), unary chains, left-deep chains
    for d in depth:
        for o, c in ("()", "[]", "{}"):
            rep("e", d, "", o, "x" + c * d)
            rep("m", d, "x = ", o, c * d + "\n")
            rep("m", d, "", o, "")                      # unclosed
            rep("m", d, "", c, "")                      # unopened
            rep("m", d, "x" + o * d, c, c)              # one closer too many
        rep("e", d, "", "f(", "x" + ")" * d)
        rep("e", d, "", "x[", "0" + "]" * d)
        rep("e", d, "", "[x for x in ", "y" + "]" * d)
        rep("e", d, "", "{1: ", "2" + "}" * d)
        rep("e", d, "", "-", "x")
        rep("e", d, "", "not ", "x")
        rep("e", d, "", "~+", "x")
        rep("e", d, "", "lambda: ", "0")
        rep("e", d, "", "x if x else ", "x")
        rep("e", d, "", "await ", "x")
        rep("e", d, "x", " + x", "")
        rep("e", d, "x", ".a", "")
        rep("e", d, "x", "[0]", "")
        rep("e", d, "x", "(y)", "")
        rep("e", d, "x", " ** x", "")
        rep("e", d, "x", " and x or x", "")
        rep("e", d, "x", " if x else x", "")
        rep("e", d, "", "(x := ", "1" + ")" * d)
        rep("e", d, "", "*", "x")
        rep("m", d, "", "x = ", "1\n")
        rep("m", d, "", "x, ", "= y\n")
        rep("m", d, "", "@d\n", "def f(): pass\n")
        rep("m", d, "x = 'a'", " 'b'", "\n")
        rep("m", d, "x = 'a'", " f'{b}'", "\n")
        rep("m", d, "x = f'", "{{", "'\n")
        rep("m", d, "x = f'", "{a:{b}}", "'\n")
        rep("m", d, "x = f'{a:", "{b}", "}'\n")
        rep("m", d, "x = f'{a:", "{", "'\n")
        rep("m", d, "x = f'{", "(", "'\n")
        rep("m", d, "x = f'{", "[", "a" + "]" * d + "}'\n")
        rep("m", d, "x = '", "\\N{EN SPACE}", "'\n")
        rep("m", d, "x = '\\N{", "A", "}'\n")
        rep("m", d, "x = '", "\\777\\xff\\uffff\\U0010ffff", "'\n")
        rep("m", d, "x = b'", "\\777\\xff\\u\\N", "'\n")
        rep("m", d, "x = ", "1_", "1\n")
        rep("m", d, "x = 1.", "0", "e" + "9" * min(d, 400) + "\n")
        rep("m", d, "x = 0", "0", "\n")
        rep("m", d, "x = 0", "0", "1\n")
        rep("m", d, "", "\\\n", "x\n")
        rep("m", d, "", "\\\n", "")
        rep("m", d, "x = (", "\n", ")\n")
        rep("m", d, "x = (", "#c\n", "")
        rep("m", d, "", "\x0c", "x\n")
        rep("m", d, "", "\t", "x\n")
        rep("m", d, "if x:\n", " ", "y\n")
        rep("m", d, "if x:\n\ty\n", " ", "z\n")
        rep("m", d, "", "é", " = 1\n")
        rep("m", d, "", "😀", "\n")
        rep("m", d, "", "́", "\n")
        rep("m", d, "", "﻿", "\n")
        rep("m", d, "", "\r", "")
        rep("m", d, "", "\r\n", "")
        rep("m", d, "", "x\r", "")
        rep("m", d, "", "\x00", "")
        rep("m", d, "x = '''", "\r\n", "'''\n")
        rep("m", d, "", "match x:\n", " case 1: pass\n")
        rep("m", d, "", "match ", "x:\n case 1: pass\n")
        rep("m", d, "", "type ", "X = int\n")
        rep("m", d, "", "match\n", "")
        rep("i", d, "", "x;", "\n")
        rep("m", d, "", "if x: pass\nel", "")
        rep("m", d, "try: pass\n", "except A: pass\n", "else: pass\nfinally: pass\n")
        rep("m", d, "if a: pass\n", "elif b: pass\n", "else: pass\n")
        rep("m", d, "def f(", "a, ", "): pass\n")
        rep("m", d, "def f(", "a=1, ", "b): pass\n")
        rep("m", d, "f(", "a=1, ", "a=2)\n")
        rep("m", d, "f(", "**a, ", "*b)\n")
        rep("m", d, "from x import (", "a as b, ", ")\n")
        rep("m", d, "import ", "a.", "b\n")
        rep("m", d, "global ", "a, ", "b\n")
        rep("m", d, "with ", "a as b, ", "c: pass\n")
        rep("m", d, "match x:\n case ", "[", "_" + "]" * d + ": pass\n")
        rep("m", d, "match x:\n case ", "1 | ", "2: pass\n")
        rep("m", d, "match x:\n case ", "C(", "" + ")" * d + ": pass\n")
    # offsets at the very end of the 32-bit space
    for d in (1, 100, 5000):
        for mode in MODES:
            n = len(("x = 1\n" * d).encode())
            rep(mode, d, "", "x = 1\n", "", start=U32MAX - n)
            rep(mode, d, "", "é😀 ", "", start=U32MAX - len(("é😀 " * d).encode()))
            rep(mode, d, "(", "[", "", start=U32MAX - d - 1)
            rep(mode, d, "f'", "{x}", "{'", start=U32MAX - 3 * d - 4)
    # indentation staircases: many dedents at EOF / one big dedent / inconsistent dedent
    out = []
    for d in ([5, 50, 300] if ctx.quick else [5, 50, 300, 1500]):
        for nl in ("\n", "\r\n"):
            s = G.indent_staircase(d, nl=nl)
            out.append(T("m", 0, s))
            out.append(T("m", U32MAX - len(s.encode()), s))
            out.append(T("i", 1, s + "x" + nl))
            out.append(T("m", 0, s + " " * (d // 2) + " y" + nl))
            out.append(T("m", 0, G.indent_staircase(d, nl=nl, unit="\t")))
            out.append(T("m", 0, G.indent_staircase(d, nl=nl, unit="\t ") + "\t" * d + "z" + nl))
            out.append(T("m", 0, s.rstrip("\r\n")))
    return reqs + out


def _exhaustive_short(ctx):
    L = 3 if ctx.quick else 4
    alpha = ALPHABET if ctx.quick else ALPHABET[:26]
    reqs = []
    for n in range(0, L + 1):
        for tup in itertools.product(alpha, repeat=n):
            s = "".join(tup)
            reqs.append(T("m", 0, s))
    # all modes and the extreme offsets on the shorter texts
    for n in range(0, 3):
        for tup in itertools.product(ALPHABET, repeat=n):
            s = "".join(tup).encode()
            for mode in "ie":
                reqs.append(T(mode, 0, s))
            for mode in MODES:
                reqs.append(T(mode, U32MAX - len(s), s))
                reqs.append(T(mode, 1, s))
    return [r for r in reqs if not _is_blank_expr(r)]


def _stdlib(ctx):
    rng = ctx.rng("stdlib")
    files = G.stdlib_files()
    texts = []
    if ctx.quick:
        rng.shuffle(files)
        for p in files:
            if os.path.getsize(p) > 40_000:
                continue
            t = G.read_utf8(p)
            if t is not None:
                texts.append(t)
            if len(texts) >= 40:
                break
    else:
        for p in files:
            t = G.read_utf8(p)
            if t is not None:
                texts.append(t)
    return texts


def _c05_ready():
    return (os.path.exists(os.path.join(core.LEAN, "Drv", "C05.lean"))
            and os.path.exists(os.path.join(core.HARNESS, "src", "bin", "pvh_c05.rs"))
            and os.path.exists(os.path.join(core.VERIF, "tools", "lexcommon.py")))


EXTRA_DRIVERS = ["drv_c05"] if _c05_ready() else []

LEX_SHAPES = [("", "(", ""), ("", ")", ""), ("x = ", "[", None), ("", "\\\n", "x"), ("", "\\\n", ""), ("x = '", "a\\\r\n", "'"),
              ("'''", "\r\n", ""), ("", "\x0c", "x"), ("if x:\n", " ", "y"), ("if x:\n\ty\n", " ", "z"), ("", "é", ""),
              ("", "\r", ""), ("", "1_", "1"), ("0", "0", "1"), ("1.", "0", "e"), ("", "\t", "x"), ("#", "é", ""),
              ("(", "#c\n", ""), ("", "match\n", ""), ("", "﻿", "x"), ("", "😀", ""), ("", "x\r\n", ""), ("rb'", "\\'", ""),
              ("", "'a' ", ""), ("", "0x", ""), ("", "1e", ""), ("", "!", ""), ("", "\x00", "")]


def _lexmodel_streams(ctx, progs, small):
    import lexcommon as LC
    quick = ctx.quick
    plain = LC.PLAIN_HARNESS
    out = []

    def LX(i, src):
        b = src.encode("utf-8")
        st = _starts(len(b))
        start = [0, 0, 0, st[1], 0, st[2], 0, st[3], 0, st[4]][i % 10]
        return LC.lexreq(src, "mmmmmiie"[i % 8], start)
    reqs = []
    for s in CORPUS:
        b = s.encode("utf-8")
        if len(b) > 3000:
            continue
        for mode in MODES:
            reqs.append(LC.lexreq(s, mode, 0))
        for st in _starts(len(b))[1:]:
            reqs.append(LC.lexreq(s, "m", st))
    out.append(Stream("lexmodel-corpus", reqs, kind="corpus", driver="drv_c05", harness=plain,
                      note="curated texts x 3 modes + start offsets 1, 400, 2^31, 2^32-1-len through the lexer model",
                      nontrivial=lambda r: r.split()[3] != "-"))
    reqs = []
    for n in range(0, 4):
        for tup in itertools.product(ALPHABET if n < 3 else ALPHABET[:26] + ["r"], repeat=n):
            reqs.append(LC.lexreq("".join(tup), "m", 0))
    out.append(Stream("lexmodel-short-texts", reqs, kind="exhaustive", driver="drv_c05", harness=plain, exhaustive=True,
                      note="every text of length <= 2 over %d symbols and of length 3 over 27 symbols" % len(ALPHABET),
                      nontrivial=lambda r: r.split()[3] != "-"))
    import softkw_seq
    reqs = [LC.lexreq(t, m, 0) for t in softkw_seq.CORPUS for m in MODES]
    reqs += [LC.lexreq(t, "m", 0) for t in softkw_seq.texts(4)]
    reqs += [LC.lexreq(t, "mie"[i % 3], 0) for i, t in enumerate(softkw_seq.texts_ext(2 if quick else 3))]
    if not quick:
        reqs += [LC.lexreq(t, "m", 0) for t in softkw_seq.texts(5, exact=True)]
    out.append(Stream("lexmodel-softkw-statement-start", reqs, kind="exhaustive", driver="drv_c05", harness=plain, exhaustive=True,
                      note="every sequence of at most %d pieces over type X = 1, type, ;, :, if a, lambda, ( ) [ ] { }, NEWLINE, x "
                           "(the start_of_statement / nesting state of the soft-keyword pass), and short sequences over the "
                           "extended piece set (comments, indented lines, continuation lines, match / case)" % (4 if quick else 5),
                      nontrivial=lambda r: r.split()[3] != "-"))
    rngl = ctx.rng("lexmodel")
    nl = 2500 if quick else 100000
    reqs = [LX(i, G.mutate(rngl, progs[i % len(progs)])) for i in range(nl)]
    reqs += [LX(i, G.token_soup(rngl)) for i in range(nl)]
    reqs += [LX(i, G.random_unicode(rngl)) for i in range(nl)]
    reqs += [LX(i, p) for i, p in enumerate(progs[: nl // 2])]
    for t in small[: 10 if quick else 150]:
        reqs.append(LC.lexreq(G.mutate(rngl, t), "m", 0))
    reqs += [LC.lexreq(t + "\n", "m", 0) for t in _softkw_soups(ctx)]
    out.append(Stream("lexmodel-invalid-families", reqs, kind="malformed", driver="drv_c05", harness=plain,
                      note="mutations, token soups, random Unicode, valid programs, mutated stdlib files; modes and offsets rotated"))
    reqs = []
    for d in ([1, 10, 100, 1000] if quick else [1, 10, 100, 1000, 5000]):
        for pre, unit, suf in LEX_SHAPES:
            text = pre + unit * d + ("]" * d if suf is None else suf)
            reqs.append(LC.lexreq(text, "m", 0))
            reqs.append(LC.lexreq(text, "e", U32MAX - len(text.encode())))
    for d in ([5, 50] if quick else [5, 50, 300]):
        for nl_ in ("\n", "\r\n"):
            s = G.indent_staircase(d, nl=nl_)
            reqs += [LC.lexreq(s, "m", 0), LC.lexreq(s + " " * (d // 2) + " y" + nl_, "m", 1),
                     LC.lexreq(G.indent_staircase(d, nl=nl_, unit="\t ") + "\t" * d + "z" + nl_, "m", 0)]
    out.append(Stream("lexmodel-pathological", reqs, kind="directed", driver="drv_c05", harness=plain,
                      note="long runs, nesting, staircases, continuation lines, offsets ending at 2^32-1"))
    return out


def _fscan_reqs(ctx):
    """f-string literals over the scanner's FULL alphabet, for the model PV.C07.parseFString that the theorems
    fstring_terminates / fstring_no_panic / fstring_err_offset / fstring_field_starts are about.  Only bodies whose
    expression texts are valid expressions are sent (the model abstracts parse_fstring_expr; see tools/c03gen.py)."""
    quick = ctx.quick
    rng = ctx.rng("fscan")
    corpus, exh, rnd = [], [], []

    def add(dst, body, prefix):
        raw = "r" in prefix.lower()
        src = G.fscan_source(body, prefix)
        if src is not None and G.fscan_admissible(body, raw):
            dst.append("fscan " + hexs(src))

    prefixes = ["f", "F", "rf", "fR", "Rf", "FR"]
    for b in G.FSCAN_CORPUS:
        for pfx in prefixes[:3]:
            add(corpus, b, pfx)
        if any(ord(c) > 127 for c in b):
            # doubled braces / escapes in front of an error next to a multi-byte character: a position that drifts by
            # one byte lands inside the character (seed C03-4)
            for lead in ("{{", "}}", "{{}}", "a{{b}}", "\\x41", "\\{", "{y}", "{y:{z}}", "{y=}"):
                add(corpus, lead + b, "f")
    for n in (10, 100, 1000):
        for unit in ("{x}", "{x:{y}}", "{x!r:>{w}}", "{{", "{x=}", "\\x41", "{x['k']}", "é{é}"):
            add(corpus, unit * n, "f")
        for b in ("{" * n, "{x:" * n, "{x:{" * n, "}" * n, "{(" * n, "{x[" * n + "]" * n + "}", "{'" + "a" * n, "{x!" * n,
                  "{x=" + " " * n, "{x:" + "\\\\" * n + "}", "{" + "(" * n + "x" + ")" * n + "}", "{x:" + "{y}" * n + "}"):
            add(corpus, b, "f")
    L = 4 if quick else 5
    for i, b in enumerate(G.fscan_exhaustive(L)):
        add(exh, b, "f" if "\\" not in b else ("f", "rf")[i % 2])
    for b in G.fscan_exhaustive(6 if quick else 7, ["{", "}", ":", "!", "=", "x", "r", " "]):
        if len(b) > L:
            add(exh, b, "f")
    for i in range(3000 if quick else 80000):
        add(rnd, G.fscan_random(rng), prefixes[i % len(prefixes)])
    # implicit concatenation with plain / other f-string / bytes literals (parse_strings in front of the scanner)
    for a, b in [("'a' ", "{x}"), ("f'{y}' ", "{x!z}"), ("'\\x4' ", "{x}"), ("b'a' ", "{x}"), ("u'a' ", "{x!r:{w}}"), ("'' ", "{"),
                 ("f'{' ", "x}"), ("'a' \"b\" ", "{x:{y:{z}}}")]:
        src = G.fscan_source(b, "f")
        if src is not None and G.fscan_admissible(b, False):
            corpus.append("fscan " + hexs(a + src))
    return corpus, list(dict.fromkeys(exh)), list(dict.fromkeys(rnd))


_ERR_SOURCES_EXTRA = [
    "", " ", "\n", "#c", "x =", "x = (", "x = )", "x = (1 2)", "f(", "f(a=1, b)", "def f():", "def f():\n", "def f():\nx",
    "if x:\n  y\n z\n", "  x", "\tx\n", "x\n  y\n", "class A:\n", "for x in y:\n", "if x:\npass", "x = $", "x = 1 $", "x ? y", "'abc",
    "\"\"\"abc", "x = 'a\nb'", "0x", "1__0", "09", "1.e+", "x = f'{a!x}'", "x = f'{'", "x = f'{a b}'", "x = '\\N{QQ}'", "x = b'é'",
    "x = 'a' b'b'", "f'{x}' b''", "lambda", "lambda a, a: 0", "def f(a, a): pass", "def f(a=1, b): pass", "f(a=1, a=2)", "f(**a, *b)",
    "x = 1 2", "1 +", "(1 +", "[1, 2", "{1: }", "x.", "x..y", "@", "@x\n", "else:", "elif x:", "except:", "return", "import",
    "from . import", "x = y = ", "x +=", "x := 1", "(x :=)", "match x:\n", "match x:\n case", "match x:\n case 1:", "type X =", "type X[T",
    "async", "async x", "await", "x if y", "x if y else", "not", "é = ", "😀", "x = 'é' 1", "# é\nx = (", "x = [\n  1,\n  2",
    "if x:\n\ty\n        z\n", "with x as", "try:\n x\n", "try:\n x\nfinally:", "x\\", "x \\\n", "\\", "(\\\n", "1 if", "print >>x", "`x`",
    "x <> y", "*", "**x", "x = *", "del", "global", "assert", "raise x from",
]


def _errconv_reqs(ctx):
    """Two passes.  (1) `errraw` on invalid sources gives, from the REAL lexer and parser: the `Ok` items of the token
    stream in front of the first `Err`, that `Err`, and the error of `parse_tokens(lex_starts_at(..))` — i.e. before the
    `not_before` clamp.  From these the `lalrpop_util::ParseError` the LR driver must have produced is reconstructed:
      Eof@o, and Lexical:IndentationError@o that is not the stream's Err item
                                     -> UnrecognizedEof{location: o, expected}, where expected = ["Indent"] iff the stream
                                        ends with the items Colon, Newline (end of input right behind a block header)
      Lexical:K@o                    -> User{K, o}
      UnrecognizedToken:T:e@o        -> UnrecognizedToken{token: (o, T, r), expected: [e]} (e = - : not exactly one expected
                                        token), r = the end of the stream item (o, T, _)
      ExtraToken:T@o                 -> ExtraToken{token: (o, T, r)}
    (2) the `errconv` request carries that variant, the items and the Err (`v= t= x=`): the harness answers with the error
    of `parse_starts_at` (after the clamp) and `is_indentation_error()`; the Lean driver recomputes both from the variant
    with PV.C03.ErrConv (`parseStartsAtErr`, `isIndentationError`) and evaluates `reports` — the hypothesis of
    errconv_offset_in_input about where the LR driver's locations come from — on the real token stream."""
    rc, out, hbin = core.cargo_build(HARNESS["bin"], HARNESS.get("features", "default"))
    if rc != 0:
        ctx.notes.append("errconv stream skipped: harness build failed")
        return []
    rng = ctx.rng("errconv")
    srcs = [s for s in CORPUS if len(s) <= 200] + _ERR_SOURCES_EXTRA
    progs = [G.valid_program(rng, size=rng.choice([1, 2, 3])) for _ in range(150 if ctx.quick else 4000)]
    srcs += [G.mutate(rng, p) for p in progs for _ in range(2)]
    srcs += [G.token_soup(rng, rng.randrange(1, 9)) for _ in range(300 if ctx.quick else 6000)]
    srcs = [s for s in dict.fromkeys(srcs) if not ("\r" in s and ("'" in s or '"' in s))]
    first = []
    for i, s_ in enumerate(srcs):
        try:
            b = s_.encode("utf-8")
        except UnicodeEncodeError:
            continue
        if len(b) > 400:
            continue
        for mode in (MODES if i < 400 else MODES[i % 3]):
            for st in ((0, 400) if i < 400 else ((0, 1, 400, 2 ** 31)[i % 4],)):
                first.append((mode, st, b))
    raw = core.run_lines([hbin], [f"errraw {m} {st} {hexs(b)}" for m, st, b in first], jobs=4)
    reqs = []
    for (m, st, b), o in zip(first, raw):
        mm = re.match(r"t=(\S+) x=(\S+) p=(\S+)$", o or "")
        if not mm or mm.group(3) == "ok":
            continue
        t, x, p = mm.groups()
        if len(t) > 6000:
            continue
        kind, off = p.rsplit("@", 1)
        toks = [] if t == "-" else [it.split(":") for it in t.split(";")]
        parts = kind.split(":")
        at_eof = parts[0] == "Eof" or (parts[:2] == ["Lexical", "IndentationError"] and x != f"IndentationError@{off}")
        if at_eof:
            # `expected` cannot be observed through the public error; it is `["Indent"]` exactly when the input ends
            # right behind a block header (`:` NEWLINE), which is read off the token stream — so the special case of
            # parse_error_from_lalrpop is checked against the stream, not against its own output
            header = [n for _, n, _ in toks[-2:]] == ["Colon", "Newline"]
            v = f"E:{off}:Indent" if header else f"E:{off}:?,?"
        elif parts[0] == "Lexical":
            v = f"U:{parts[1]}:{off}"
        elif parts[0] in ("UnrecognizedToken", "ExtraToken"):
            r = next((e for l, n, e in toks if l == off and n == parts[1]), off)
            if parts[0] == "ExtraToken":
                v = f"X:{off}:{parts[1]}:{r}"
            else:
                v = f"T:{off}:{parts[1]}:{r}:{parts[2] if parts[2] != '-' else '?,?'}"
        else:
            continue        # InvalidToken is never built by parse_error_from_lalrpop for a Mod
        reqs.append(f"errconv {m} {st} {hexs(b)} v={v} t={t} x={x}")
    return reqs


def streams(ctx):
    _STATE["tier"] = ctx.tier
    _STATE["skipped"] = 0
    _LADDER.clear()
    _FITS.clear()
    ctx.extra["timing_ladder"] = _FITS
    ctx.extra["native_stack"] = ("measured outside the check: with the harness' 8 MiB request stack the parser handles "
                                 "about 104000 nested list/call/attribute/binary-operator levels (abort at about "
                                 "108000, in the recursive drop of the tree); the check stays at <= 20000")
    trip = os.path.join(ctx.work, "watchdog-trip")
    try:
        os.remove(trip)
    except OSError:
        pass
    os.environ["PVH_C03_TRIP"] = trip
    quick = ctx.quick
    out = []

    # 0. deterministic probes of the listed known findings (printed on every run)
    probes = [
        T("e", 100, ""), T("e", 1, "  # only a comment\n"),
        T("m", 0, "f'''\r\n{a!é}'''"), T("m", 0, "b'''\r\né'''"), T("m", 7, "x = '''\r\n\\N{é'''"),
    ]
    out.append(Stream("known-finding-probes", probes, kind="directed", compare=False,
                      note="one request per listed known finding"))

    # 1. corpus: every curated text in every mode at every offset
    reqs = []
    for s in CORPUS:
        b = s.encode("utf-8")
        for mode in MODES:
            for st in _starts(len(b)):
                if mode == "e" and st > 0 and _no_token(b):
                    continue        # known finding 1, probed above
                reqs.append(T(mode, st, b))
    out.append(Stream("corpus-all-modes-all-offsets", reqs, kind="corpus", compare=False,
                      note=f"{len(CORPUS)} curated texts x 3 modes x start offsets 0, 1, 400, 2^31, 2^32-1-len",
                      nontrivial=lambda r: r.split()[3] != "-"))

    # 2. kernels of string.rs: model correspondence
    kc, ke = _kernel_reqs(ctx)
    out.append(Stream("kernels-corpus", kc, kind="corpus", note="boundary values of the escape kernels"))
    out.append(Stream("kernels-exhaustive", ke, kind="exhaustive", exhaustive=False,
                      note="oct: every digit string of length <= 3 (sampled at 4); \\x: every string of length <= 2 over "
                           "hex digits, g, e-acute; fnest: every body over {,},:,x up to length %d; random beyond" % (7 if quick else 9),
                      nontrivial=lambda r: r.split()[-1] != "-"))

    # 2b. the f-string scanner over its full alphabet (model = PV.C07.parseFString, the model of C03's fstring_* theorems)
    fc, fe, fr = _fscan_reqs(ctx)
    nt = lambda r: len(r.split()[1]) > 6
    out.append(Stream("fscan-corpus", fc, kind="corpus", nontrivial=nt,
                      note="every error shape of parse_fstring / parse_formatted_value / parse_spec, non-ASCII at every "
                           "position, long repetitions (10, 100, 1000 units), implicit concatenation"))
    out.append(Stream("fscan-exhaustive", fe, kind="exhaustive", nontrivial=nt,
                      note="every body of length <= %d over { } : ! = x ' ( ) [ ] \\ blank r \" < and of length <= %d over "
                           "{ } : ! = x r blank, as a one-token literal, whose expression texts are expressions"
                           % ((4, 6) if quick else (5, 7))))
    out.append(Stream("fscan-random", fr, kind="random", nontrivial=nt,
                      note="structured bodies (text, escapes, doubled braces, fields, conversions, nested specs, '=' forms) with "
                           "0..2 single-character edits; six prefix spellings; single and triple quotes"))

    # 2c. the conversion of LALRPOP's errors (model = PV.C03.ErrConv)
    out.append(Stream("errconv", _errconv_reqs(ctx), kind="malformed", nontrivial=lambda r: r.split()[3] != "-",
                      note="invalid sources x modes x start offsets: the public ParseError of parse_starts_at recomputed from the "
                           "reconstructed lalrpop_util::ParseError; `reports` evaluated on the real token stream"))

    # 3. exhaustive short texts
    out.append(Stream("short-texts-exhaustive", _exhaustive_short(ctx), kind="exhaustive", compare=False, exhaustive=True,
                      note="every text of length <= %d over %d lexically significant symbols (module mode), all modes "
                           "and extreme offsets up to length 2" % (3 if quick else 4, len(ALPHABET) if quick else 26),
                      nontrivial=lambda r: r.split()[3] != "-"))

    # 4. valid programs (generated) and their single-edit mutations
    rng = ctx.rng("programs")
    nprog = 1200 if quick else 40000
    progs = [G.valid_program(rng, size=rng.choice([2, 4, 8, 16])) for _ in range(nprog)]
    exprs = [G.valid_expression(rng) for _ in range(nprog // 3)]
    reqs = [_rot(i, p) for i, p in enumerate(progs)]
    reqs += [T("e", [0, 1, 400, U32MAX - len(e.encode())][i % 4], e) for i, e in enumerate(exprs)]
    out.append(Stream("valid-generated", reqs, kind="random", compare=False,
                      note="grammar-directed generator, all statement/expression forms, LF/CRLF/CR, tabs/spaces, BOM"))
    rngm = ctx.rng("mutations")
    reqs = []
    per = 4 if quick else 10
    for i, p in enumerate(progs):
        for j in range(per):
            reqs.append(_rot(i * per + j, G.mutate(rngm, p)))
    for i, e in enumerate(exprs):
        reqs.append(T("e", [0, 1][i % 2], G.mutate(rngm, e)))
    # double edits
    for i, p in enumerate(progs[: len(progs) // 2]):
        reqs.append(_rot(i, G.mutate(rngm, G.mutate(rngm, p))))
    reqs = [r for r in reqs if not _is_blank_expr(r)]
    out.append(Stream("mutations-of-generated", reqs, kind="malformed", compare=False,
                      note="delete/duplicate/swap/replace/insert a token or char, change a bracket, break an indent, truncate"))

    # 5. CPython's standard library and mutations of it
    texts = _stdlib(ctx)
    reqs = [T("m", 0 if i % 3 else 400, t) for i, t in enumerate(texts)]
    out.append(Stream("valid-stdlib", reqs, kind="corpus", compare=False,
                      note="%d UTF-8 files of os.path.dirname(os.__file__)" % len(texts)))
    rngs = ctx.rng("stdlib-mutations")
    reqs = []
    small = [t for t in texts if len(t) < (40_000 if quick else 120_000)]
    for i, t in enumerate(small):
        for j in range(5 if quick else 8):
            mt = G.mutate(rngs, t)
            reqs.append(T("m", [0, 1, U32MAX - len(mt.encode())][(i + j) % 3], mt))
    out.append(Stream("mutations-of-stdlib", reqs, kind="malformed", compare=False, note="single edits of real files"))
    small = [t for t in small if len(t) < 20_000]

    # 6. token soups and random Unicode
    rngt = ctx.rng("soups")
    reqs = [_rot(i, G.token_soup(rngt)) for i in range(4000 if quick else 400000)]
    reqs = [r for r in reqs if not _is_blank_expr(r)]
    out.append(Stream("token-soups", reqs, kind="malformed", compare=False,
                      note="random sequences of keywords, operators, names, good and bad numbers/strings, layout"))
    sk = _softkw_soups(ctx)
    out.append(Stream("softkw-bracket-soups", [T("m", 0, t + "\n") for t in sk] + [T("i", 1, t) for t in sk[::3]], kind="exhaustive",
                      compare=False, exhaustive=True,
                      note="line-initial type/match/case followed by every sequence of <= %d symbols over brackets, '=', ':', ',', "
                           "name, lambda (the soft-keyword look-ahead counts brackets on its own)" % (4 if quick else 5)))
    rngu = ctx.rng("unicode")
    reqs = [_rot(i, G.random_unicode(rngu)) for i in range(4000 if quick else 400000)]
    reqs = [r for r in reqs if not _is_blank_expr(r)]
    out.append(Stream("random-unicode", reqs, kind="malformed", compare=False,
                      note="ASCII, controls, NUL, BOM, lone CR, CRLF, combining marks, non-characters, astral planes"))

    # 7. pathological shapes
    out.append(Stream("pathological", _pathological(ctx), kind="directed", compare=False,
                      note="nesting up to %d levels (native stack limit measured at about 1.0e5), long lines, many dedents, "
                           "huge numbers, f-string nesting, \\N names, offsets ending at 2^32-1" % (5000 if quick else 20000)))

    # 7b. the same (mostly invalid) input families through the shared LEXER MODEL (C05's `lex` op):
    #     correspondence of the whole token stream and of the first error (kind and offset) — the tie of
    #     PV.C03's lexer theorems to the code
    if _c05_ready():
        out.extend(_lexmodel_streams(ctx, progs, small))
    else:
        ctx.notes.append("lexer-model streams skipped: drv_c05 / pvh_c05 / tools/lexcommon.py not present")

    # 8. time growth
    out.append(Stream("time-ladder", _ladder(ctx), kind="directed", compare=False,
                      note="doubling ladder 10k..%s bytes for %d shapes; fitted exponents under coverage.timing_ladder; only a "
                           "run above 60 s at >= 1M bytes (thorough tier) fails" % ("160k" if quick else "1.28M", len(LADDER_SHAPES))))

    return out


def _softkw_soups(ctx):
    """every short sequence of brackets / colon / equals / names after a line-initial soft keyword: the look-ahead of
    soft_keywords.rs keeps its own bracket counters, independent of the lexer's nesting count"""
    syms = ["[", "]", "(", ")", "{", "}", "=", ":", "x", ",", " lambda "]
    L = 4 if ctx.quick else 5
    heads = ["type X", "type X[", "match ", "case ", "match x", "type type", "type"]
    out = []
    for h in heads:
        for n in range(0, L + 1):
            for tup in itertools.product(syms if n <= 3 else syms[:8], repeat=n):
                out.append(h + "".join(tup))
    return out


def _is_blank_expr(req):
    """requests that fall into known finding 1 (kept out of the random streams, probed deterministically)"""
    ws = req.split()
    if ws[0] != "total" or ws[1] != "e" or ws[2] == "0":
        return False
    return _no_token(unhex(ws[3]))


def _no_token(b):
    """does the text consist of blank lines and comments only (so that the lexer yields no token)?"""
    t = b.decode("utf-8")
    if t.startswith("﻿"):
        t = t[1:]
    for line in re.split(r"\r\n|\r|\n", t):
        l = line.lstrip(" \t\x0c")
        if l and not l.startswith("#"):
            return False
    return True


# ------------------------------------------------------------------------------------------------
# violation search: from a model/implementation disagreement to a concrete failing input

def search(ctx, disagreements, bins):
    hbin = bins.get((HARNESS["bin"], HARNESS.get("features", "default")))
    if not hbin:
        return None
    reqs = []
    for e in disagreements[:40]:
        ws = e["request"].split()
        lit = _literal_of(ws)
        if lit is None and ws[0] in ("lex", "lexf"):
            try:
                lit = unhex(ws[3])
            except ValueError:
                lit = None
        if lit is None:
            continue
        for mode in MODES:
            for wrap in (b"%s", b"x = %s\n", b"(%s)", b"f(%s,\n %s)", b"if x:\n  y = %s\n"):
                try:
                    s = wrap % ((lit,) * wrap.count(b"%s"))
                except TypeError:
                    continue
                for st in _starts(len(s)):
                    reqs.append(T(mode, st, s))
    reqs = [r for r in dict.fromkeys(reqs) if not _is_blank_expr(r)]
    if not reqs:
        return None
    outs = core.run_lines([hbin], reqs, jobs=4)
    for r, o in zip(reqs, outs):
        f = oracle(r, o)
        if f and not classify(r, o, None, f):
            return {"stream": "violation-search", "request": r, "impl": o, "model": None, "failure": f}
    return None
