"""C07 — f-strings decompose into the reference literal parts and replacement fields."""
import ast
import itertools
import os
import re
import sys
import unicodedata
import warnings

import core
from core import Stream, hexs, unhex

ID = "C07"
DESIGN_REF = "DESIGN.md section 5, C07"
LEAN_TARGETS = ["PV.C07.Thm"]
DRIVER = "drv_c07"
HARNESS = {"bin": "pvh_c07", "features": "default"}
THEOREMS = [
    "PV.C07.conv_table_eq",
    "PV.C07.fstring_eq_spec_partial",
    "PV.C07.outside_domain_cr",
    "PV.C07.outside_domain_unispace",
    "PV.C07.merge_spec",
    "PV.C07.selfdoc_spec",
    "PV.C07.strict_is_restriction",
    "PV.C07.field_offsets",
    "PV.C07.capture_no_cr",
    "PV.C07.field_offsets_in_source",
    "PV.C07.fstring_prefixes_lexed",
    "PV.C07.field_offsets_crlf_fails",
]
TRUSTED = [
    "Lean 4.33.0 kernel; axioms limited to propext, Classical.choice, Quot.sound",
    "hand-written model lean/PV/C07/Model.lean of parser/src/string.rs parse_fstring / parse_formatted_value / "
    "parse_spec / parse_strings (f-string branch), built on the C06 model of the escape decoder and of lex_string, "
    "tied to the code by the correspondence streams of this run",
    "the recursive call parse_fstring_expr is abstracted as (expression text, absolute offset); on every request the "
    "harness checks that the field's expression tree equals, ranges included, the tree obtained by parsing "
    "'(' text ')' standalone at offset-1",
    "the expression parser itself (LALRPOP automaton): C01/C02",
    "CPython 3.11.7 ast.parse as the reference decomposition (pre-PEP 701 rules) and as the source of field positions",
    "tools/props/c07.py (generators, reference scanner used for the claims, oracle), harness/src/bin/pvh_c07.rs, lean/Drv/C07.lean",
]
PARTIAL = [
    "fstring_eq_spec_partial holds on the domain `Spec.split strict:=true` answers on: the reference rules minus "
    "(b') a CR among the white space after a self-documenting '=' (no source produces it: CPython's reader and the Rust "
    "lexer turn every CR into LF; witness outside_domain_cr) and (e) an expression text consisting of Unicode white "
    "space only (rejected by the reference later as an invalid expression, which the text/offset abstraction does not "
    "see; witness outside_domain_unispace) — neither is an f-string the reference accepts from a source. The former "
    "exclusions (a) triple-quoted strings in fields, (b) blanks other than spaces after '=', (c) backslashes in the "
    "literal text opening a format spec, (d) a self-documenting field nested in a format spec, and the empty-literal "
    "restriction of merge_spec are gone: repaired in /repo (c09f12b, 897a1b6, 40fcb23, dfa74fc, and the merge_constants "
    "fix of parse_spec)",
    "the expression inside a field is abstracted as (text, absolute offset); that the tree in the result is the parse of "
    "'(' text ')' at offset-1 is checked by the harness on every request, not proved",
    "field offsets: proved are (field_offsets) every reported offset locates the field's text in the token value, and "
    "(capture_no_cr) the token value of a CR-free literal is the source slice between the quotes; with a CRLF inside the "
    "literal the offsets are one byte early per CRLF (witness field_offsets_crlf_fails, known finding). The glue between "
    "the two is field_offsets_in_source, stated over the SHARED lexer model (PV.Lexer.lexIdentifier / lexString, tied by "
    "C05's streams): for a CR-free f-string token of a file `before ++ inp`, every (text, offset) the Rust scanner "
    "reports is the byte offset of that text in the file (prefix letters and quotes are ASCII, prefix_len + 1 | 3); it "
    "inherits the domain of fstring_eq_spec_partial and the NoSurr hypothesis (the body is a Rust str)",
]
READY = True
TECHNIQUE = ("Lean 4 model of the hand-written f-string scanner + independent reference scanner + theorems relating "
             "them on an explicit domain, exhaustive small-scope and structured random correspondence, CPython as oracle")
LEVEL_TEXT = ("Machine-checked Lean 4 theorem, for f-string bodies of every length and every start offset: whenever the "
              "reference scanner (CPython 3.11 rules, validated against CPython on every run) accepts a body (outside two "
              "shapes that no source-level f-string has), the model of the repaired "
              "Rust scanner accepts it and yields, after merging adjacent literals, "
              "exactly the reference pieces: literal text, and per field the expression text, its absolute offset, the "
              "conversion (default !r of the '=' form included) and the nested format spec. Field offsets are byte offsets "
              "into the source file for CR-free literals (composed with the shared lexer model). Merging across "
              "implicitly concatenated literals equals the reference merge. The conversion-letter table is extracted from the real "
              "parser on every run and re-proved by decide. The model is tied to the code by exhaustive small-scope, "
              "directed, random and real-world (stdlib) correspondence; the real code is judged by CPython's own "
              "decomposition and field positions; the text/offset abstraction is checked in the harness per request.")
LEVEL_NOTE = ("Trusted: Lean kernel, model fidelity as sampled, the expression parser behind the (text, offset) "
              "abstraction (checked per request by tree equality in the harness), CPython 3.11.7 as reference, "
              "harness and generators.")
RULE = ("request = one expression made of adjacent string literals, at least one of them an f-string, which CPython "
        "3.11 accepts, sent to the real parser and the Lean model; distinct = distinct request line")

warnings.simplefilter("ignore")
_HBIN = None

NAMES = {"BULLET": 0x2022, "SPACE": 0x20, "LEFT CURLY BRACKET": 0x7B, "EM DASH": 0x2014}
NAMES_ARG = "n=" + ",".join(f"{hexs(k)}:{v}" for k, v in NAMES.items())


# ------------------------------------------------------------------------------------------------ reference scanner
# A Python twin of lean/PV/C07/Spec.lean: CPython 3.11's fstring_find_literal / fstring_find_expr rules,
# used (a) to compute the (text, offset) claim of every field of a source, (b) to recognise the listed
# known-finding shapes.  It is validated against CPython itself in `self_check`.

WS = " \t\n\r\x0b\x0c"


class Reject(Exception):
    pass


class Field:
    __slots__ = ("text", "start", "selfdoc", "conv", "spec", "lvl", "triple_in_expr", "ws_after_eq")

    def __init__(self):
        self.spec = None


def _scan_parts(body, i, end, raw, lvl, off, out):
    """literal / field alternation; returns index where scanning stopped"""
    while i < end:
        ch = body[i]
        if not raw and ch == "\\" and i + 1 < end:
            nxt = body[i + 1]
            if nxt == "N":
                if i + 2 < end and body[i + 2] == "{":
                    j = body.find("}", i + 3, end)
                    if j < 0:
                        raise Reject("unterminated \\N{")
                    out.append(("lit", body[i:j + 1], lvl))
                    i = j + 1
                    continue
                out.append(("lit", body[i:i + 2], lvl))
                i += 2
                continue
            if nxt in "{}":
                out.append(("lit", "\\", lvl))
                i += 1
                continue
            out.append(("lit", body[i:i + 2], lvl))
            i += 2
            continue
        if ch in "{}":
            if lvl == 0:
                if i + 1 < end and body[i + 1] == ch:
                    out.append(("lit", ch, lvl))
                    i += 2
                    continue
                if ch == "}":
                    raise Reject("single }")
            if ch == "}":
                return i
            f, i = _scan_field(body, i + 1, end, raw, lvl, off)
            out.append(("field", f, lvl))
            continue
        out.append(("lit", ch, lvl))
        i += 1
    return i


def _scan_field(body, i, end, raw, lvl, off):
    if lvl >= 2:
        raise Reject("nested too deeply")
    f = Field()
    f.lvl = lvl
    f.triple_in_expr = False
    f.ws_after_eq = False
    start = i
    quote = None
    triple = False
    stack = []
    while i < end:
        ch = body[i]
        if ch == "\\":
            raise Reject("backslash in expression")
        if quote:
            if ch == quote:
                if triple:
                    if i + 2 < end and body[i + 1] == ch and body[i + 2] == ch:
                        i += 3
                        quote = None
                        continue
                else:
                    quote = None
            i += 1
            continue
        if ch in "'\"":
            if i + 2 < end and body[i + 1] == ch and body[i + 2] == ch:
                triple = True
                f.triple_in_expr = True
                quote = ch
                i += 3
                continue
            quote = ch
            triple = False
            i += 1
            continue
        if ch in "[{(":
            stack.append(ch)
            i += 1
            continue
        if ch == "#":
            raise Reject("# in expression")
        if not stack and ch in "!:}=><":
            if i + 1 < end and ch in "!=<>" and body[i + 1] == "=":
                i += 2
                continue
            if ch in "><":
                i += 1
                continue
            break
        if ch in "]})":
            if not stack:
                raise Reject("unmatched")
            o = stack.pop()
            if "([{".index(o) != ")]}".index(ch):
                raise Reject("mismatch")
            i += 1
            continue
        i += 1
    if quote or stack or i >= end:
        raise Reject("unterminated field")
    f.text = body[start:i]
    f.start = off(start)
    if all(c in " \t\n\x0c" for c in f.text.replace("\r", "\n")):
        raise Reject("empty expression")
    f.selfdoc = None
    if body[i] == "=":
        i += 1
        j = i
        while i < end and body[i] in WS:
            i += 1
        f.ws_after_eq = any(c != " " for c in body[j:i])
        f.selfdoc = body[start:i]
    f.conv = None
    if i < end and body[i] == "!":
        if i + 1 >= end:
            raise Reject("conversion")
        f.conv = body[i + 1]
        if f.conv not in "sra":
            raise Reject("conversion")
        i += 2
        if i >= end or body[i] not in ":}":
            raise Reject("after conversion")
    if i < end and body[i] == ":":
        spec = []
        i = _scan_parts(body, i + 1, end, raw, lvl + 1, off, spec)
        f.spec = spec
    if i >= end or body[i] != "}":
        raise Reject("expecting }")
    return f, i + 1


class Tok:
    __slots__ = ("prefix", "quote", "body", "start", "body_start", "end", "parts")


def tokenize_literals(src):
    """string-literal tokens of a source made of literals separated by blanks; None if it is not such a source"""
    toks = []
    i, n = 0, len(src)
    boff = [0]
    for ch in src:
        boff.append(boff[-1] + len(ch.encode("utf-8")))
    while i < n:
        if src[i] in " \t":
            i += 1
            continue
        j = i
        while j < n and src[j].isalpha() and j - i < 2:
            j += 1
        if j >= n or src[j] not in "'\"":
            return None
        t = Tok()
        t.prefix = src[i:j]
        q = src[j]
        if src[j:j + 3] == q * 3:
            t.quote = q * 3
        else:
            t.quote = q
        k = j + len(t.quote)
        bstart = k
        while True:
            if k >= n:
                return None
            if src[k] == "\\":
                k += 2
                continue
            if src.startswith(t.quote, k):
                break
            if len(t.quote) == 1 and src[k] in "\r\n":
                return None
            k += 1
        t.body = src[bstart:k]
        t.start = boff[i]
        t.body_start = bstart
        t.end = boff[k + len(t.quote)]
        toks.append(t)
        i = k + len(t.quote)
    for t in toks:
        t.parts = None
        pre = t.prefix.lower()
        if "f" in pre:
            parts = []
            base = t.body_start
            off = lambda idx, base=base: boff[base + idx]
            try:
                stop = _scan_parts(t.body, 0, len(t.body), "r" in pre, 0, off, parts)
            except Reject:
                return None
            t.parts = parts
    return toks


def fields_in_order(parts):
    for kind, p, lvl in parts:
        if kind == "field":
            yield p
            if p.spec is not None:
                yield from fields_in_order(p.spec)


def fold_newlines(s):
    return s.replace("\r\n", "\n").replace("\r", "\n")


def claims_of(src):
    """[(absolute start, text as the lexer captures it)] for every field in document order, or None"""
    toks = tokenize_literals(src)
    if toks is None:
        return None
    out = []
    for t in toks:
        if t.parts is not None:
            for f in fields_in_order(t.parts):
                out.append((f.start, fold_newlines(f.text)))
    return out


def shapes(src):
    """which listed known-finding shapes a source contains (decided from the source text only)"""
    toks = tokenize_literals(src)
    res = set()
    if toks is None:
        return res
    has_f = any(t.parts is not None for t in toks)
    for t in toks:
        pre = t.prefix.lower()
        if t.parts is None:
            continue
        if "\r\n" in t.body:
            res.add("crlf-field-offset")
    if toks and toks[0].prefix == "U":
        res.add("kind-marker-uppercase-U")
    return res


# ------------------------------------------------------------------------------------------------ CPython reference

def _byte_offset(src, lineno, col):
    """byte offset in the ORIGINAL source of CPython's (lineno, utf-8 column); lines end at LF, CR or CRLF"""
    b = src.encode("utf-8")
    line, i = 1, 0
    while line < lineno:
        if b[i] == 13:
            i += 2 if b[i + 1:i + 2] == b"\n" else 1
            line += 1
        elif b[i] == 10:
            i += 1
            line += 1
        else:
            i += 1
    return i + col


def _cps(s):
    return ",".join(str(0xFFFD if 0xD800 <= ord(c) <= 0xDFFF else ord(c)) for c in s) or "-"


_CONV = {-1: "-", 115: "s", 114: "r", 97: "a"}


def _dump_of(text):
    try:
        return ast.dump(ast.parse(text, mode="eval").body)
    except (SyntaxError, ValueError, RecursionError, MemoryError):
        return None


def _range_denotes(src_bytes, rng, dump):
    """the source slice at `rng` is the text of an expression whose tree is `dump` (a parenthesised
    tuple written without its own parentheses is ranged over the field's braces by both parsers)"""
    a, b = rng
    if not (0 <= a < b <= len(src_bytes)):
        return False
    try:
        sl = src_bytes[a:b].decode("utf-8")
    except UnicodeDecodeError:
        return False
    sl = sl.replace("\r\n", "\n").replace("\r", "\n")
    if _dump_of("(" + sl + ")") == dump:
        return True
    # an unparenthesised tuple or a bare generator expression: both parsers range the virtual parentheses, i.e. from the
    # field's `{` to one character past the expression text (the `}`, `!`, `:` or `=` that follows it); CPython 3.11:
    # f'<{a for a in b}>' -> GeneratorExp 3..17, f'<{a, b}>' -> Tuple 3..9
    if sl[:1] == "{" and len(sl) >= 3 and dump.startswith(("Tuple(", "GeneratorExp(")) and _dump_of("(" + sl[1:-1] + ")") == dump:
        return True
    return False


def py_pieces(src):
    """reference structure: list of ('L', kind, cps) / ('F', range, conv, spec|None); None if outside the domain.
    `range` is CPython's own (start, end) byte range of the field expression when that range is
    self-consistent (the slice denotes the expression); CPython 3.11 mis-places some multi-line
    expressions, then `range` is ('any', dump) and the implementation's range is judged by the
    property text itself: it must point at text denoting that expression."""
    try:
        node = ast.parse(src, mode="eval").body
    except (SyntaxError, ValueError, RecursionError, MemoryError):
        return None
    if not isinstance(node, ast.JoinedStr):
        return None
    sb = src.encode("utf-8")

    def conv(values, top=True):
        out = []
        for v in values:
            if isinstance(v, ast.Constant):
                # the kind marker is compared on top-level pieces only: inside a format spec CPython 3.11
                # marks the first constant after a u'' literal and not the following ones (C07 does not
                # speak about markers; C06 does, for literals)
                out.append(("L", "u" if (v.kind == "u" and top) else "-", _cps(v.value)))
            elif isinstance(v, ast.FormattedValue):
                e = v.value
                dump = ast.dump(e)
                try:
                    a = _byte_offset(src, e.lineno, e.col_offset)
                    b = _byte_offset(src, e.end_lineno, e.end_col_offset)
                    rng = (a, b) if _range_denotes(sb, (a, b), dump) else ("any", dump)
                except IndexError:
                    rng = ("any", dump)
                spec = conv(v.format_spec.values, False) if v.format_spec is not None else None
                if spec is None and v.format_spec is not None:
                    return None
                out.append(("F", rng, _CONV.get(v.conversion, "?"), spec))
            else:
                return None
        return out
    return conv(node.values)


def _align(src_bytes, got, exp):
    """where the reference range is ('any', dump): accept the implementation's range iff it denotes that expression"""
    if len(got) != len(exp):
        return got
    out = []
    for g, e in zip(got, exp):
        if g[0] == "F" and e[0] == "F":
            rng = g[1]
            if isinstance(e[1], tuple) and e[1] and e[1][0] == "any" and rng is not None and _range_denotes(src_bytes, rng, e[1][1]):
                rng = e[1]
            spec = g[3]
            if spec is not None and e[3] is not None:
                spec = _align(src_bytes, spec, e[3])
            out.append(("F", rng, g[2], spec))
        else:
            out.append(g)
    return out


_PIECE_F = re.compile(r"F:(\d+|\?):([0-9a-f?-]+):(ok|FAIL|noclaim):([-sra]):")


def parse_out(out):
    """parse the harness/driver answer `joined …` into the same structure (+ start, text, tie for fields)"""
    if not out.startswith("joined "):
        return None
    s = out[len("joined "):]
    if s == "-":
        return []
    pos = 0

    def pieces(closing):
        nonlocal pos
        res = []
        if closing and s[pos] == "]":
            pos += 1
            return res
        while True:
            if s.startswith("L:", pos):
                m = re.compile(r"L:([u-]):([0-9,]+|-)").match(s, pos)
                res.append(("L", m.group(1), m.group(2)))
                pos = m.end()
            elif s.startswith("F:", pos):
                m = _PIECE_F.match(s, pos)
                start, text, tie, cv = m.group(1), m.group(2), m.group(3), m.group(4)
                pos = m.end()
                if s[pos] == "-":
                    spec = None
                    pos += 1
                else:
                    pos += 1
                    spec = pieces(True)
                rng = None
                m2 = re.compile(r"@(\d+)\.\.(\d+)~([0-9a-f!-]+)").match(s, pos)
                if m2:
                    rng = (int(m2.group(1)), int(m2.group(2)))
                    pos = m2.end()
                res.append(("F", rng, cv, spec, start, text, tie))
            else:
                raise ValueError("unparsable at %d: %s" % (pos, s[pos:pos + 30]))
            if pos < len(s) and s[pos] == "|":
                pos += 1
                continue
            if closing:
                if s[pos] != "]":
                    raise ValueError("expected ]")
                pos += 1
            return res
    r = pieces(False)
    if pos != len(s):
        raise ValueError("trailing")
    return r


def _strip(p):
    """drop the impl-only payload (start, text, tie) to compare structure with the reference"""
    out = []
    for x in p:
        if x[0] == "L":
            out.append(x)
        else:
            out.append(("F", x[1], x[2], _strip(x[3]) if x[3] is not None else None))
    return out


def _normalize(p):
    """merge adjacent literals, drop empty ones (what the reference does at every level)"""
    out = []
    for x in p:
        if x[0] == "L":
            if out and out[-1][0] == "L":
                a, b = out[-1][2], x[2]
                cps = ",".join(c for c in (a, b) if c != "-") or "-"
                out[-1] = ("L", out[-1][1], cps)
            else:
                out.append(x)
        else:
            out.append(("F", x[1], x[2], _normalize(x[3]) if x[3] is not None else None))
    return [x for x in out if not (x[0] == "L" and x[2] == "-")]


def _erase_ranges(p):
    return [x if x[0] == "L" else ("F", None, x[2], _erase_ranges(x[3]) if x[3] is not None else None) for x in p]


def _ranges(p):
    for x in p:
        if x[0] == "F":
            yield x[1]
            if x[3] is not None:
                yield from _ranges(x[3])


def oracle(req, out):
    """Judge the implementation's answer against CPython's decomposition.  Failure strings start with a
    bracketed tag when the ONLY discrepancy has the shape of a listed known finding."""
    ws = req.split()
    if ws[0] != "fs":
        return None
    if out in ("(panic)", "(abort)", "(timeout)"):
        return "implementation " + out
    src = unhex(ws[1]).decode("utf-8")
    exp = py_pieces(src)
    if exp is None:
        return None                                 # outside the quantifier
    sh = shapes(src)
    if out.startswith("err "):
        return "rejected an f-string the reference accepts: " + out
    try:
        got_full = parse_out(out)
    except Exception as e:
        return f"unparsable answer ({e}): {out[:200]}"
    if got_full is None:
        return f"not a JoinedStr: {out[:200]}"
    got = _align(src.encode("utf-8"), _strip(got_full), exp)
    # (1) the claims: every field's tree is the standalone parse of the claimed text at the claimed offset
    claim_arg = next((a for a in ws[2:] if a.startswith("c=")), None)
    tie_fail = None
    if claim_arg is not None:
        claimed = [] if claim_arg == "c=-" else [c.split(":")[0] for c in claim_arg[2:].split(";")]

        def walk(p):
            for x in p:
                if x[0] == "F":
                    yield x
                    if x[3] is not None:
                        yield from walk(x[3])
        flds = list(walk(got_full))
        if len(flds) == len(claimed):
            for k, (x, c) in enumerate(zip(flds, claimed)):
                if x[6] != "ok":
                    tie_fail = f"field {k}: expression tree is not the standalone parse of its text near offset {c}"
                    break
                if x[4] != c:
                    tie_fail = f"field {k}: expression parsed at offset {x[4]}, its text starts at {c}"
                    break
    if got == exp and tie_fail is None:
        return None
    # --- attribute the discrepancy
    if _erase_ranges(got) == _erase_ranges(exp):
        if "crlf-field-offset" in sh:
            return "[crlf-field-offset] field ranges " + str(list(_ranges(got))) + " != reference " + str(list(_ranges(exp)))
        return "field ranges " + str(list(_ranges(got))) + " != reference " + str(list(_ranges(exp))) + (" ; " + tie_fail if tie_fail else "")
    if got == exp and tie_fail:
        return tie_fail
    cand = got
    tags = []
    if "kind-marker-uppercase-U" in sh:
        def unmark(p):
            return [("L", "-", x[2]) if x[0] == "L" else x for x in p]
        c2 = unmark(cand)
        if c2 != cand:
            cand = c2
            tags.append("kind-marker-uppercase-U")
    if len(tags) == 1 and cand == exp and tie_fail is None:
        return f"[{tags[0]}] pieces {out[:160]} != reference {exp}"
    return f"pieces {out[:200]} != reference {str(exp)[:200]}" + (" ; " + tie_fail if tie_fail else "")


def classify(req, impl_out, model_out, failure):
    if not failure:
        return None
    m = re.match(r"\[([a-zA-Z-]+)\]", failure)
    if not m:
        return None
    key = m.group(1)
    if key == "kind-marker-uppercase-U":
        return None            # listed under C06, not here: generators keep it out
    return key


_ANNOT = re.compile(r"@\d+\.\.\d+~[0-9a-f!-]+")


def canon(req, out):
    """the expression's own range and source slice are printed by the harness only (the model does not
    parse expressions); they are judged by the oracle, not diffed"""
    return _ANNOT.sub("", out) if out else out


# ------------------------------------------------------------------------------------------------ pre_build

def _lean_list(xs):
    return "[" + ", ".join(str(x) for x in xs) + "]"


def pre_build(ctx):
    global _HBIN
    rc, out, path = core.cargo_build(HARNESS["bin"], HARNESS["features"])
    if rc != 0:
        return [("behavioural table (harness build)", False, out[-300:])]
    _HBIN = path
    line = core.run_lines([path], ["table conv"])[0]
    ok = "=" in line
    if ok:
        rows = []
        for item in line.split(";"):
            c, v = item.split("=")
            val = "none" if v == "E" else ("some 4294967295" if v in ("P", "?") else f"some {v}")
            rows.append(f"  ({c}, {val})")
        text = ("/-\n  GENERATED on every run by tools/props/c07.py (pre_build) from the BEHAVIOUR of the real parser\n"
                "  (harness op `table conv`): for every ASCII c (except NUL, LF, CR, ' and \\) the conversion of\n"
                "  `f'{x!<c>}'` as the character code of the flag, `none` when the f-string is rejected.  Do not edit.\n-/\n"
                "namespace PV.C07.Gen\n\n"
                "def convTable : List (Nat × Option Nat) := [\n" + ",\n".join(rows) + "]\n\n"
                "end PV.C07.Gen\n")
        path2 = os.path.join(core.LEAN, "PV", "Gen", "C07Tables.lean")
        os.makedirs(os.path.dirname(path2), exist_ok=True)
        if not (os.path.exists(path2) and open(path2, encoding="utf-8").read() == text):
            with open(path2, "w", encoding="utf-8") as f:
                f.write(text)
    res = [("behavioural conversion-letter table extracted (123 rows)", ok, "" if ok else line[:300])]
    res += spec_validation(ctx)
    return res


def spec_validation(ctx):
    """Spec-side tie (DESIGN 1.1): the Lean reference scanner `PV.C07.Spec.split` is run by the driver
    (`spec` op) on the same sources and must give CPython's decomposition (structure, conversions,
    nested specs, literal values); the strict variant (`specd`, the domain of the partial theorem) must
    coincide with the model wherever it answers.  A difference here is a defect of the SPEC (or of this
    file), never of /repo."""
    rc, out = core.lake_build([DRIVER])
    if rc != 0:
        return [("spec validation (driver build)", False, out[-300:])]
    drv = core.driver_path(DRIVER)
    srcs = CORPUS + REPAIRED + gen_directed() + gen_random(ctx, 1500 if ctx.quick else 20000) + [s for _, s in KNOWN_PROBES]
    reqs = [r for r in (req_of(s) for s in srcs) if r]
    m = core.run_lines([drv], reqs, jobs=4)
    sp = core.run_lines([drv], ["spec" + r[2:] for r in reqs], jobs=4)
    sd = core.run_lines([drv], ["specd" + r[2:] for r in reqs], jobs=4)
    bad1 = bad2 = 0
    first = ""
    inside = 0
    for r, mo, so, do in zip(reqs, m, sp, sd):
        src = unhex(r.split()[1]).decode("utf-8")
        exp = py_pieces(src)
        try:
            got = _erase_ranges(_strip(parse_out(so))) if so.startswith("joined") else None
        except Exception:
            got = None
        if got != _erase_ranges(exp):
            bad1 += 1
            first = first or f"spec != CPython on {src!r}: {so[:120]}"
        if do != "reject":
            inside += 1
            if do != mo:
                bad2 += 1
                first = first or f"strict spec != model on {src!r}: {do[:100]} / {mo[:100]}"
    return [(f"spec validation: Lean reference scanner = CPython on {len(reqs)} sources", bad1 == 0, first),
            (f"strict reference scanner = model on the {inside} sources inside the theorem's domain", bad2 == 0, first)]


# ------------------------------------------------------------------------------------------------ generators

def req_of(src):
    """request line with the claims of the reference scanner; None if the source is outside the domain"""
    if "\x00" in src:
        return None
    cl = claims_of(src)
    if cl is None:
        return None
    if py_pieces(src) is None:
        return None
    c = "c=" + (";".join(f"{s}:{hexs(t)}" for s, t in cl) if cl else "-")
    names = {}
    for m in re.finditer(r"\\N\{([^}]*)\}", src):
        try:
            names[m.group(1)] = ord(unicodedata.lookup(m.group(1)))
        except (KeyError, TypeError):
            names[m.group(1)] = None
    n = ""
    if names:
        n = " n=" + ",".join(f"{hexs(k)}:{'-' if v is None else v}" for k, v in names.items() if k)
    return f"fs {hexs(src)} {c}{n}"


def reqs_of(srcs, exclude_shapes=True):
    seen = set()
    out = []
    for s in srcs:
        if s in seen:
            continue
        seen.add(s)
        if exclude_shapes and shapes(s):
            continue
        r = req_of(s)
        if r:
            out.append(r)
    return out


CORPUS = [
    "f'{x=}'", "f'{x = }'", "f'{x:a{y}b}'", "u'a' f'{x}b'", "f'a' 'b' f'{x}' 'c' 'd'", "f'{x!r:>{w}}'", "f'{ x }'",
    "f'{(lambda: 1)}'", "f'{a!=b}'", "f'{a[\"x\"]}'", "f'{x!s}{{}}'", "f'\\{x}'", "rf'\\{x}\\n'", "f'\\N{BULLET}{x}'",
    "f'''\r{x}'''", "rf'{x:\\n}'", "f'{x:{{}}}'", "f'{x:{y:>5}}'", "f'{x:}'", "f'{x!r:}'", "f'{x:{y}{z}}'", "f'{x=!s:^{w}}'",
    "f'''{\nx\n}'''", "f'{{}}' f'{{'", "f'{x =  !r}'", "f'{x:{y!r}}'", "F'{x}' fR'{y}\\n' Rf'{z}'", "f'{x}{y}'", "f'{x = :>5}'",
    "f'{3.14!r:10.10}'", "f'{a[1:2]}'", "f'{a[(1,2)]!r}'", "f'{d[\"k:!}\"]}'", "f'{f(a=1)}'", "f'{a if b else c}'", "f'{*a,}'",
    "f'{x,}'", "f'{yield}'", "f'é{é}'", "f'{x!= 1}'", "f'{x == 1 = }'", "f'{x<1}'", "f'{x>=1=}'", "f'{(x:=1)}'", "f'{x:=1}'",
    "f'{not x}'", "f'{{{x}}}'", "f'{{{{'", "f'{x}}}'", "f'{x:}}}'", "f''", "f'' f''", "f'a' f''", "'a' f''", "f'' 'a'",
    "f\"{'a' 'b'}\"", "f\"{f'{x}'}\"", "f\"{x:{'>'}{10}}\"", "f'{x:{y}\\n}'", "f'{x:{y}\\x41}'", "f'\\x41{x}\\u00e9\\\n'",
    "f'{x:>10}' f'{y!a}' '\\n'", "f'{x:{y}{{z}}}'"[:0] + "f'{x:{y}z}'", "f\"{x!r:{'{'}>{10}}\"", "f'{a.b.c(1)[2]}'", "f'{-x}'",
    "f'{a or b}'", "f'{ a , b }'", "f'''{a\n+b}'''", "f'''{x:\n}'''", "f'''a\n  {x}  {y}'''", "f'''{\n  x\n  + y\n}'''",
    "f'''a\n{x=}'''", "f'''\n\n{(a,\n b)}'''", "f'{x=:}'", "f'{x=!r:}'", "f'{x=!a}'", "f'{ x = }'", "f'{x  =}'", "f'{x<=y=}'",
    "f'{{x}}={x}'", "f'{x}={y}'", "f'={x}'", "f'!{x}!'", "f':{x}:'", "f'{x}' r'\\n' f'\\n' rf'\\n'", "u'a' 'b' f'{x}'",
    "f'{x!r}' u'a'", "f'{\"}\"}'", "f'{\"{\"}'", "f'{\":\"}'", "f'{\"!\"}'", "f'{\"=\"}'", "f\"{'\\\"'}\""[:0] + "f'{\"a\" \"b\"}'",
    "f'{[1,2][0]}'", "f'{ {1:2}[1] }'", "f'{ {1,2} }'", "f'{(1,2)}'", "f'{x:{(1)}}'", "f'{x:{a[0]}}'", "f'{x:{a!r}}'",
    "f'{x!s:{a}{b}c{d}}'", "f'{a:{b:c}}'", "f'{a:{b!s:c}}'", "f'{x:{y}}{z:{w}}'", "f'\\}}'", "f'a\\}}{x}'", "f'\\{{'",
    "f'\\{{{x}\\}}'", "rf'\\}}\\{{'", "f'{x}\\}}'",
]

KNOWN_PROBES = [
    ("crlf-field-offset", "f'''\r\n{x}'''"),
    ("crlf-field-offset", "f'''a\r\nb\r\n{x}{y!r:>{w}}'''"),
]

# the probes of the five findings repaired in /repo (c09f12b, 897a1b6, 40fcb23, dfa74fc, merge_constants): ordinary corpus now
REPAIRED = [
    "f'{x:{y=}}'", "f'{x:a{y=}b}'", "f'{x:{y = }}'", "f'{x:{y=!r}}'", "f'{x:{y=}{z=}}'", "f'{x:{y=:>4}}'", "f'{x:{y}{z=}w}'",
    "f'{x=:{y=}}'", "f'{x:\\x41{y=}}'", "rf'{x:a{y=}b}'", "f\"\"\"{x:{y=\n}}\"\"\"",
    "f'''{\"\"\"a\"b\"\"\"}'''", "f\"{'''a'b'''}\"", "f\"{'''a'''}\"", "f\"{''''''}\"", "f\"{'''a''''b'}\"",
    "f\"{'''a}b{c'''!r:>{w}}\"", "f'''{\"\"\"\n\"\"\" + x}'''",
    "f'{x=\t}'", "f'''{x=\n}'''", "f'{x= \t !r}'", "f'{x=\x0c:>5}'", "f'{ x =\x0b}'", "f'''{x=\r}'''",
    "f'{x:\\x3e5}'", "f'{x:\\n}'", "f'{x:\\{y}}'", "f'{x:\\N{BULLET}}'", "f'{x:a\\tb{y}\\x41}'", "f'{x:\\\\}'", "f'{x:\\q}'",
    "f'{x:\\'}'", "rf'{x:\\n}'", "f'{x:{y:\\x41}}'",
    "'' f''", "'' f'{x}'", "f'{x}' ''", "'a' '' f'{x}' '' ''", "u'' f'{x}'", "f'{x=}' ''", "'' f'{x}' '' f'{y}' ''", "r'' f''",
]

EXPRS = [
    "x", "x1", "_", "é", "a.b", "a.b.c", "f(x)", "f(a=1)", "f(a, b=2, *c, **d)", "a[0]", "a[1:2]", "a['k']", 'a["k"]',
    "a[1, 2]", "a[:]", "a + b", "a*b", "a != b", "a!=b", "a == b", "a==b", "a <= b", "a>=b", "a < b", "a>b", "a<b>c",
    "not x", "-x", "~x", "a and b", "a or b", "a if b else c", "(lambda: 1)", "(lambda x: x + 1)", "(lambda x=1: x)",
    "(y := 1)", "(y:=x+1)", "x,", "x, y", "*a,", "(1, 2)", "[1, 2]", "[a for a in b]", "(a for a in b)", " {1: 2}",
    " {1, 2} ", " {k: v for k, v in d} ", "3.14", "1_000", "0x1f", "1e10", "1j", "'s'", '"s"', "'a' 'b'", "'a:b'", "'a!b'",
    "'a}b'", "'a{b'", "'='", "'a=b'", "d['k:!}']", 'd["{"]', "x.y(z)[0].w", "yield", "await x", "a @ b", "a ** b", "a // b",
    "a is not b", "a not in b", "a < b < c", "x if y else z if w else v", "f(g(h(1)))", "((x))", "(x)", "[(x)]", "x[(a, b)]",
    "'''s'''", '"""s"""', "'''a\"b'''", "'''a}b{c'''", "'''a''' 'b'", "d['''k''']", "''''''",
    "a for a in b", "a for a in b if c", "a async for a in b", "a.b for a in b for c in a", "yield x", "yield from x", "*a, b", "a, *b",
    "x  ", "  x", " x ", "a is b", "a in b", "True", "None", "...", "b'x'", "a<=b<=c", "a>=b==c", "a != b != c", "f'{y}'"[:0] + "x.__class__",
]

SPECS = ["\\x3e5", "\\n", "\\t{w}", "a\\x41{w}\\x42", "\\\\", "\\q", "\\N{BULLET}", "\\{w}", "\\u00e9>{w}", "", ">10", "<5", "^", ".2f", "x", "=+10", "!r"[:0] + "0", " ", "a b", "#x", ",", "_", "%Y-%m-%d", "é", "10.3e", "=",
         ">>", "<<", "!", "!!", "a:b", "::", "{w}", "{w}.{p}", ">{w}", "{w}>", "0{w}d", "{w!r}", "{w:>5}", "{w!s:x}", "{a}{b}{c}",
         "{a[0]}", "{(w)}", "{f(x=1)}", "{'>'}{10}"]


def _esc_other_quote(e, q):
    """make an expression usable inside an f-string delimited by q (swap the quote characters it uses)"""
    if q[0] == "'":
        return e.replace("'", "\x00").replace('"', "'").replace("\x00", '"') if "'" in e and '"' not in e else e
    return e.replace('"', "\x00").replace("'", '"').replace("\x00", "'") if '"' in e and "'" not in e else e


def gen_body(rng, q, raw, allow_newline):
    """a random f-string body for quote style q"""
    parts = []
    n = rng.choice([1, 1, 2, 2, 3, 4, 6])
    for _ in range(n):
        r = rng.random()
        if r < 0.35:
            lit = rng.choice(["a", "abc ", " ", "é", "{{", "}}", "{{}}", "x=", "!", ":", "=", "\\n", "\\\\", "\\x41", "\\u00e9",
                              "\\N{BULLET}", "\\{", "\\}}", "\\{{", "\\'" if q != "'" or True else "", "\\q", "%", "#", "\t", "\\\n" if allow_newline else "\\t",
                              "\n" if allow_newline else "-", "\r" if allow_newline else "+", "'" if q[0] != "'" else '"',
                              "''" if q[0] != "'" else '""', "\\0", "\\777", "😀", "\\U0001F600"])
            parts.append(lit)
            continue
        e = rng.choice(EXPRS)
        if allow_newline and rng.random() < 0.15:
            e = e.replace(" + ", "\n+ ").replace(", ", ",\n ") if ("(" in e or "[" in e) else "\n" + e + "\n"
        if rng.random() < 0.2:
            e = rng.choice(["", " ", "  "]) + e + rng.choice(["", " ", "  "])
        fld = "{" + e
        if rng.random() < 0.2:
            fld += rng.choice(["=", " =", "= ", " = ", "=  ", "=\t", "= \t ", "=\x0c", "=\n" if allow_newline else "=\x0b"])
        if rng.random() < 0.3:
            fld += "!" + rng.choice("sra")
        if rng.random() < 0.4:
            sp = rng.choice(SPECS)
            fld += ":" + sp
        fld += "}"
        parts.append(fld)
    body = "".join(parts)
    if raw:
        body = body.replace("\\'", "\\q").replace('\\"', "\\q")
    return body


def wrap(pre, q, body):
    return f"{pre}{q}{body}{q}"


def gen_random(ctx, n):
    rng = ctx.rng("random")
    out = []
    for _ in range(n):
        q = rng.choice(["'", '"', "'''", '"""'])
        pre = rng.choice(["f", "F", "f", "f", "rf", "fr", "Rf", "fR", "FR", "rF"])
        raw = "r" in pre.lower()
        body = gen_body(rng, q, raw, len(q) == 3)
        # expressions must not contain the delimiter's quote character
        if len(q) == 1:
            other = '"' if q == "'" else "'"
            # swap quotes used by expressions/literals so that the delimiter does not occur
            body = body.replace(q, other)
        else:
            body = body.replace(q, q[0] * 2 + " ")
        src = wrap(pre, q, body)
        k = rng.random()
        if k < 0.3:
            plain = rng.choice(["'a'", '"b"', "u'c'", "r'\\n'", "'\\x41'", "'''e\nf'''", "'é'", "'{x}'", "'}'", "'{{'"])
            src = rng.choice([plain + " " + src, src + " " + plain, plain + " " + src + " " + plain, src + "  " + plain + "\t" + plain])
        elif k < 0.45:
            q2 = rng.choice(["'", '"'])
            b2 = gen_body(rng, q2, False, False).replace(q2, '"' if q2 == "'" else "'")
            src = src + " " + wrap("f", q2, b2)
        out.append(src)
    return out


def gen_exhaustive(ctx):
    alpha = ["x", "{", "}", "!", ":", "=", "r", " ", "'", "<", "("]
    L = 5 if ctx.quick else 6
    out = []
    for n in range(0, L + 1):
        for tup in itertools.product(alpha, repeat=n):
            b = "".join(tup)
            if n and "{" not in b and "}" not in b and n > 2:
                continue            # pure literal text: nothing for the scanner to do beyond length 2
            out.append('f"' + b + '"')
    return out


def gen_directed():
    """every expression x every conversion/spec/self-documenting suffix, in two quote styles"""
    out = []
    for e in EXPRS:
        for suffix in ["", "!r", "!s:>5", ":{w}", "=", " = ", "=!a", "=:>{w}", ":", "=\t", ":\\x3e{w}"]:
            for pre, q in (("f", "'"), ("f", '"""'), ("rf", '"')):
                ee = _esc_other_quote(e, q)
                if q[0] in ee and len(q) == 1:
                    continue
                out.append(f"{pre}{q}<{{{ee}{suffix}}}>{q}")
    for sp in SPECS:
        for pre, q in (("f", "'"), ("Rf", '"""')):
            s2 = _esc_other_quote(sp, q)
            if q[0] in s2 and len(q) == 1:
                continue
            out.append(f"{pre}{q}{{x:{s2}}}{q}")
            out.append(f"{pre}{q}a{{x!r:{s2}}}b{{y}}{q}")
    return out


def stdlib_fstrings(ctx, limit):
    """f-strings that occur in the CPython standard library, re-joined with single blanks"""
    import io
    import tokenize as tk
    root = os.path.dirname(os.__file__)
    files = []
    for d, _, fs in os.walk(root):
        if "site-packages" in d or "lib2to3/tests/data" in d:
            continue
        for f in fs:
            if f.endswith(".py"):
                files.append(os.path.join(d, f))
    files.sort()
    out = []
    seen = set()
    for p in files:
        try:
            srcb = open(p, "rb").read()
            text = srcb.decode("utf-8")
            if "f'" not in text and 'f"' not in text and "F'" not in text and 'F"' not in text:
                continue
            toks = list(tk.generate_tokens(io.StringIO(text).readline))
        except Exception:
            continue
        run = []
        for t in toks + [None]:
            if t is not None and t.type == tk.STRING:
                run.append(t.string)
                continue
            if t is not None and t.type in (tk.NL, tk.COMMENT):
                continue
            if run:
                if any(re.match(r"(?i)[rb]*f", s[:3]) and s.lstrip("rRfFbBuU")[:1] in "'\"" and "f" in s[:s.index(s.lstrip("rRfFbBuU")[:1])].lower() for s in run):
                    src = " ".join(run)
                    if src not in seen and len(src) < 2000:
                        seen.add(src)
                        out.append(src)
                run = []
        if len(out) >= limit:
            break
    return out[:limit]


def streams(ctx):
    out = []
    out.append(Stream("corpus", reqs_of(CORPUS + REPAIRED), kind="corpus"))
    ex = reqs_of(gen_exhaustive(ctx))
    out.append(Stream("bodies-exhaustive-small", ex, kind="exhaustive", exhaustive=True,
                      note="every body up to length 5/6 over {x { } ! : = r blank ' < (} in f\"…\" that CPython accepts"))
    out.append(Stream("directed-expr-x-suffix", reqs_of(gen_directed()), kind="directed",
                      note="every expression of the vocabulary x conversion / spec / '=' suffixes x quote styles; every spec"))
    out.append(Stream("random-structured", reqs_of(gen_random(ctx, 6000 if ctx.quick else 150000)), kind="random",
                      note="literal text, escapes, doubled braces, fields with brackets/strings/comparisons/lambdas/walrus, "
                           "conversions, nested specs, '=' forms; single/triple quotes, raw/non-raw, concatenated"))
    out.append(Stream("stdlib-fstrings", reqs_of(stdlib_fstrings(ctx, 3000 if ctx.quick else 100000)), kind="corpus",
                      note="f-string literals (with their implicitly concatenated neighbours) of the CPython 3.11 standard library"))
    # letters that are syntax only to byte-level code (same low byte as { } ! : = ' " \ or a conversion letter), in literal
    # text, inside field expressions (identifiers) and in specs
    import lexcommon
    base = [c for c in CORPUS if "\\N" not in c and "\r" not in c][:60] + ["f'a{x}b'", "f'{x!r}'", "f'{x:>5}'", "f'{x=}'", "f'{{a}}'", "f\"{x}'\"", "f'{x:{w}}'"]
    al = list(dict.fromkeys(a for t in base for a in lexcommon.trunc_aliases(t[2:-1] if t[:2] == "f'" and t[-1] == "'" and "'" not in t[2:-1] else "", "{}!:=rsa\\\"")))
    out.append(Stream("truncation-aliases", reqs_of(["f'" + a + "'" for a in al]), kind="directed",
                      note="corpus bodies with one syntax character replaced by a letter that has the same low byte (U+01xx / U+100xx); "
                           "kept when CPython accepts the result"))
    probes = []
    for key, src in KNOWN_PROBES:
        r = req_of(src)
        if r:
            probes.append(r)
    out.append(Stream("known-finding-probes", probes, kind="directed",
                      note="one or two deterministic inputs per listed finding; these shapes are kept out of all other streams"))
    return out


def search(ctx, disagreements, bins):
    hbin = bins.get((HARNESS["bin"], HARNESS["features"])) or _HBIN
    if not hbin:
        return None
    cands = []
    for e in disagreements[:20]:
        ws = e["request"].split()
        if ws[0] != "fs":
            continue
        src = unhex(ws[1]).decode("utf-8")
        cands += [src, src + " 'a'", "'a' " + src, src.replace("f'", "rf'", 1), src.replace("'", '"')]
    if not disagreements:
        cands += CORPUS + gen_directed()[:600]
    reqs = reqs_of(cands)
    if not reqs:
        return None
    outs = core.run_lines([hbin], reqs, jobs=4)
    for r, o in zip(reqs, outs):
        f = oracle(r, o)
        if f and not classify(r, o, None, f):
            return {"request": r, "impl": o, "failure": f, "stream": "violation-search"}
    return None


def self_check():
    """spec validation: the reference scanner of this file agrees with CPython on accept/reject and on the
    expression of every field (run by hand / by the thorough tier)"""
    bad = []
    for src in CORPUS + REPAIRED + gen_directed() + [s for _, s in KNOWN_PROBES]:
        cl = claims_of(src)
        py = py_pieces(src)
        if (cl is None) != (py is None):
            bad.append((src, "accept/reject", cl, py))
    return bad
