"""C10 — Cargo feature choices do not change what is parsed.

The same `parse <mode> <hex src> <optional kinds>` request lines are answered by `pvh_c10` built in the four feature
sets. core.Stream cannot express "compare build A with build B", so this module does it itself: `streams(ctx)`
runs the DEFAULT build on every request first (core.cargo_build + core.run_lines) and hands each build's stream an
oracle closure holding the default build's answers; the stream of build X (compare=False: there is no Lean model
of the LALRPOP parser) then fails on every request where X's answer differs.  Canonical form: `{:?}` of the tree
with the `range` of the OPTIONAL-range kinds (read from ast/src/gen/generic.rs on every run by
tools/c10_translate.py) replaced by `_`, every mandatory range kept, integers as decimal digits; errors as
`(err <kind> <offset>)`.

Two small operations DO have a Lean model (lean/PV/C10/Model.lean) and are diffed against it in the usual way, in
every build: `int <literal>` (value of an integer literal; backend = parameter of the model) and
`optr <cfg> <a> <b>` (OptionalRange::new).
"""
import ast as pyast
import os
import re
import sys

import core
from core import Stream, hexs, unhex

sys.path.insert(0, os.path.dirname(os.path.dirname(os.path.abspath(__file__))))
import c10_translate  # noqa: E402

try:
    sys.set_int_max_str_digits(0)
except AttributeError:
    pass

ID = "C10"
DESIGN_REF = "DESIGN.md section 5, C10"
LEAN_TARGETS = ["PV.C10.Thm"]
DRIVER = "drv_c10"
HARNESS = {"bin": "pvh_c10", "features": "default"}
BUILDS = ["default", "full-lexer", "all-ranges", "num-bigint"]
EXTRA_HARNESS = [{"bin": "pvh_c10", "features": f} for f in BUILDS[1:]]
THEOREMS = [
    "PV.C10.optional_range_erasure",
    "PV.C10.default_build_is_canonical",
    "PV.C10.mandatory_ranges_kept",
    "PV.C10.optionalRange_spec",
    "PV.C10.fold_cfg_matches_schema",
    "PV.C10.refBackend_ok",
    "PV.C10.int_value_spec",
    "PV.C10.int_value_backend_independent",
]
_LEXFILTER = os.path.join(core.LEAN, "PV", "C10", "LexFilter.lean")   # lexer model builder; imported by PV/C10/Thm.lean
THEOREMS += ["PV.C10.full_lexer_filter", "PV.C10.softkw_commutes_filter_of_safe", "PV.C10.softkw_commutes_filter",
             "PV.C10.softkw_commutes_filter_failSrc"]
# end to end on the models (lexer model -> filter -> token conversion -> reference parser PV.Prog.parseProgram,
# lean/PV/C09/Pipeline.lean): same answer with or without full-lexer; same first lexical error for every source
THEOREMS += ["PV.C10.feature_tree_invariant", "PV.C10.feature_first_error_invariant", "PV.C10.feature_lex_error_invariant"]

TRUSTED = [
    "Lean 4.33.0 kernel; axioms limited to propext, Classical.choice, Quot.sound",
    "the LALRPOP parser (python.rs) has no Lean model: that the four builds build the same tree / report the same error is a "
    "DIFFERENTIAL check between harness builds, not a theorem",
    "malachite-bigint and num-bigint from_str_radix / Display: the model takes the backend as a parameter constrained by "
    "Spec.BackendOk (empty text is an error, a digit text has its positional value); that both crates meet it is sampled by "
    "the `int` and huge-integer streams in both builds and judged against CPython's int literal value",
    "tools/c10_translate.py (strict scanner of ast/src/gen/generic.rs and ast/src/gen/fold.rs: which kinds have an OptionalRange, "
    "which folds use the _cfg callbacks)",
    "the canonicaliser erase_optional in harness/src/bin/pvh_c10.rs (replaces the range of exactly the listed kinds); the oracle "
    "rejects any answer of the default build in which a `range: ()` survives, i.e. a kind the list does not know",
    "tools/props/c10.py (generators, build-vs-build comparison, CPython integer oracle), harness/src/bin/pvh_c10.rs, lean/Drv/C10.lean",
]
PARTIAL = [
    "equality of trees and errors between builds is established by running the four builds on the same texts (streams "
    "parse-*): there is no theorem about the LALRPOP automaton behind the configuration-dependent front ends. For full-lexer "
    "the composition IS a theorem at MODEL level: feature_tree_invariant — the pipeline PV.Pipeline.parseText (lexer model with "
    "the soft-keyword pass, the filter of parse_filtered_tokens, any position-blind token conversion, the reference parser "
    "PV.Prog.parseProgram) gives the same answer (tree / rejection / first lexical error with kind and offset / panic) in both "
    "lexer configurations, under the side condition SoftSafe of softkw_commutes_filter; feature_first_error_invariant and "
    "feature_lex_error_invariant (the first lexical error is the same) hold for EVERY source. Remaining: SoftSafe is not shown "
    "to hold for every lexer stream (needs the coupling start_of_line / start_of_statement => bracket depth 0); the error a "
    "REJECTING parser reports (kind, offset) is not modelled by PV.Prog (a recogniser), so \"the error reported is the same\" is "
    "a theorem for lexical errors only; the reference parser is tied to the LR automaton by the PROG correspondence",
    "full-lexer: the token-level theorems full_lexer_filter / softkw_commutes_filter are about the lexer MODEL (lean/PV/Lexer, tied to "
    "lexer.rs by the C05 correspondence), proved in lean/PV/C10/LexFilter.lean"
    "; softkw_commutes_filter carries the side condition SoftSafe (the token right after a line-initial match/case/type is not a "
    "Comment/NonLogicalNewline token); the former `type` look-ahead defect is repaired (commit e335017) and the model's look-ahead "
    "skips trivia, so the type-loop clause is gone (softkw_commutes_filter_failSrc: the former counterexample now agrees)",
    "optional_range_erasure / mandatory_ranges_kept are about the model of tree construction (same grammar action, "
    "OptionalRange::new per configuration); that every grammar action builds optional ranges only through optional_range() is "
    "type-checked by rustc (EmptyRange vs TextRange), and fold_cfg_matches_schema re-checks the generated fold on every run",
    "int_value_backend_independent is relative to the backend contract Spec.BackendOk; the crates themselves are not verified",
]
READY = True
TECHNIQUE = ("differential harness builds in four feature sets (primary evidence for trees and errors) + Lean 4 theorems on the "
             "models of OptionalRange/tree construction and of integer literal values with the bigint backend as a parameter + "
             "decide on the regenerated schema/fold table")
LEVEL_TEXT = ("Theorems (Lean 4, machine-checked): erasing optional ranges makes the trees built with and without "
              "all-nodes-with-ranges identical and keeps every mandatory range (any optional-kind set; the real set is re-read from "
              "generic.rs and checked against the generated fold by `decide` on every run); an integer literal's value is the "
              "positional value of its digit text for every bigint backend meeting the from_str_radix contract, hence the same for "
              "both. Differential builds (not theorems): the same texts — valid programs, real stdlib files, single-edit invalid "
              "programs, comment- and blank-line-heavy layouts with soft keywords, huge integer literals in every base — are parsed by "
              "the binary built in default, full-lexer, all-nodes-with-ranges and num-bigint configurations; canonical trees and "
              "(error kind, offset) must be identical, and integer values are judged against CPython.")
LEVEL_NOTE = ("Most of this property's assurance is differential (four builds); the theorems cover the two mechanisms that are "
              "modelled (OptionalRange, integer values). Token-level full-lexer theorems (lexer model) are in PV/C10/LexFilter.lean.")
RULE = ("request lines sent to each of the four builds (parse) or to a build and the Lean model (int, optr); distinct = distinct "
        "request line; non-trivial = non-empty text")


def _optional_kinds():
    return ",".join(c10_translate.optional_kinds())


# ------------------------------------------------------------------ pre_build

def pre_build(ctx):
    kinds = c10_translate.translate()
    path = os.path.join(core.LEAN, "PV", "Gen", "C10RangeKinds.lean")
    c10_translate.write_if_changed(path, c10_translate.render(kinds))
    nofold = [k[0] for k in kinds if k[2] is None]
    return [("translate ast/src/gen/generic.rs + fold.rs", True,
             "%d kinds, %d optional (%s); without generated fold: %s" % (
                 len(kinds), sum(1 for k in kinds if k[1]), ",".join(k[0] for k in kinds if k[1]), ",".join(nofold) or "-"))]


# ------------------------------------------------------------------ oracles

_INT_TEXT = re.compile(r"[0-9][0-9a-zA-Z_]*\Z")


def _py_int_literal(text):
    """value of `text` if it is, as a whole, one Python integer literal; else None"""
    if not _INT_TEXT.match(text):
        return None
    try:
        v = pyast.literal_eval(text)
    except (SyntaxError, ValueError, MemoryError):
        return None
    return v if type(v) is int else None


def oracle(req, out):
    """the part of the property that one build can be asked alone"""
    ws = req.split()
    if out in ("(panic)", "(abort)", "(timeout)", "bad-request", "bad-config"):
        return "implementation " + out
    if ws[0] == "int":
        text = unhex(ws[1]).decode("utf-8")
        v = _py_int_literal(text)
        want = "none" if v is None else str(v)
        if out != want:
            return "integer literal %r lexes to %s, CPython: %s" % (text[:60], out[:60], want[:60])
        return None
    if ws[0] == "optr":
        allr, a, b = ws[1] == "1", int(ws[2]), int(ws[3])
        want = "()" if not allr else ("%d..%d" % (a, b) if a <= b else "none")
        if out != want:
            return "OptionalRange::new(%d, %d) with all-ranges=%s prints %s, expected %s" % (a, b, allr, out, want)
        return None
    if ws[0] == "parse":
        if not (out.startswith("(ok ") or out.startswith("(err ")):
            return "unreadable answer " + out[:60]
        if re.search(r"range: \(\)", _strip_strings(out)):
            return "a `range: ()` survives canonicalisation: a node kind with an optional range is missing from the list"
        return None
    return None


_STR = re.compile(r'"(?:\\.|[^"\\])*"')


def _strip_strings(s):
    return _STR.sub('""', s)


def _first_diff(a, b):
    n = min(len(a), len(b))
    i = next((j for j in range(n) if a[j] != b[j]), n)
    return "%s | %s" % (a[max(0, i - 30):i + 50], b[max(0, i - 30):i + 50])


def _versus(build, base):
    def f(req, out):
        r = oracle(req, out)
        if r:
            return r
        want = base.get(req)
        if want is None:
            return None
        if out != want:
            return "build %s differs from the default build: %s" % (build, _first_diff(out, want))
        return None
    return f


def _int_values_oracle(base_oracle):
    """default-build oracle for the integer stream: every `x = <literal>` line has CPython's value"""
    def f(req, out):
        r = base_oracle(req, out)
        if r:
            return r
        src = unhex(req.split()[2]).decode("utf-8")
        try:
            tree = pyast.parse(src)
        except (SyntaxError, ValueError):
            return None
        want = [n.value for n in pyast.walk(tree) if isinstance(n, pyast.Constant) and type(n.value) is int]
        got = [int(x) for x in re.findall(r"value: Int\((-?\d+)\)", _strip_strings(out))]
        if sorted(want) != sorted(got):
            return "integer values %s, CPython %s" % (str(got)[:80], str(want)[:80])
        return None
    return f


_NUMVAL = re.compile(r"value: (?:Int\((\d+)\)|Float\(([^)]+)\)|Complex \{ real: ([^,]+), imag: ([^ ]+) \})")


def _same_float(a, b):
    import struct
    return struct.pack(">d", a) == struct.pack(">d", b) or (a != a and b != b)


def _numeral_oracle(base_oracle):
    """default-build oracle for the numeral stream (`x = <numeral>`): acceptance and value as CPython's
    (int: equal integers; float / imaginary: equal bit patterns, inf included)"""
    def f(req, out):
        r = base_oracle(req, out)
        if r:
            return r
        src = unhex(req.split()[2]).decode("utf-8")
        lit = src[4:].rstrip("\n")
        try:
            node = pyast.parse(src).body[0].value
        except (SyntaxError, ValueError, MemoryError, RecursionError):
            node = None
        if node is not None and not (isinstance(node, pyast.Constant) and type(node.value) in (int, float, complex)):
            # valid syntax that is not one numeral (`j` is a name, `1.j.j` an attribute access): acceptance only
            return None if out.startswith("(ok ") else "%r rejected %s, CPython accepts it" % (lit[:60], out[:60])
        want = node.value if node is not None else None
        if want is None:
            if out.startswith("(ok "):
                return "numeral %r accepted, CPython rejects it" % lit[:60]
            return None
        if not out.startswith("(ok "):
            return "numeral %r rejected %s, CPython reads %r" % (lit[:60], out[:60], want if len(lit) < 80 else type(want))
        m = _NUMVAL.search(_strip_strings(out))
        if not m:
            return "no constant in the tree of %r" % lit[:60]
        if m.group(1) is not None:
            ok = type(want) is int and int(m.group(1)) == want
        elif m.group(2) is not None:
            ok = type(want) is float and _same_float(float(m.group(2)), want)
        else:
            ok = (type(want) is complex and _same_float(float(m.group(3)), want.real)
                  and _same_float(float(m.group(4)), want.imag))
        if not ok:
            return "numeral %r has value %s, CPython %r" % (lit[:60], m.group(0)[:80], want if len(lit) < 80 else type(want))
        return None
    return f


def _numerals(rng, n):
    """every numeral family x magnitudes around every conversion boundary x underscores x imaginary forms"""
    fmax = int(1.7976931348623157e308)
    ints = [0, 1, 9, 10, 255, 2 ** 31 - 1, 2 ** 31, 2 ** 32 - 1, 2 ** 32, 2 ** 53 - 1, 2 ** 53, 2 ** 53 + 1, 2 ** 63 - 1, 2 ** 63,
            2 ** 63 + 1, 2 ** 64 - 1, 2 ** 64, 2 ** 64 + 1, 2 ** 127 - 1, 2 ** 127, 2 ** 128 - 1, 2 ** 128, 2 ** 128 + 1, 10 ** 19, 10 ** 20,
            10 ** 38, 10 ** 39, 10 ** 307, 10 ** 308, fmax - 1, fmax, fmax + 1, fmax + 2 ** 969, fmax + 2 ** 970, fmax + 2 ** 970 + 1, 2 ** 1024 - 1,
            2 ** 1024, 2 ** 1024 + 1, 10 ** 309 - 1, 10 ** 309, 10 ** 310, 10 ** 400 + 7, 3 ** 2000, 10 ** 4999 + 1, 7 ** 6000]

    def us(t, every):
        """underscores between digits"""
        return "_".join(t[i:i + every] for i in range(0, len(t), every)) if every else t
    out = []
    for v in ints:
        d = str(v)
        for t in (d, us(d, 3), us(d, 1) if len(d) < 50 else us(d, 7)):
            out += [t, t + "j", t + "J", t + ".j", t + ".", t + ".0", t + ".0j", t + "e0", t + "e0j", t + "E+0J", t + "e-0",
                    "0" + t + "j", "000" + t + "J", "0_0" + t + "j", "00" + t + ".0", "00" + t + "e0", "00" + t + ".j"]
        out += [hex(v), "0X" + us(hex(v)[2:], 4), oct(v), "0O" + us(oct(v)[2:], 3), bin(v) if v < 2 ** 200 else bin(v % 2 ** 200),
                "0b_" + us(bin(v % 2 ** 130)[2:], 8), hex(v) + "j", oct(v) + "j", bin(v % 2 ** 70) + "j", "0" + d, "0_" + d]
    out += ["0" * 400 + "j", "0" * 400, "0" * 400 + ".0", "0_" * 50 + "0j", "0" * 5000 + "1j", "00j", "0j", "0_0j", "007j", "09j", "09.5", "09e1",
            "0x", "0xj", "1_j", "1__0j", "1_.j", "1._0j", "1j_", "1jj", "1.j.j", "j", "1ej", "1e+j", ".j", ".5j", ".5", "5.", "5.j", ".0e0j", "0.j", "0.0j", "1.5e300j"]
    floats = ["1e308", "1e309", "1e310", "1.7976931348623157e308", "1.7976931348623158e308", "1.7976931348623159e308", "1.797693134862315807e308",
              "1.797693134862315808e308", "17976931348623157e292", "0.17976931348623157e309", "2e308", "9e999", "1e400", "1e4000", "1e99999",
              "1e-307", "2.2250738585072014e-308", "2.2250738585072011e-308", "2.225073858507201e-308", "1e-308", "1e-323", "4.9e-324", "5e-324", "3e-324",
              "2.5e-324", "2.4703282292062327e-324", "2.4703282292062328e-324", "2.4e-324", "1e-324", "1e-400", "1e-99999", "0e999999", "0.0e-999999",
              "1" + "0" * 400 + ".0", "1" + "0" * 400 + "e-400", "0." + "0" * 400 + "1", "0." + "0" * 400 + "1e400", "0." + "0" * 322 + "1", "0." + "0" * 323 + "4",
              "9007199254740993.0", "9007199254740992.5", "0.1", "0.3", "1.0000000000000002", "1.00000000000000011102230246251565404236316680908203125",
              "1.00000000000000011102230246251565404236316680908203124", "1.00000000000000011102230246251565404236316680908203126",
              "1_0e3_0_8", "1_000.000_1e1_0", "1e0_0_1", "1.e5", "1.E-5", "12_3.4_5e+6_7", "1e+308", "1E309", "1.e309", "1" + "0" * 309 + ".", "1" + "0" * 309 + ".e0"]
    for t in floats:
        out += [t, t + "j", t + "J", "0" + t, "00" + t + "j", us(t.split("e")[0].split(".")[0], 2) + t[len(t.split("e")[0].split(".")[0]):]]
    sfx = ["", "j", "J", ".j", ".", ".0", ".0j", "e0", "e0j", "e-5j", "e5", ".5e-3J", "e308", "e309j", "e-330", "_0", "_0j"]
    for _ in range(n):
        ln = rng.choice([1, 2, 16, 17, 18, 19, 20, 21, 38, 39, 40, 307, 308, 309, 310, 311, 400, 1000, 5000])
        d = rng.choice("123456789") + "".join(rng.choice("0123456789") for _ in range(ln - 1))
        if rng.random() < 0.25:
            d = "1" + "0" * (ln - 1)
        if rng.random() < 0.3:
            d = us(d, rng.choice([1, 2, 3, 10]))
        t = d + rng.choice(sfx)
        if rng.random() < 0.15:
            t = rng.choice(["0", "00", "0_"]) + t
        out.append(t)
    return list(dict.fromkeys(out))


# ------------------------------------------------------------------ sources

def _bin(features):
    rc, out, path = core.cargo_build("pvh_c10", features)
    if rc != 0:
        raise RuntimeError("cargo build pvh_c10 [%s] failed: %s" % (features, out[-600:]))
    return path


PIECES = ["# c\n", "\n", "match x:\n    case 1: pass\n", "type X = int\n", "x = match\n", "case = 1\n", "    # c\n",
          "y = (\n# c\n1,\n\n2)\n", "if a:\n    # c\n\n    b\n# d\n", "match = type\n", "match (x):  # c\n  # d\n  case [a, *r]:  # e\n\n    pass\n",
          "type Y[T] = (  # c\n    T)\n", "print(match, case, type)  # c\n"]

# continuation lines inside brackets: their leading whitespace is free-form (any mix of blanks, tabs, form feeds, also a
# tab after a space, which is an error only in real indentation); with comments and blank lines in between
BRACKET_WS = [" ", "\t", " \t", "\t ", "  \t  ", "\x0c", " \x0c\t", ""]
BRACKET_CORPUS = []
for _w in BRACKET_WS:
    BRACKET_CORPUS += [f"x = [\n{_w}1,\n{_w}2,\n{_w}]\n", f"f(a,\n{_w}b)\n", "{\n" + _w + "1: 2}\n", f"x = (1,\n{_w}# c\n{_w}2)\n",
                       f"if a:\n    y = [\n{_w}1,\n\n{_w}2]\n    z = 3\n", f"def f(a,\n{_w}b=1, *,\n{_w}c): pass\n",
                       f"x = [1,\r\n{_w}2]\r\n", f"x = (\n{_w}1\n{_w})[\n{_w}0]\n", f"match (\n{_w}x):\n    case [\n{_w}a]: pass\n"]

LAYOUT_CORPUS = [
    "# only a comment", "# a\n# b\n", "\n\n\n", "x  # trailing", "x\n# trailing comment line", "x\n\n\n# c\n\n", "  # indented comment\nx\n",
    "if a:\n    b\n\n\n    # c\n    c\n", "if a:\n    b\n# dedented comment\n    c\n", "if a:\n    b\n  # odd indent comment\n    c\n",
    "def f():\n    # only comment\n    pass\n", "def f():\n\n    pass\n\n\n\ndef g(): pass\n", "x = [\n    1,  # one\n\n    2,\n    # three\n]\n",
    "f(  # c\n  a,\n\n  b)\n", "x = 1 \\\n  + 2  # c\n", "class A:\n    # c\n\n    x = 1  # d\n    # e\n", "# c\nmatch x:\n    # c\n    case 1:  # c\n        pass\n",
    "# c\n\nmatch x:\n\n    case 1:\n\n        pass\n", "# c\ntype X = int  # d\n", "# c\n\ntype X[T] = T\n", "x = 1\n# c\ntype X = int\n", "x = 1  # c\nmatch y:\n case 2: pass\n",
    "# c\nmatch = 1\n", "# c\ncase = 1\n", "# c\ntype = 1\n", "(  # c\n)\n", "# c\n(match)\n", "if a:  # c\n    match b:  # d\n        # e\n        case 1: pass\n",
    "\n# c\n\nmatch x: # d\n  case 1: pass\n", "match x:\n  # c\n  case 1: pass\n  # d\n  case 2: pass\n# e\n", "#!shebang\n# -*- coding: utf-8 -*-\nx\n",
    "x\r\n# c\r\n\r\ny\r\n", "x\r# c\r\ry\r", "\x0c# c\n", "\t# c\nx", "'''doc'''  # c\n\n# d\nx\n", "try:\n    a\n# c\nexcept E:\n    # d\n    b\n",
    "if a:\n    b\n# c\nelse:\n    c\n", "@dec  # c\n# d\n\ndef f(): pass\n", "x = {  # c\n  1: 2,  # d\n\n}\n", "lambda: (  # c\n 1)\n", "f'{x}'  # c\n", "f'''\n# not a comment\n{x}'''\n",
    "x = '# not a comment'\n", "x  #\n", "#\n", "#\n#\n\n#", "x;  # c\n", "x; y  # c\n", "if a: b  # c\n", "if a: b;  # c\n", "with a: # c\n\n  # d\n  pass\n",
    "async def f():  # c\n  await x  # d\n", "match x:  # c\n  case {'a': 1}:  # d\n    pass  # e\n", "type X[  # c\n  T  # d\n] = T  # e\n", "type X = (  # c\n  int\n)\n",
]

INVALID_CORPUS = [
    "(", ")", "x = (", "[1, 2", "'abc", "'''abc", "f'{x'", "f'{a b}'", "1 +", "a b", "def", "def f(:", "def f(a, a): pass", "f(a=1, a=2)", "f(**k, *a)",
    "if a:\nb", "if a:\n  b\n c", "  x\n y", "x = $", "0777", "1__0", "0b12", "1e", "0x", "0o", "0b", "0x_", "0_", "1_", "0xg", "1.e_5", "1_.0", "1e_5", "1e+_5",
    "# c\n(", "x  # c\n  y  # d\n", "if a:  # c\n# d\nb\n", "match x:\n  # c\ncase 1: pass\n", "type X[  # c\n", "# c\ntype X = \n", "(  # c\n", "x = [  # c\n\n",
    "match x:  # c\n", "# c\n  x\n", "if a:\n\t# c\n        b\n\tc\n", "'''\n# c\n", "\\\n# c\nx", "x \\\n# c\n", "x \\  # c\n", "# c\n)\n", "type X[(]\n= int)\n",
    "type X[T] # c\n= int\n", "# c\ntype X Y = int\n", "match x # c\n: pass\n", "case 1:  # c\n pass\n",
]


def _layout_exhaustive(maxlen):
    import itertools
    for n in range(1, maxlen + 1):
        for tup in itertools.product(PIECES, repeat=n):
            yield "".join(tup)


def _inject_layout(rng, src):
    """add comments / blank lines / trailing whitespace at line ends; never inside a string that spans lines"""
    lines = src.split("\n")
    out = []
    in_triple = False
    for ln in lines:
        trip = ln.count("'''") + ln.count('"""')
        safe = not in_triple and trip == 0 and not ln.rstrip().endswith("\\") and "'" not in ln and '"' not in ln
        if trip % 2 == 1:
            in_triple = not in_triple
        if safe and rng.random() < 0.4:
            ind = ln[:len(ln) - len(ln.lstrip())]
            r = rng.random()
            if r < 0.35:
                ln = ln + "  # c"
            elif r < 0.6:
                out.append(rng.choice(["", "   ", "# c", ind + "# c", "\t# c"]))
            elif r < 0.8:
                out.append("")
                out.append(ind + "# c")
                out.append("")
            else:
                ln = ln + "   "
        out.append(ln)
    return "\n".join(out)


def _gen_valid(rng, n):
    out = []
    try:
        import gen_program
        for i in range(n):
            g = gen_program.Gen(rng, depth=rng.choice([2, 3, 4, 5]), stmts=(1, rng.choice([2, 4, 8])))
            out.append(("e", g.expression_program().text) if i % 5 == 0 else ("m", g.program().text))
    except Exception:
        pass
    return out


def _mutate(rng, s):
    if not s:
        return "("
    k = rng.randrange(7)
    i = rng.randrange(len(s))
    if k == 0:
        return s[:i] + s[i + 1:]
    if k == 1:
        return s[:i] + rng.choice("()[]{}:,'\"\\\n \t#=*$") + s[i:]
    if k == 2:
        return s[:i]
    if k == 3:
        j = rng.randrange(len(s))
        i, j = min(i, j), max(i, j)
        return s[:i] + s[j:]
    if k == 4:
        return s[:i] + s[i:].replace("\n", "\n ", 1)
    if k == 5:
        return s[:i] + "  # c\n" + s[i:]
    return s[:i] + rng.choice(["else", "in", "\n  ", "f'{", "'''", "match ", "type ", "case "]) + s[i:]


def _int_literals(rng, n):
    out = ["0", "00", "0_0", "1", "10", "1_0", "1_000_000", "0x0", "0xff", "0XFF", "0x_f", "0xF_f", "0o17", "0O17", "0o_1_7", "0b101", "0B1_0",
           "0b_1", "07", "0_7", "007", "1__0", "1_", "_1", "0x", "0o", "0b", "0x_", "0xg", "0o8", "0b2", "1j", "1.0", "1e5", "0_x1", "0xx1", "1a",
           "9" * 19, "9" * 20, "1" + "0" * 38, "1" + "0" * 39, str(2 ** 63 - 1), str(2 ** 63), str(2 ** 64 - 1), str(2 ** 64), str(2 ** 128),
           "0x" + "f" * 16, "0x" + "f" * 17, "0x1" + "0" * 32, "0o" + "7" * 22, "0o1" + "0" * 22, "0b" + "1" * 64, "0b1" + "0" * 64,
           str(10 ** 400), "0x" + "ab" * 300, "0b" + "10" * 600, "0o" + "1234567" * 100, str(3 ** 2000), "1" + "_0" * 500]
    digs = {2: "01", 8: "01234567", 10: "0123456789", 16: "0123456789abcdefABCDEF"}
    pre = {2: ["0b", "0B"], 8: ["0o", "0O"], 10: [""], 16: ["0x", "0X"]}
    for _ in range(n):
        base = rng.choice([2, 8, 10, 16])
        ln = rng.choice([1, 2, 5, 18, 19, 20, 21, 38, 39, 40, 64, 65, 100, 300, 1000])
        body = "".join(rng.choice(digs[base]) for _ in range(ln))
        if base == 10:
            body = body.lstrip("0") or "0"
        if rng.random() < 0.4 and len(body) > 2:
            i = rng.randrange(1, len(body))
            body = body[:i] + "_" + body[i:]
        if rng.random() < 0.1:
            body = rng.choice(["_", "__", "", "0", "g"]) + body
        out.append(rng.choice(pre[base]) + body)
    return out


def _stdlib_files(rng, n, maxsize):
    root = os.path.dirname(os.__file__)
    files = []
    for dp, dn, fn in os.walk(root):
        dn[:] = [d for d in sorted(dn) if d not in ("site-packages", "__pycache__", "lib2to3", "idlelib")]
        for f in sorted(fn):
            if f.endswith(".py"):
                files.append(os.path.join(dp, f))
    rng.shuffle(files)
    out = []
    for p in files:
        if len(out) >= n:
            break
        try:
            b = open(p, "rb").read()
            if len(b) > maxsize or not b:
                continue
            t = b.decode("utf-8")
            pyast.parse(t)
        except Exception:
            continue
        out.append(t)
    return out


# ------------------------------------------------------------------ streams

def streams(ctx):
    quick = ctx.quick
    kinds = _optional_kinds()
    out = []
    bins = {f: _bin(f) for f in BUILDS}

    def parse_req(mode, src):
        return "parse %s %s %s" % (mode, hexs(src), kinds)

    def four_builds(name, items, kind, note="", base_wrap=None, exhaustive=False):
        """items: [(mode, src)] -> one stream per build; non-default builds are judged against the default build's answers"""
        reqs = []
        seen = set()
        for m, s in items:
            try:
                s.encode("utf-8")
            except UnicodeEncodeError:
                continue
            r = parse_req(m, s)
            if r not in seen:
                seen.add(r)
                reqs.append(r)
        base = dict(zip(reqs, core.run_lines([bins["default"]], reqs, jobs=8)))
        nt = (lambda r: r.split()[2] != "-")
        out.append(Stream(name + "@default", reqs, kind=kind, compare=False, exhaustive=exhaustive,
                          oracle=(base_wrap(oracle) if base_wrap else oracle), nontrivial=nt,
                          note=note + " — reference answers; judged alone: no panic, canonical form complete"))
        for b in BUILDS[1:]:
            out.append(Stream(name + "@" + b, reqs, kind=kind, compare=False, exhaustive=exhaustive,
                              harness={"bin": "pvh_c10", "features": b}, oracle=_versus(b, base), nontrivial=nt,
                              note="same requests, answers must equal the default build's"))

    # 0. configuration of each binary really is what its name says
    want_cfg = {"default": "full-lexer=0 all-ranges=0 bigint=malachite", "full-lexer": "full-lexer=1 all-ranges=0 bigint=malachite",
                "all-ranges": "full-lexer=0 all-ranges=1 bigint=malachite", "num-bigint": "full-lexer=0 all-ranges=0 bigint=num"}
    for b in BUILDS:
        out.append(Stream("cfg@" + b, ["cfg"], kind="directed", compare=False,
                          harness={"bin": "pvh_c10", "features": b},
                          oracle=(lambda w: (lambda req, o: None if o == w else "binary reports %s, expected %s" % (o, w)))(want_cfg[b])))

    # 1. regression probes of the repaired finding (commit e335017): a recurrence is a violation
    four_builds("regression-probe", [("m", "type X[(] # c\n= int)\n"), ("m", "type X[T] = (  # c\n\n  int)\n"),
                                     ("m", "type X[(]\n\n# c\n= int)\n")], "directed",
                note="the `type` soft-keyword look-ahead meets Comment / NonLogicalNewline tokens")

    # 2. modelled operations, every build against the Lean model
    rng = ctx.rng("ints")
    lits = _int_literals(rng, 1500 if quick else 20000)
    reqs = list(dict.fromkeys("int " + hexs(t) for t in lits))
    for b in BUILDS:
        out.append(Stream("int-literals@" + b, reqs, kind="random", harness={"bin": "pvh_c10", "features": b},
                          note="value of an integer literal: this build vs the Lean model (reference backend) and vs CPython"))
    pts = [0, 1, 2, 3, 7, 2 ** 31, 2 ** 32 - 2, 2 ** 32 - 1]
    for b in ("default", "all-ranges"):
        flag = "1" if b == "all-ranges" else "0"
        out.append(Stream("optional-range-new@" + b, ["optr %s %d %d" % (flag, a, c) for a in pts for c in pts],
                          kind="exhaustive", exhaustive=True, harness={"bin": "pvh_c10", "features": b},
                          note="OptionalRange::new on all pairs of boundary offsets"))

    # 3. layouts: comments, blank lines, soft keywords after comment lines
    L = 3 if quick else 4
    items = ([("m", s) for s in LAYOUT_CORPUS] + [("i", s) for s in LAYOUT_CORPUS[::3]] + [("m", s) for s in BRACKET_CORPUS]
             + [("m", s) for s in _layout_exhaustive(L)])
    four_builds("layout", items, "exhaustive", exhaustive=True,
                note="comment-/blank-line-heavy texts; all sequences of <=%d pieces from a %d-piece alphabet with soft keywords" % (L, len(PIECES)))

    # 3a. every public way into the parser, not only `parse`: the typed `Parse` impls of parser.rs (Suite, Stmt, Expr,
    #     Identifier, Constant, the three Mod types, two typed statement/expression nodes) and parse_tokens over the lexer's
    #     own stream, on token-less / comment-only / blank-line texts (where the full lexer emits trivia tokens and the default
    #     lexer emits nothing) and on short statements surrounded by trivia
    tokenless = ["", " ", "\t", "\x0c", "\n", "\r\n", "\n\n", "# c", "# c\n", "  # c\n", "\n    # x\n", "# a\n# b\n", "\n# c\n\n",
                 "\\\n", " \\\n \n", "\ufeff", "\ufeff# c\n"]
    short = ["x", "x\n", "x # c", "x # c\n", "# c\nx\n", "\n\nx\n", "x\n# c\n", "x\n\n# c\n\n", "x = 1", "x = 1 # c\n", "# c\nx = 1\n# d\n",
             "pass", "pass # c\n", "# c\npass", "x = 1\ny = 2\n", "x = 1\n# c\ny = 2\n", "x;y", "1", "1 # c", "'a'", "'a' # c\n 'b'", "(a, # c\n b)",
             "(\n# c\n1\n)", "if a:\n  # c\n  b\n", "if a: # c\n  b\n# d\n", "def f(): pass # c\n", "match x:\n  # c\n  case _: pass\n",
             "type X = int # c\n", "# c\ntype X = int\n", "1 +", "x = # c\n", "(", "# c\n)", "x y", "  x", "\n  x\n", "x\n  y\n",
             "\u00a0", "\n\u3000\n", "\n\x0b\n", "\u0085", " \t", "\x1c", "\u2028", "\u00a0# c", "x\u00a0"]
    ep = [(m, t) for t in tokenless + short + LAYOUT_CORPUS[::2] for m in ("S", "s", "x", "n", "c", "M", "I", "E", "a", "p", "N", "tm", "ti", "te")]
    four_builds("entry-points", ep, "directed",
                note="%d texts (token-less, comment-only, short statements with trivia) x 14 entry points: typed Parse impls and parse_tokens(lex)" % (len(ep) // 14))

    # 3b. every directed shape of tools/shapes.py (parameter-list sections, with-items of every expression kind, rare
    #     productions): the four builds must agree on grammar regions random generation seldom reaches
    import shapes
    sh = shapes.all_shapes()
    four_builds("directed-shapes", [("m", "".join(sh[i:i + 25])) for i in range(0, len(sh), 25)], "directed",
                note="%d directed texts in batches of 25 statements" % len(sh))

    # 4. invalid programs: errors must be identical (kind and offset)
    rng = ctx.rng("invalid")
    valid = _gen_valid(ctx.rng("valid"), 700 if quick else 8000)
    pool = [s for _, s in valid] + LAYOUT_CORPUS
    bad = [("m", s) for s in INVALID_CORPUS] + [("e", s) for s in INVALID_CORPUS[::2]]
    import shapes as _shapes
    bad += [("m", s) for s in _shapes.rule_violations()]          # every self-enforced rule, compact and spaced spellings
    for _ in range(2500 if quick else 40000):
        s = _mutate(rng, rng.choice(pool)) if pool else "("
        if rng.random() < 0.5:
            s = _inject_layout(rng, s)
        bad.append((rng.choice("mmmei"), s))
    four_builds("invalid", bad, "malformed", note="corpus + single-edit mutations (half of them with injected comments/blank lines)")

    # 5. valid programs, plain and with injected layout
    rng = ctx.rng("layout-inject")
    items = list(valid) + [(m, _inject_layout(rng, s)) for m, s in valid if m == "m"]
    four_builds("valid-generated", items, "random", note="type-directed generated programs, each also with injected comments and blank lines")

    # 6. real programs (comment-heavy by nature)
    files = _stdlib_files(ctx.rng("stdlib"), 150 if quick else 1200, 120000 if quick else 400000)
    four_builds("stdlib-files", [("m", t) for t in files], "corpus", note="CPython standard-library sources accepted by ast.parse")

    # 7. integers inside programs, every base, both backends, against CPython
    rng = ctx.rng("int-programs")
    good = [t for t in lits if _py_int_literal(t) is not None]
    progs = []
    for i in range(0, len(good), 6):
        chunk = good[i:i + 6]
        progs.append(("m", "".join("x%d = %s  # %d\n" % (j, t, j) for j, t in enumerate(chunk)) + "y = [%s]\n" % ", ".join("-" + t for t in chunk)))
    four_builds("integers-in-programs", progs, "random", base_wrap=_int_values_oracle,
                note="huge integer literals in bases 2/8/10/16; default build judged against CPython's values, the others against it")
    # 8. every numeral family at every conversion boundary, plain / underscored / imaginary: acceptance, value and error must be
    #    the same in the four builds (a backend may only be consulted for what the contract fixes), and are CPython's
    rng = ctx.rng("numerals")
    nums = _numerals(rng, 400 if quick else 6000)
    four_builds("numerals", [("m", "x = %s\n" % t) for t in nums] + [("e", t) for t in nums[::7]], "random", base_wrap=None,
                note="decimal/hex/octal/binary integers, floats with huge and tiny exponents, imaginary forms of each (<digits>j, "
                     "<digits>.j, <float>j, leading zeros), around 2^63, 2^64, 2^127/128, f64::MAX, 10^308..10^310, 2^1024, 400- and "
                     "5000-digit integers, with underscores")
    # judged against CPython as well (module-mode requests only: `x = <numeral>`)
    for st in out:
        if st.name == "numerals@default":
            st.oracle = (lambda inner: (lambda req, o: inner(req, o) if req.split()[1] == "m" else oracle(req, o)))(_numeral_oracle(oracle))
    return out
