"""C13 — row/column locations are correct and independent of the locator used."""
import ast
import bisect
import itertools
import os
import re

import core
from core import Stream, hexs, unhex

import c12_translate as T          # regenerates lean/PV/Gen/C12{Schema,FoldProg,…}.lean from ast/src/gen/*.rs
from props import c12 as C12       # Debug text -> generic tree words (the encoding the C12 driver reads)

ID = "C13"
DESIGN_REF = "DESIGN.md section 5, C13; design/C13.md"
LEAN_TARGETS = ["PV.C13.Thm", "PV.C13.ParsedThm", "PV.C13.SpansThm", "PV.C13.SpansLexer", "PV.C13.CrlfStep",
                "PV.C13.CrlfClear", "PV.C13.FStrThm"]
DRIVER = "drv_c13"
HARNESS = {"bin": "pvh_c13", "features": "default"}
THEOREMS = [
    "PV.C13.random_eq_spec",
    "PV.C13.linear_eq_spec",
    "PV.C13.linear_eq_spec_utf8",
    "PV.C13.linear_eq_spec_monotone",
    "PV.C13.linear_eq_random",
    "PV.C13.locateOnly_pure",
    "PV.C13.linear_requires_order",
    "PV.C13.classdef_keyword_before_starred_base_forward",
    "PV.C13.linear_any_order_fails",
    "PV.C13.validUtf8_lineStartsOk",
    "PV.C13.codePoints_utf8Encode",
    # tree level: the located fold (regenerated fold program + LinearLocator overrides)
    "PV.C13.locHistory_forward",
    "PV.C13.locHistory_results",
    "PV.C13.fold_locations_eq_spec",
    "PV.C13.fold_random_eq_spec",
    "PV.C13.srcOrdered_inDomain",
    "PV.C13.fold_linear_eq_random",
    "PV.C13.locWF_gen",
    "PV.C13.locHistory_forward_gen",
    "PV.C13.fold_locations_eq_spec_gen",
    "PV.C13.fold_linear_eq_random_gen",
    "PV.C13.fold_requires_order",
    "PV.C13.fold_any_order_fails",
    "PV.C13.fstring_concat_pieces",
    "PV.C13.ordT_node_split",
    # parser level: the trees the program-parser MODEL (PV.C02.parseRProgram) produces are SrcOrdered
    "PV.C13.srcOrdered_of_ordM",
    "PV.C13.toTree_conforms",
    "PV.C13.ordM_locations_eq_spec",
    "PV.C13.ordM_linear_eq_random",
    "PV.C13.ordAt",
    "PV.C13.parseRProgram_ordM",
    "PV.C13.parsed_ordM",
    "PV.C13.parsed_tree_srcOrdered",
    "PV.C13.parsed_tree_history_forward",
    "PV.C13.parsed_tree_locations_eq_spec",
    "PV.C13.parsed_tree_linear_eq_random",
    "PV.C13.parsed_tree_srcOrdered_full_fails",
    "PV.C13.fstring_findings_reproduced",
    "PV.C13.bom_tokenless_module_all_ranges",
    # f-strings one level deep (round of 2026-09-30, third part)
    "PV.C13.fstr_pieces_ordered",
    "PV.C13.strings_single_fstr_jOrd",
    "PV.C13.strings_fstr_weak",
    "PV.C13.ow_joined",
    "PV.C13.single_fstr_token_walkable",
    "PV.C13.nw_joined",
    "PV.C13.F.srcOrdered_of_ordM",
    "PV.C13.fordM_srcOrdered",
    "PV.C13.fordM_locations_eq_spec",
    "PV.C13.fordM_linear_eq_random",
    "PV.C13.fstr_concat_not_fordM",
    "PV.C13.fstr_crlf_not_tied",
    # OffsOk (output) derived from SpansOk (input: the lexer's token spans)
    "PV.C13.toTree_allOff",
    "PV.C13.rangesOk_of_tokens",
    "PV.C13.parsed_offsets_token_ends",
    "PV.C13.offsOk_of_spansOk",
    "PV.C13.parsed_tree_srcOrdered'",
    "PV.C13.parsed_tree_locations_eq_spec'",
    "PV.C13.parsed_tree_linear_eq_random'",
    "PV.C13.offsOk_of_spansOk_needs_side",
    "PV.C13.offsOk_of_spansOk_needs_plain",
    "PV.C13.spansOk_of_tiledP",
    "PV.C13.lexed_spansOk",
    # ... and for the tokens of the lexer model: BOM part (lexed_initCursor_le); with CrlfClear as a hypothesis
    "PV.C13.lexed_initCursor_le",
    "PV.C13.lexed_spansOk_of_crlfClear",
    "PV.C13.lexed_parsed_tree_locations_eq_spec",
    "PV.C13.lexed_parsed_tree_linear_eq_random",
    # CrlfClear proved of the lexer model (CrlfStep.lean: one step; CrlfClear.lean: the stream, chars -> bytes), and the
    # capstones without any hypothesis about offsets
    "PV.C13.Crlf.lexNumber_noCR",
    "PV.C13.Crlf.consumeCharacter_clear",
    "PV.C13.Crlf.consumeNormal_clear",
    "PV.C13.Crlf.eatIndent_clear",
    "PV.C13.Crlf.handleIndentations_clear",
    "PV.C13.Crlf.step_clear",
    "PV.C13.lexAll_clear",
    "PV.C13.lexed_chars_clear",
    "PV.C13.split_of_insideCrlf",
    "PV.C13.lexed_crlfClear_spanned",
    "PV.C13.lexed_crlfClear",
    "PV.C13.lexed_spansOk'",
    "PV.C13.onBoundary_after_ascii",
    "PV.C13.lineStartsOk_utf8Encode",
    "PV.C13.lexed_parsed_tree_srcOrdered'",
    "PV.C13.lexed_parsed_tree_locations_eq_spec'",
    "PV.C13.lexed_parsed_tree_linear_eq_random'",
]
TRUSTED = [
    "Lean 4.33.0 kernel; axioms limited to propext, Classical.choice, Quot.sound",
    "hand-written model lean/PV/C13/Model.lean of core/src/source_code.rs (LinearLocatorState, LinearLocator::locate/"
    "locate_only/locate_inner/locate_error, RandomLocator) on top of the C15 model of LineIndex::source_location; tied to "
    "the code by replaying, through the model, the exact call sequence the real LinearLocator performed while folding "
    "each test program (hook core::source_code::verif_trace behind --cfg rustpython_parser_verif) and by exhaustive "
    "small-scope call sequences on a directly driven locator",
    "the model of the located fold lean/PV/C13/Fold.lean: a generic interpreter (foldLoc) over (a) the fold program "
    "regenerated on every run from ast/src/gen/fold.rs by tools/c12_translate.py (order of the fold calls, presence of "
    "will_map_user/map_user; that every field is folded once and put back into the same field is C12's FoldWF, re-proved "
    "by `decide` here as part of LocWF) and (b) the hand-transcribed overrides of ast/src/source_locator.rs "
    "(lean/PV/C13/Overrides.lean: fold_stmt_function_def, fold_stmt_async_function_def, fold_stmt_class_def, "
    "fold_expr_if_exp, fold_expr_dict, fold_expr_call, fold_pattern_match_mapping as Plans; fold_expr_joined_str / "
    "linear_locate_expr_joined_str / LinearLookaheadLocator in Fold.lean). Tied to the code on every run by the `*-fold` "
    "streams: on the tree the real parser produced (attached to the request) the driver computes the call history, the "
    "located trees of both locators, Forward and SrcOrdered, byte-identical with what the real fold did (recorded calls, "
    "every node's located range from derive(Debug) of the located trees)",
    "the program-parser model PV.C02.parseRProgram (lean/PV/C02/RProg.lean, RParse.lean; C02's trusted base: ranges read off "
    "python.lalrpop / function.rs / string.rs, tied by C02's ranged-program-model streams) and the conversion "
    "lean/PV/C13/Parsed.lean toTree of its result into the generic tree (kind ids and field order guarded by kernel-checked "
    "examples against the regenerated schema; leaf payloads not represented: the fold never inspects them). Tied to the code on "
    "every run by the `*-pfold` streams: the model parser is run on the REAL tokens and spans, its tree must equal the real "
    "parser's tree up to leaf payloads (skel), and the fold model run on the model's tree must answer byte-for-byte what the real "
    "fold did on the real parse; the hypotheses and conclusions of the parser-level theorems are re-evaluated on every such input",
    "for lexed_*: the lexer model PV.Lexer.lex (lean/PV/Lexer/*.lean; C05's trusted base, tied to lexer.rs by C05's own streams) "
    "and C05's theorems tokens_in_bounds / tokens_on_boundaries / tokens_ordered_disjoint through PV.C02.tiledP_of_lexer; "
    "UParams.Sane (CR, LF are no identifier characters, XID_Start within XID_Continue: checked on the real tables for every "
    "scalar value by C05's pre_build); the token VALUES of the lexer model and of the parser model are not related by a "
    "theorem (spans only), as in C02",
    "memchr2/memrchr2 modelled as first/last index of LF or CR; str::chars().count() on valid UTF-8 = number of "
    "non-continuation bytes; source length < 2^32",
    "tools/props/c13.py (generators, independent Python reference for row/column), tools/props/c12.py + "
    "tools/c12_translate.py (Debug text -> generic tree; schema), harness/src/bin/pvh_c13.rs (incl. its scanner of "
    "derive(Debug) output), lean/Drv/C13.lean; rustpython_parser::parse as the source of trees",
]
PARTIAL = [
    "parser-produced trees are SrcOrdered BY THEOREM only at model level and only for trees without f-string pieces "
    "(parsed_tree_srcOrdered': hypotheses TiledP = C05's lexer theorem, SpansOk, plainM, NotBomTokenless). plainM excludes ALL "
    "f-strings (C02's window facts do not cover replacement fields: their inner span table is not shown to tile the source), "
    "which is more than the two listed f-string findings that live there (fstring_findings_reproduced; "
    "offsOk_of_spansOk_needs_plain: with an f-string an offset need not be a token boundary); for trees with f-strings "
    "SrcOrdered is still evaluated per tree (`*-fold` / `*-pfold` streams, evidence coverage.src_ordered_on_real_trees and "
    "coverage.ordM_on_model_parsed_trees). f-strings ONE LEVEL DEEP (round 3): proved are the f-string step of the parser "
    "model for ONE token that is not part of an implicit concatenation (fstr_pieces_ordered, strings_single_fstr_jOrd: its "
    "JoinedStr is laid out as fold_expr_joined_str visits it; single_fstr_token_walkable: and the fold model walks it) and the "
    "whole TREE half (F.srcOrdered_of_ordM, fordM_locations_eq_spec, fordM_linear_eq_random: for every ranged tree with "
    "F.ordM, f-strings at any expression position); NOT proved is that the parser model's trees in the decidable domain "
    "fplainOrd (fplainM1, no f-string token inside an implicit concatenation) under C02's tie FTiedP are F.ordM "
    "(parsed_ordM_fstr_full, stated): the two parser inductions have to be re-run over C02's tied induction F.soundAt / "
    "F.compSAt (design/C13.md says how); evaluated instead: 651 of 651 corpus programs in the domain are F.ordM. The listed "
    "findings stay outside: fstr_concat_not_fordM (concatenation: outside fplainOrd, F.ordM false), fstr_crlf_not_tied "
    "(CR LF inside the literal: FTiedP false)",
    "OffsOk (every offset of the OUTPUT tree on a character boundary, not between a CR and its LF, not inside a leading BOM) is "
    "no longer a hypothesis: offsOk_of_spansOk derives it from SpansOk, the same three facts about the starts and ends of the "
    "INPUT tokens (parsed_offsets_token_ends: every offset of a plain parser-built tree is a token start or end), except for "
    "the one shape of the listed finding linear-bom-tokenless-module-all-ranges (NotBomTokenless; offsOk_of_spansOk_needs_side). "
    "Of SpansOk, (a) character boundaries is part of TiledP (spansOk_of_tiledP), (c) 'no token starts inside a leading BOM' "
    "(lexed_initCursor_le) and (b) 'no token starts or ends between a CR and its LF' (CrlfClear: lexed_crlfClear, for every "
    "text, both lexer configurations, every sane Unicode table — step_clear / lexAll_clear: no step of the lexer model stops "
    "or pushes a token between a CR and its LF; split_of_insideCrlf: character positions to byte offsets) are all PROVED of "
    "the lexer model, and LineStartsOk (what the locator theorems need of valid UTF-8) holds for the encoding of every list of "
    "scalar values (lineStartsOk_utf8Encode), so lexed_parsed_tree_*' have NO hypothesis about offsets or about the text left "
    "(what remains: Sane Unicode tables, plainM, NotBomTokenless); SpansOk is additionally evaluated on the REAL token spans of every `*-pfold` "
    "request (chk=ok requires the spans tiled and SpansOk; evidence coverage.ordM_on_model_parsed_trees.spans_not_ok = 0)",
    "the parser-level theorems are about the MODEL parser PV.C02.parseRProgram on real token values; that the model computes "
    "the real parser's ranges is sampled by the `*-pfold` streams here and by C02's ranged-program-model streams, not proved",
    "the property's literal 'whatever order the tree's nodes appear in' is false for the LinearLocator "
    "(fold_any_order_fails, fold_requires_order): it needs the tree in fold order",
    "the overrides of ast/src/source_locator.rs are transcribed by hand (not regenerated); a change there shows up as a "
    "disagreement of the `*-fold` streams",
    "panics of the fold itself (unreachable!() on a JoinedStr holding something else than Constant/FormattedValue, "
    "assert_eq! on a Dict with different numbers of keys and values) are `none` in the model and outside SrcOrdered; "
    "the parser never builds such trees, so they are not exercised",
    "feature all-nodes-with-ranges is covered by the generic theorems (rangeMode 2 kinds carry a range then) but the "
    "check only builds the default feature set; with that feature and a BOM the Module node starts at offset 0, before "
    "the initial cursor, so such trees are not SrcOrdered",
    "offsets between a CR and its LF are outside linear_eq_spec / SrcOrdered (InDomain); random_eq_spec covers them",
    "source length < 2^32 assumed (OneIndexed saturation not modelled)",
    "release-semantics build flavour (dbg = false) is tied to the code in the thorough tier only",
]
READY = True
TECHNIQUE = ("Lean 4 theorems over a hand-written byte-level model of both locators and a generic model of the located "
             "fold (fold program regenerated from ast/src/gen/fold.rs + transcribed LinearLocator overrides), by induction "
             "over a schema-generic tree for every well-formed fold configuration + `decide` that the regenerated one is "
             "well-formed; correspondence on recorded real call sequences and located trees; independent Python oracle on "
             "every node position")
LEVEL_TEXT = ("Machine-checked Lean 4 theorems. Locators (texts and call histories of every length): the indexed locator "
              "returns the reference (row, column) on every character-boundary offset; the incremental locator, in both "
              "build flavours, returns the reference (row, column) at every call of every forward history of locate / "
              "locate_only / locate_error calls and never panics, hence agrees with the indexed locator; locate_only never "
              "changes the state. Trees (every size and shape, every fold configuration that is LocWF; the regenerated "
              "fold program of the 80 real node kinds plus the LinearLocator overrides is shown LocWF by kernel `decide`): "
              "for every conforming tree that is SrcOrdered, the calls LinearLocator::fold makes form a forward history "
              "(locHistory_forward), the located tree it returns is the input tree with every range (a, b) replaced by "
              "(rowCol a, rowCol b) (fold_locations_eq_spec), and it equals the tree RandomLocator::fold returns "
              "(fold_linear_eq_random); RandomLocator::fold is right on every tree with boundary offsets whatever their "
              "order (fold_random_eq_spec). Kernel-checked witnesses show what happens otherwise: with the pre-fix fold "
              "order of class keywords the real class trees are not SrcOrdered and the fold panics (debug) or stores a wrong "
              "position (release); a tree with exchanged operands refutes the literal any-order statement. The models are "
              "tied to the Rust code on every run: recorded call sequences replayed through the locator model, and, on "
              "the tree the real parser produced, the fold model's call history and both located trees compared "
              "byte-for-byte with the real fold's; the real code is additionally judged on every node position by an "
              "independent Python reference. Parser output (model level): for token spans that tile the source and start / "
              "end at positions the locator accepts (SpansOk: a fact about the lexer's output, PROVED of the lexer model for "
              "every text — character boundaries by C05, behind a leading BOM by lexed_initCursor_le, never between a CR and "
              "its LF by lexed_crlfClear), every tree without f-string pieces that the program-parser model builds is "
              "SrcOrdered, so both sentences of the property hold for it (parsed_tree_locations_eq_spec', "
              "parsed_tree_linear_eq_random'; from ANY text through lexer model, parser model and fold model with no "
              "hypothesis about offsets or UTF-8 validity: lexed_parsed_tree_locations_eq_spec', "
              "lexed_parsed_tree_linear_eq_random'): every "
              "offset of such a tree is a token start or end (parsed_offsets_token_ends) and the fields of every node lie in "
              "fold order (parsed_ordM).")
LEVEL_NOTE = ("Trusted: Lean kernel (axioms propext/Classical.choice/Quot.sound only); fidelity of the hand-written locator "
              "model and of the transcribed overrides as sampled by the correspondence; the C12 translator for the "
              "generated fold; the parser-level theorems speak about the model parser of C02 (tied per input by the pfold streams) and "
              "exclude f-strings (evaluated per tree there); Rust std "
              "contracts (memchr, chars().count(), is_char_boundary); harness, hook, generators and the Python reference.")
RULE = ("request lines sent to the real crates (and, for fold/trace/locseq/spec requests, to the Lean model); distinct = "
        "distinct request line; non-trivial = the program has at least one located node / the text is non-empty")

BOM = "\ufeff"

# A second build flavour of the same harness binary (feature set `nodebug` of tools/core.py): no debug
# assertions, no overflow checks (what a release build of the crates does: the LinearLocator has no
# self-check and `u32` subtraction wraps). Only built in the thorough tier.
HARNESS_R = {"bin": "pvh_c13", "features": "nodebug"}
EXTRA_HARNESS = [HARNESS_R, {"bin": "pvh_c13", "features": "all-ranges"}]

# ------------------------------------------------------------------ independent reference


class Ref:
    """Row/column straight from the text: CR, LF, CRLF are one break each; columns count characters;
    a BOM at the very start is not counted."""

    def __init__(self, b):
        self.b = b
        starts = [0]
        i, n = 0, len(b)
        while i < n:
            c = b[i]
            if c == 13 and i + 1 < n and b[i + 1] == 10:
                i += 2
                starts.append(i)
            elif c == 10 or c == 13:
                i += 1
                starts.append(i)
            else:
                i += 1
        self.starts = starts
        self.bom = b.startswith(BOM.encode())

    def rowcol(self, off):
        k = bisect.bisect_right(self.starts, off) - 1
        ls = self.starts[k]
        seg = self.b[ls:off].decode("utf-8")
        if k == 0 and self.bom and seg.startswith(BOM):
            seg = seg[1:]
        return k + 1, len(seg) + 1

    def show(self, off):
        r, c = self.rowcol(off)
        return f"{r},{c}"

    def boundary(self, off):
        b = self.b
        return 0 <= off <= len(b) and (off == len(b) or (b[off] & 0xC0) != 0x80)

    def inside_crlf(self, off):
        b = self.b
        return 0 < off < len(b) and b[off - 1] == 13 and b[off] == 10

    def in_domain(self, off):
        """offsets a node of a parsed tree can have"""
        return self.boundary(off) and not self.inside_crlf(off) and not (self.bom and off < 3)


_NODE = re.compile(r"^([A-Za-z]+):(\d+)-(\d+):([^:]+):([^:]+)$")


def _parse_locate(out):
    m = re.match(r"parse=ok walk=(\S+) lin=(\S+) rnd=(\S+) n=(\d+) nodes=(\S+) trace=(\S+)$", out)
    if not m:
        return None
    nodes = []
    if m.group(5) != "-":
        for item in m.group(5).split(";"):
            mm = _NODE.match(item)
            if not mm:
                return None
            nodes.append((mm.group(1), int(mm.group(2)), int(mm.group(3)), mm.group(4), mm.group(5)))
    trace = [] if m.group(6) == "-" else m.group(6).split(";")
    return {"walk": m.group(1), "lin": m.group(2), "rnd": m.group(3), "nodes": nodes, "trace": trace}


def _node_problems(ref, d):
    """list of (kind, start, end, which, got, expected)"""
    probs = []
    for kind, s, e, lin, rnd in d["nodes"]:
        exp = f"{ref.show(s)}-{ref.show(e)}"
        if rnd != exp:
            probs.append((kind, s, e, "RandomLocator", rnd, exp))
        if d["lin"] == "ok" and lin != exp:
            probs.append((kind, s, e, "LinearLocator", lin, exp))
    return probs


_FNODE = re.compile(r"^([A-Za-z]+):(\d+)-(\d+):(\S+)$")

# real trees seen by the `fold` streams: how many satisfy SrcOrdered (as observed on the real side: forward,
# panic-free fold on which both locators agree; the model side prints decide (SrcOrdered …) in the same place)
ORDERED_STATS = {"trees": 0, "src_ordered": 0, "not_src_ordered": 0, "not_src_ordered_examples": []}


def _parse_fold(out):
    """answer of a `fold` request -> the same dictionary `_parse_locate` gives for a `locate` answer"""
    m = re.match(r"ops=(\S+) fwd=(true|false) ordered=(true|false) lin=(ok|panic) nodes=(\S+) rnd=(\S+)$", out)
    if not m:
        return None
    trace = [] if m.group(1) == "-" else m.group(1).split(";")
    lin = m.group(4)
    if lin == "panic" and trace:
        trace[-1] += "=none"
    rnd = [] if m.group(6) in ("-", "panic") else m.group(6).split(";")
    nodes = []
    if m.group(5) != "-":
        items = m.group(5).split(";")
        if len(items) != len(rnd):
            return None
        for item, r in zip(items, rnd):
            mm = _FNODE.match(item)
            if not mm:
                return None
            nodes.append((mm.group(1), int(mm.group(2)), int(mm.group(3)), mm.group(4), r))
    return {"walk": "ok", "lin": lin, "rnd": "panic" if m.group(6) == "panic" else "ok", "nodes": nodes, "trace": trace,
            "fwd": m.group(2) == "true", "ordered": m.group(3) == "true"}


def _judge_located(ref, d):
    if d["rnd"] != "ok":
        return "RandomLocator fold panicked"
    probs = _node_problems(ref, d)
    if d["lin"] != "ok":
        last = d["trace"][-1] if d["trace"] else "?"
        return f"LinearLocator fold panicked at call {len(d['trace']) - 1} ({last}); trace so far: {';'.join(d['trace'][-6:])}"
    if probs:
        k, s, e, which, got, exp = probs[0]
        return f"{which}: node {k} {s}..{e} located {got}, text says {exp} ({len(probs)} wrong positions)"
    return None


def oracle(req, out):
    ws = req.split()
    if out in ("(panic)", "(abort)", "(timeout)"):
        return "implementation " + out
    if ws[0] == "pfold":
        # same answer as `fold` plus ` chk=ok`; judged like `fold` (the model side folds the tree of the parser MODEL)
        if out == "wrong-build":
            return "harness build flavour does not match the request"
        if not out.endswith(" chk=ok"):
            return f"unparsable answer: {out[-80:]}"
        d = _parse_fold(out[:-len(" chk=ok")])
        if d is None:
            return f"unparsable answer: {out[:80]}"
        f = _judge_located(Ref(unhex(ws[3])), d)
        if f:
            return f
        if not d["fwd"]:
            return ("the fold drives the forward-only locator with a history that is not forward: "
                    + _describe(_first_not_forward(unhex(ws[3]), d["trace"]), d["trace"]))
        if not d["ordered"]:
            return "the tree is not SrcOrdered although the fold was forward and every position is right"
        return None
    if ws[0] == "fold":
        if out == "wrong-build":
            return "harness build flavour does not match the request"
        d = _parse_fold(out)
        if d is None:
            return f"unparsable answer: {out[:80]}"
        src = unhex(ws[3])
        ORDERED_STATS["trees"] += 1
        ORDERED_STATS["src_ordered" if d["ordered"] else "not_src_ordered"] += 1
        if not d["ordered"] and len(ORDERED_STATS["not_src_ordered_examples"]) < 6:
            ORDERED_STATS["not_src_ordered_examples"].append(src[:60].decode("utf-8", "replace"))
        f = _judge_located(Ref(src), d)
        if f:
            return f
        if not d["fwd"]:
            return ("the fold drives the forward-only locator with a history that is not forward: "
                    + _describe(_first_not_forward(src, d["trace"]), d["trace"]))
        if not d["ordered"]:
            return "the tree is not SrcOrdered although the fold was forward and every position is right"
        return None
    if ws[0] == "locate":
        b = unhex(ws[2])
        ref = Ref(b)
        if out.startswith("parse=err"):
            m = re.match(r"parse=err off=(\d+) lin=(\S+) rnd=(\S+)$", out)
            if not m:
                return "unparsable answer"
            off = int(m.group(1))
            if not ref.boundary(off):
                return None     # the offset itself is C03/C09's business
            exp = ref.show(off)
            if m.group(3) != exp:
                return f"RandomLocator::locate_error({off}) = {m.group(3)}, text says {exp}"
            if m.group(2) != exp:
                return f"LinearLocator::locate_error({off}) = {m.group(2)}, text says {exp}"
            return None
        if out.startswith("parse=panic"):
            return None         # not a C13 question
        d = _parse_locate(out)
        if d is None:
            return "unparsable answer"
        if d["walk"] != "ok":
            return "harness could not pair the located tree with the plain tree"
        return _judge_located(ref, d)
    if ws[0] == "locseq":
        if out == "wrong-build":
            return "harness build flavour does not match the request"
        b = unhex(ws[2])
        ref = Ref(b)
        m = re.match(r"lin=(\S*) rnd=(\S*)$", out)
        if not m:
            return "unparsable answer"
        lin = m.group(1).split(";") if ws[3:] else []
        rnd = m.group(2).split(";") if ws[3:] else []
        cursor = 3 if ref.bom else 0
        ok_history = True
        for op, l, r in zip(ws[3:], lin, rnd):
            k, off = op[0], int(op[1:])
            if not ref.boundary(off) or off > len(b):
                return None             # outside the quantifier: nothing to judge from here on
            exp = ref.show(off)
            if r != exp:
                return f"RandomLocator::locate({off}) = {r}, text says {exp}"
            if not ref.in_domain(off) or off < cursor:
                ok_history = False      # the linear locator is only specified for forward histories
            if ok_history:
                if l != exp:
                    return f"LinearLocator {op} after cursor {cursor} = {l}, text says {exp}"
                if k in "le":
                    cursor = off
        return None
    if ws[0] == "spec":
        b = unhex(ws[1])
        ref = Ref(b)
        got = out.split(";") if ws[2:] else []
        for o, g in zip(ws[2:], got):
            if ref.boundary(int(o)) and g != ref.show(int(o)):
                return f"RandomLocator::locate({o}) = {g}, text says {ref.show(int(o))}"
        return None
    if ws[0] == "trace":
        if out == "wrong-build":
            return "harness build flavour does not match the request"
        m = re.match(r"ok (\d+) fwd=(true|false)$", out)
        if not m:
            return f"the fold did not repeat its recorded call sequence: {out[:80]}"
        src = unhex(ws[3])
        ref = Ref(src)
        ops = ws[4:]
        why = ""
        if m.group(2) != "true":
            why = ("; the fold drives the forward-only locator with a history that is not forward (hypothesis of "
                   "linear_eq_spec): " + _describe(_first_not_forward(src, ops), ops))
        for i, op in enumerate(ops):
            o, res = op[1:].split("=")
            if res == "none":
                return f"LinearLocator call {i} ({op}) panicked{why}"
            if ref.boundary(int(o)) and res != ref.show(int(o)):
                return f"LinearLocator call {i} returned {op}, text says {ref.show(int(o))}{why}"
        return None
    return None


def _first_not_forward(src, ops):
    """(index, reason, offset, cursor) of the first call that leaves the forward domain, or None"""
    ref = Ref(src)
    cursor = 3 if ref.bom else 0
    for i, op in enumerate(ops):
        k, off = op[0], int(op[1:].split("=")[0])
        if not ref.in_domain(off):
            return i, "outside", off, cursor
        if off < cursor:
            return i, "behind", off, cursor
        if k == "l":
            cursor = off
    return None


def _describe(nf, ops):
    if nf is None:
        return "?"
    i, why, off, cursor = nf
    if why == "behind":
        return f"call {i} ({ops[i]}) is behind the cursor {cursor}"
    return f"call {i} ({ops[i]}) is outside the domain (inside CR LF / a BOM / off a boundary)"


# ------------------------------------------------------------------ known findings

K_FCONCAT = "linear-fstring-concat-piece-range"
K_CRLF = "linear-offset-inside-crlf"


def _source_of(req):
    ws = req.split()
    if ws[0] == "locate":
        return unhex(ws[2])
    if ws[0] in ("trace", "fold", "pfold"):
        return unhex(ws[3])
    return None


K_BOM_TOKENLESS = "linear-bom-tokenless-module-all-ranges"


def _tokenless(src):
    """the text after the BOM consists of blank lines and comments only"""
    t = src[3:].decode("utf-8", "replace")
    for line in re.split(r"\r\n|\r|\n", t):
        l = line.lstrip(" \t\x0c")
        if l and not l.startswith("#"):
            return False
    return True


def _history_finding(src, ops, wrong):
    """Which listed finding explains a history that is not forward?  `wrong` = (start, end) ranges of
    the nodes located wrongly (release flavour) — they must all be explained too."""
    nf = _first_not_forward(src, ops)
    if nf is None:
        return None
    i, why, off, cursor = nf
    ref = Ref(src)
    if why == "behind":
        return None         # no listed finding makes the fold go backwards
    if ref.inside_crlf(off) and ref.boundary(off) and off >= cursor:
        # a release build is off by one line from here on
        if all(e >= off for s, e in wrong):
            return K_CRLF
    return None


def classify(req, impl_out, model_out, failure):
    ws = req.split()
    src = _source_of(req)
    if src is None:
        return None
    if ws[0] in ("fold", "pfold") and model_out is not None and model_out != impl_out:
        return None         # the fold-order model mirrors the code as it is: a disagreement is never "known"
    if ws[0] == "pfold" and (impl_out or "").endswith(" chk=ok"):
        impl_out = impl_out[:-len(" chk=ok")]
    if ws[0] in ("locate", "fold", "pfold"):
        d = _parse_locate(impl_out or "") if ws[0] == "locate" else _parse_fold(impl_out or "")
        if d is None or d["walk"] != "ok" or d["rnd"] != "ok":
            return None
        ref = Ref(src)
        probs = _node_problems(ref, d)
        if any(p[3] == "RandomLocator" for p in probs):
            return None
        nf = _first_not_forward(src, d["trace"])
        if (d["lin"] == "panic" and src.startswith(b"\xef\xbb\xbf") and d["trace"] == ["l0=none"]
                and len(d["nodes"]) == 1 and d["nodes"][0][0] in ("ModModule", "ModInteractive") and d["nodes"][0][1:3] == (0, 0)
                and _tokenless(src)):
            return K_BOM_TOKENLESS
        if d["lin"] == "panic":
            # debug flavour: the fold dies at the first call that is not forward
            if nf is None or nf[0] != len(d["trace"]) - 1 or not d["trace"][-1].endswith("=none"):
                return None
            return _history_finding(src, d["trace"], [])
        if not probs:
            return None
        if nf is not None:
            return _history_finding(src, d["trace"], [(p[1], p[2]) for p in probs])
        # forward history, wrong positions: every one is a piece of an f-string built by implicit
        # concatenation (a FormattedValue, or the JoinedStr/Constant of its format spec) that received
        # the location of the enclosing JoinedStr instead of its own
        joined = {f"{ref.show(s)}-{ref.show(e)}": (s, e) for k, s, e, _, _ in d["nodes"] if k == "ExprJoinedStr"}
        for k, s, e, which, got, exp in probs:
            if k not in ("ExprFormattedValue", "ExprJoinedStr", "ExprConstant") or got not in joined:
                return None
            js, je = joined[got]
            if not (js <= s and e <= je and (js, je) != (s, e)):
                return None
            if src[s:e].lstrip(b"rRbBuU")[:1] in (b"'", b'"'):
                return None     # the piece itself must be an f-string literal
        return K_FCONCAT
    if ws[0] == "trace":
        # only when model and implementation agree and the history is not forward in a listed way
        if impl_out != model_out or not re.match(r"ok \d+ fwd=false$", impl_out or ""):
            return None
        ref = Ref(src)
        wrong = []
        for op in ws[4:]:
            o, res = op[1:].split("=")
            if res != "none" and ref.boundary(int(o)) and res != ref.show(int(o)):
                wrong.append((int(o), int(o)))
        return _history_finding(src, ws[4:], wrong)
    return None


# ------------------------------------------------------------------ program generator

IDENTS = ["x", "y", "foo", "é", "名前", "ß_1", "Δ", "a1", "𝐱"]
STRS = ["'a'", '"bc"', "'é'", '"😀!"', "'日本語'", "b'xy'", "r'\\d'", "''"]
NUMS = ["0", "1", "42", "3.5", "1e3", "0x1F", "2j"]


class Gen:
    """Compact generator of Python programs biased towards constructs whose tree order differs from
    source order.  Known-finding shapes are never produced here (implicit concatenation with an
    f-string that has fields; CR inside an f-string)."""

    def __init__(self, rng):
        self.r = rng
        self.unit = None    # indentation unit of the program being generated (None: vary per block)

    def name(self):
        return self.r.choice(IDENTS)

    def atom(self):
        r = self.r
        k = r.randrange(6)
        if k <= 2:
            return self.name()
        if k == 3:
            return r.choice(NUMS)
        return r.choice(STRS)

    def simple(self):
        """expression without quotes or braces (usable inside an f-string field)"""
        r = self.r
        k = r.randrange(6)
        if k == 0:
            return f"{self.name()}.{self.name()}"
        if k == 1:
            return f"{self.name()}({self.name()}, {self.name()}={r.choice(NUMS)})"
        if k == 2:
            return f"{self.name()}[{r.choice(NUMS)}]"
        if k == 3:
            return f"{self.name()} + {r.choice(NUMS)}"
        return self.name()

    def fstring(self):
        r = self.r
        q = r.choice(["'", '"'])
        parts = []
        for _ in range(r.randrange(1, 4)):
            k = r.randrange(6)
            if k == 0:
                parts.append(r.choice(["a", "é ", "😀", "{{", "}}", " "]))
            elif k == 1:
                parts.append("{" + self.simple() + "!r}")
            elif k == 2:
                parts.append("{" + self.simple() + ":>{" + self.name() + "}}")
            elif k == 3:
                parts.append("{" + self.simple() + ":.2f}")
            elif k == 4:
                parts.append("{" + self.simple() + "!s:{" + self.name() + "}.{" + self.name() + "}}")
            else:
                parts.append("{" + self.simple() + "}")
        return "f" + q + "".join(parts) + q

    def args(self, d):
        """call arguments: positional and starred ones may follow keyword ones"""
        r = self.r
        items = []
        n = r.randrange(0, 5)
        seen_kw = seen_dstar = False
        kwnames = ['k', 'kw', 'é', 'sep', 'end']
        r.shuffle(kwnames)
        for _ in range(n):
            k = r.randrange(6)
            if k <= 1 and not seen_kw and not seen_dstar:
                items.append(self.expr(d - 1))
            elif k == 2 and not seen_dstar:
                items.append("*" + self.postfix(d - 1))
            elif k == 3:
                items.append("**" + self.postfix(d - 1))
                seen_dstar = True
            else:
                items.append(f"{kwnames.pop()}={self.expr(d - 1)}")
                seen_kw = True
        sep = r.choice([", ", ",", ",\n    ", " , "])
        return sep.join(items)

    def postfix(self, d):
        r = self.r
        if d <= 0:
            return self.name()
        k = r.randrange(4)
        if k == 0:
            return f"{self.name()}.{self.name()}"
        if k == 1:
            return f"{self.name()}({self.args(d)})"
        if k == 2:
            return f"{self.name()}[{self.expr(d - 1)}:{self.expr(d - 1)}]"
        return self.name()

    def params(self, d, annot=True):
        r = self.r
        ps = []
        names = iter(["a", "b", "é", "c", "d", "e", "ü", "g"])

        def p(default_ok=True):
            s = next(names)
            if annot and r.randrange(3) == 0:
                s += ": " + self.expr(d - 1)
                if default_ok and r.randrange(2) == 0:
                    s += " = " + self.expr(d - 1)
            elif default_ok and r.randrange(2) == 0:
                s += "=" + self.expr(d - 1)
            return s
        had_default = False

        def pd():
            nonlocal had_default
            s = p(True)
            if "=" in s.replace("==", ""):
                had_default = True
            elif had_default:
                s += "=" + r.choice(NUMS)
            return s
        if r.randrange(4) == 0:
            ps.append(pd())
            ps.append("/")
        for _ in range(r.randrange(0, 3)):
            ps.append(pd())
        k = r.randrange(4)
        if k == 0:
            ps.append("*" + next(names))
            for _ in range(r.randrange(0, 3)):
                ps.append(p(True))
        elif k == 1:
            ps.append("*")
            ps.append(p(True))
        if r.randrange(3) == 0:
            ps.append("**" + next(names))
        return ", ".join(ps)

    def comp(self, d):
        r = self.r
        s = f" for {self.name()} in {self.expr(d - 1)}"
        if r.randrange(2):
            s += f" if {self.expr(d - 1)}"
        if r.randrange(4) == 0:
            s += f" for {self.name()}, {self.name()} in {self.expr(d - 1)}"
        return s

    def expr(self, d):
        r = self.r
        if d <= 0:
            return self.atom()
        k = r.randrange(22)
        e = lambda: self.expr(d - 1)
        if k == 0:
            return f"{self.postfix(d)}({self.args(d)})"
        if k == 1:
            return f"({e()} if {e()} else {e()})"
        if k == 2:
            items = []
            for _ in range(r.randrange(0, 4)):
                items.append("**" + self.postfix(d - 1) if r.randrange(3) == 0 else f"{e()}: {e()}")
            return "{" + ", ".join(items) + "}"
        if k == 3:
            return self.fstring()
        if k == 4:
            return f"(lambda {self.params(d, annot=False)}: {e()})"
        if k == 5:
            return f"[{e()}{self.comp(d)}]"
        if k == 6:
            return "{" + f"{e()}: {e()}{self.comp(d)}" + "}"
        if k == 7:
            return f"({e()}{self.comp(d)})"
        if k == 8:
            return f"{e()} {r.choice(['+', '-', '*', '//', '@', '**', '<<', '|'])} {e()}"
        if k == 9:
            return f"{e()} {r.choice(['<', '==', 'is not', 'in', 'not in', '>='])} {e()} {r.choice(['<', '!='])} {e()}"
        if k == 10:
            return f"({e()} {r.choice(['and', 'or'])} {e()} {r.choice(['and', 'or'])} not {e()})"
        if k == 11:
            return f"[{e()}, *{self.postfix(d - 1)}, {e()}]"
        if k == 12:
            return f"({e()},\n {e()},\n)"
        if k == 13:
            return f"({self.name()} := {e()})"
        if k == 14:
            return self.postfix(d)
        if k == 15:
            return "{" + f"{e()}, {e()}" + "}"
        if k == 16:
            return f"-{self.atom()}"
        if k == 17:
            return f"{self.name()}[{e()}, {e()}:{e()}:{e()}]"
        if k == 18:
            return '"""multi\nline é\n"""'
        if k == 19:
            return f"{self.postfix(d)}({self.args(d)})({self.args(d)})"
        return self.atom()

    def pattern(self, d):
        r = self.r
        k = r.randrange(10) if d > 0 else r.randrange(3)
        if k == 0:
            return r.choice(NUMS[:4] + ["'s'", "None", "True", "-1"])
        if k == 1:
            return r.choice(["a", "b", "_", "é"])
        if k == 2:
            return f"{self.name()}.{self.name()}"
        if k == 3:
            return f"[{self.pattern(d - 1)}, *rest, {self.pattern(d - 1)}]"
        if k == 4:
            items = [f"{r.choice(STRS[:4] + NUMS[:3])}: {self.pattern(d - 1)}" for _ in range(r.randrange(0, 3))]
            if r.randrange(2):
                items.append("**kw")
            return "{" + ", ".join(items) + "}"
        if k == 5:
            pos = [self.pattern(d - 1) for _ in range(r.randrange(0, 3))]
            kws = [f"{n}={self.pattern(d - 1)}" for n in ["p", "é"][:r.randrange(0, 3)]]
            return f"{self.name()}({', '.join(pos + kws)})"
        if k == 6:
            return f"({self.pattern(d - 1)} | {self.pattern(0)})"
        if k == 7:
            return f"({self.pattern(d - 1)} as {r.choice(['n', 'm'])})"
        if k == 8:
            return f"({self.pattern(d - 1)}, {self.pattern(d - 1)})"
        return "_"

    def block(self, d, ind, in_def=False, in_loop=False, in_async=False):
        n = self.r.randrange(1, 3)
        return "".join(self.stmt(d - 1, ind, in_def, in_loop, in_async) for _ in range(n))

    def decorators(self, d, ind):
        s = ""
        for _ in range(self.r.randrange(0, 3)):
            s += f"{ind}@{self.postfix(d)}\n"
        return s

    def stmt(self, d, ind, in_def=False, in_loop=False, in_async=False):
        r = self.r
        e = lambda: self.expr(max(d, 1))
        sub = ind + (self.unit or r.choice(["    ", "  ", " "]))
        blk = lambda **kw: self.block(d, sub, in_def=kw.get("in_def", in_def), in_loop=kw.get("in_loop", in_loop),
                                      in_async=kw.get("in_async", in_async))
        k = r.randrange(30) if d > 0 else r.randrange(12)
        if k == 0:
            return f"{ind}{self.name()} = {e()}\n"
        if k == 1:
            return f"{ind}{self.name()}, {self.name()} = {self.name()}[{e()}] = {e()}\n"
        if k == 2:
            return f"{ind}{self.name()} {r.choice(['+=', '-=', '|=', '//='])} {e()}\n"
        if k == 3:
            return f"{ind}{self.name()}: {e()} = {e()}\n"
        if k == 4:
            return f"{ind}{e()}\n"
        if k == 5:
            return f"{ind}pass  # comment é\n"
        if k == 6:
            return f"{ind}assert {e()}, {e()}\n"
        if k == 7:
            return f"{ind}import os.path as {self.name()}, sys\n{ind}from . import (a as b,\n{ind}  c)\n"
        if k == 8:
            return f"{ind}del {self.name()}, {self.name()}[{e()}]\n"
        if k == 9:
            return f"{ind}{self.name()} = {e()}; {self.name()} = \\\n{ind}    {e()}\n"
        if k == 10:
            return (f"{ind}return {e()}\n" if in_def else f"{ind}raise {self.postfix(1)}({e()}) from {self.name()}\n")
        if k == 11:
            return f"\n{ind}# only a comment 名前\n{ind}{self.name()} = {self.atom()}\n"
        if k == 12:
            s = f"{ind}if {e()}:\n{blk()}"
            if r.randrange(2):
                s += f"{ind}elif {e()}:\n{blk()}"
            if r.randrange(2):
                s += f"{ind}else:\n{blk()}"
            return s
        if k == 13:
            s = f"{ind}for {self.name()}, {self.name()} in {e()}:\n{blk(in_loop=True)}"
            if r.randrange(3) == 0:
                s += f"{ind}else:\n{blk()}"
            return s
        if k == 14:
            return f"{ind}while {e()}:\n{blk(in_loop=True)}"
        if k == 15:
            s = f"{ind}try:\n{blk()}"
            star = r.choice(["", "*"])
            s += f"{ind}except{star} {self.postfix(1)} as {self.name()}:\n{blk()}"
            if not star and r.randrange(2):
                s += f"{ind}except ({self.name()}, {self.name()}):\n{blk()}"
            if r.randrange(2):
                s += f"{ind}else:\n{blk()}"
            if r.randrange(2):
                s += f"{ind}finally:\n{blk()}"
            return s
        if k == 16:
            return f"{ind}with {e()} as {self.name()}, {self.postfix(1)}:\n{blk()}"
        if k in (17, 18):
            cases = ""
            for _ in range(r.randrange(1, 4)):
                guard = f" if {e()}" if r.randrange(3) == 0 else ""
                cases += f"{sub}case {self.pattern(2)}{guard}:\n{self.block(d, sub + (self.unit or '  '), in_def, in_loop, in_async)}"
            return f"{ind}match {e()}:\n{cases}"
        if k in (19, 20, 21):
            tp = r.choice(["", "", "[T]", "[T: int, *Ts, **P]"])
            ret = f" -> {e()}" if r.randrange(2) else ""
            is_async = r.randrange(4) == 0
            kw = "async def" if is_async else "def"
            return (f"{self.decorators(d, ind)}{ind}{kw} {r.choice(['f', 'g', 'é'])}{tp}({self.params(d)}){ret}:\n"
                    f"{blk(in_def=True, in_loop=False, in_async=is_async)}")
        if k in (22, 23, 24):
            # bases, starred bases and keywords in any legal order (a keyword may precede a starred base)
            bases = [self.postfix(1) for _ in range(r.randrange(0, 3))]
            kws = []
            if r.randrange(2):
                kws.append(f"metaclass={self.postfix(1)}")
            if r.randrange(3) == 0:
                kws.append(f"k={e()}")
            for kw in kws:
                bases.insert(r.randrange(len(bases) + 1) if r.randrange(2) else len(bases), kw)
            # positional bases must not follow a keyword: turn those into starred ones
            seen_kw = False
            for i, b in enumerate(bases):
                if "=" in b.split("(")[0].split("[")[0]:
                    seen_kw = True
                elif seen_kw and not b.startswith("*"):
                    bases[i] = "*" + self.name()
            if r.randrange(2):
                bases.insert(r.randrange(len(bases) + 1), "*" + self.name())
            if r.randrange(4) == 0:
                bases.append(f"**{self.name()}")
            paren = f"({', '.join(bases)})" if bases or r.randrange(2) else ""
            tp = r.choice(["", "", "[T]"])
            return f"{self.decorators(d, ind)}{ind}class {r.choice(['A', 'B', 'É'])}{tp}{paren}:\n{blk(in_def=False, in_loop=False, in_async=False)}"
        if k == 25 and in_async:
            return f"{ind}async with {e()} as {self.name()}:\n{blk()}{ind}async for {self.name()} in {e()}:\n{blk(in_loop=True)}"
        if k == 25:
            return f"{ind}global {self.name()}, {self.name()}\n" if in_def else f"{ind}type {r.choice(['X', 'Y'])} = {e()}\n"
        if k == 26 and in_def:
            return f"{ind}{self.name()} = yield {e()}\n{ind}yield from {e()}\n"
        if k == 27 and in_async:
            return f"{ind}{self.name()} = await {self.postfix(2)}\n"
        if k == 28 and in_loop:
            return f"{ind}if {e()}: break\n{ind}else: continue\n"
        return f"{ind}{self.name()} = {e()}\n"

    def program(self):
        self.unit = self.r.choice([None, None, "\t", "    "])
        d = self.r.choice([1, 2, 2, 3])
        return "".join(self.stmt(d, "") for _ in range(self.r.randrange(1, 5)))


def _endings(src, rng):
    """variants of line endings / BOM"""
    k = rng.randrange(6)
    if k == 0:
        out = src.replace("\n", "\r\n")
    elif k == 1:
        out = src.replace("\n", "\r")
    elif k == 2:
        out = "".join(l[:-1] + rng.choice(["\n", "\r\n", "\r"]) if l.endswith("\n") else l
                      for l in src.splitlines(keepends=True))
    else:
        out = src
    if rng.randrange(5) == 0:
        out = BOM + out
    if rng.randrange(8) == 0 and out.endswith(("\n", "\r")):
        out = out.rstrip("\r\n")
    return out


CORPUS = [
    "x = 1\n",
    "f(a=1, *b)\n",
    "f(a=1, *b, c=2, **d)\n",
    "f(k=g(z=1, *w), *b)\n",
    "f(a=1,\n  *b)\n",
    "class A(*b, x=1): pass\n",
    # repaired in /repo 505c970 (class keywords are located by look-ahead): a regression is a VIOLATION
    "class A(x=1, *b): pass\n",
    "class A(\n  metaclass=M,\n  *bases): pass\n",
    "class A(\n  metaclass=M, k=f(1,\n2),\n  *bases,\n y=3): pass\n",
    "@d\nclass A[T](x=f'{a}', *b, y={**c}, *d, **e):\n    class B(k=1, *z): pass\n",
    "class A(B, *b, metaclass=M, **kw):\n    x = 1\n",
    "{**a, 'k': v}\n",
    "{'a': 1, **b, 'c': {**d}}\n",
    "a if b else c\n",
    "x = (a if b else c) if (d if e else f) else g\n",
    "@dec\n@dec2(a=1, *b)\ndef f(a, b=1, *c, d=2, **e) -> int:\n    return a\n",
    "@d\nclass A(B):\n    @e\n    async def m(self, /, x: int = 1, *, y=2): pass\n",
    "f'{x}'\n",
    "f'{a}x{b!r:>{c}}' + f\"{d:{e}.{f}}\"\n",
    "g(s=f'{x}{y!r}')\n",
    "f'{x:{y}}' if f'{z}' else f'{w}'\n",
    "lambda a, b=1, *c, d=2, **e: (a, b)\n",
    "def f(a=lambda x=1: x, *, b=(1 if c else 2)): pass\n",
    "[x for x in y if z]\n{k: v for k, v in w}\n(a for a in b for c in d)\n",
    "match x:\n    case {'a': 1, **r}: pass\n    case C(a, b=2): pass\n    case [1, *y] | (2 as z): pass\n    case _ if q: pass\n",
    "with a as b, c as d:\n    pass\n",
    "try:\n    pass\nexcept E as e:\n    pass\nelse:\n    pass\nfinally:\n    pass\n",
    "é = 'ü'\nb = é\n名前 = é + '日本語'\n",
    "def f[T: int, *Ts, **P](x: T) -> T: ...\ntype X[T] = list[T]\n",
    "x = '''a\nb é\nc''' + y\n",
    "x = (1,\n     2,\n     é)\n",
    "if a:\n    b\nelif c:\n    d\nelse:\n    e\n",
    "x = 1 if 2 else 3; y = {**z}; w(u=1, *v)\n",
    "a = \\\n  b\n",
    "\n\n\nx\n\n\n",
    "x",
    "",
    "# just a comment é\n",
    "'abc' 'def' \"é\"\n",
    "for i, j in k: continue\nwhile a: break\n",
    "print(*a, sep='', **k)\n",
    "f(**a, b=1)\n",
    "f(x for x in y)\n",
    "class A(metaclass=M): pass\n",
    "async def f():\n    async with a as b: pass\n    async for c in d: await e\n",
    "a[b:c, d:e:f]\n",
    "del a, b[c]\nassert a, b\nraise A from b\nglobal g\n",
    "import a.b as c, d\nfrom . import (e as f,\n  g)\n",
    "def f():\n    x = 1\n    def g():\n        nonlocal x\n    return {a for a in b if c}\n",
]

# deterministic probes of the listed known findings (never produced by the generators)
KNOWN_PROBES = [
    "f'{x}' f'{y}'\n",
    "x = 'zz' f'a{é}b'\n",
    "f'''\r\n\r\n{x}'''\r\n",
]

ERRORS = ["x = (", "x = (\n", ")", "def f(:\n", "é = $", "x = 'é\n", "if x:\npass\n", "a\r\n  b\r\n", "\ufeff)", "\ufeff\n)",
          "1 +\n", "x = [1,\r\n2\r\n", "class\n", "é é\n", "'''abc\nd", "f(a=1, b)\n", "f(**k, *a)\n", "\ufeffx = (\r\n"]


def _variants(src):
    yield src
    yield src.replace("\n", "\r\n")
    yield src.replace("\n", "\r")
    yield BOM + src
    yield BOM + src.replace("\n", "\r\n")


# ------------------------------------------------------------------ small texts for the pure locator ops

ALPHABET = [b"\n", b"\r", b"a", "é".encode(), BOM.encode(), "😀".encode()]


def _texts(maxlen):
    for n in range(maxlen + 1):
        for tup in itertools.product(ALPHABET, repeat=n):
            yield b"".join(tup)


def _histories(ref, maxops):
    """every call history of at most `maxops` calls that stays inside the quantifier: offsets on
    character boundaries, not between CR and LF, not inside a leading BOM, never before the cursor"""
    b = ref.b
    offs = [o for o in range(len(b) + 1) if ref.in_domain(o)]
    start = 3 if ref.bom else 0
    out = []

    def go(prefix, cursor, left):
        if prefix:
            out.append(prefix)
        if left == 0:
            return
        for o in offs:
            if o < cursor:
                continue
            go(prefix + [f"l{o}"], o, left - 1)
            go(prefix + [f"o{o}"], cursor, left - 1)
    go([], start, maxops)
    # plus the whole forward chain, each offset located twice (start of one node = end of another)
    chain = []
    for o in offs:
        if o >= start:
            chain += [f"l{o}", f"l{o}"]
    if chain:
        out.append(chain)
    return out


def _locseq_requests(maxlen, maxops, flavour="d"):
    reqs = []
    for t in _texts(maxlen):
        ref = Ref(t)
        for h in _histories(ref, maxops):
            reqs.append(f"locseq {flavour} {hexs(t)} {' '.join(h)}")
    return reqs


# ------------------------------------------------------------------ streams

def _stdlib_files():
    root = os.path.dirname(os.__file__)
    out = []
    for dp, dn, fn in os.walk(root):
        dn[:] = sorted(d for d in dn if d not in ("site-packages", "__pycache__", "lib2to3"))
        for f in sorted(fn):
            if f.endswith(".py"):
                out.append(os.path.join(dp, f))
    return out


def _read_utf8(path):
    try:
        b = open(path, "rb").read()
        b.decode("utf-8")
        return b
    except Exception:
        return None


def _run_harness(hbin, reqs, jobs):
    return core.run_lines([hbin], reqs, jobs=jobs)


def _trace_requests(locate_reqs, outs, max_cost=None, flavour="d"):
    """turn answered `locate` requests into `trace` requests carrying the recorded call sequence"""
    reqs = []
    for rq, out in zip(locate_reqs, outs):
        d = _parse_locate(out)
        if d is None or not d["trace"]:
            continue
        ws = rq.split()
        n = len(unhex(ws[2]))
        if max_cost is not None and n * len(d["trace"]) > max_cost:
            continue
        reqs.append(f"trace {flavour} {ws[1]} {ws[2]} {' '.join(d['trace'])}")
    return reqs


_state = {}


def _schema_res():
    """translator output (node kinds, field types): needed to turn `{:?}` text into the generic tree"""
    if "res" not in _state:
        try:
            _state["res"] = T.translate()
        except T.TranslateError:
            _state["res"] = T.translate_schema_only()
    return _state["res"]


def pre_build(ctx):
    """The fold-order model interprets the fold program regenerated from ast/src/gen/fold.rs: regenerate it
    (same translator and files as C12; rewritten only when the Rust source changed)."""
    _state.pop("res", None)
    res = T.translate()            # raises TranslateError on any unrecognised shape
    _state["res"] = res
    changed = T.emit(res)
    return [("translate ast/src/gen/{generic,fold}.rs -> lean/PV/Gen/C12{Schema,FoldProg}.lean (fold order of the model)",
             True, f"{len(res.schema.kinds)} node kinds; rewritten: {changed or 'nothing'}")]


def _fold_requests(hbin, locate_reqs, outs, jobs, max_cost=None, flavour="d"):
    """`fold` requests for the answered `locate` requests that parsed: the request carries the real tree (from the
    harness' `tree` answer, converted type-directed by the translated schema) for the Lean driver"""
    res = _schema_res()
    picked = []
    for rq, out in zip(locate_reqs, outs):
        d = _parse_locate(out)
        if d is None:
            continue
        ws = rq.split()
        n = len(unhex(ws[2]))
        if max_cost is not None and n * max(1, len(d["trace"])) > max_cost:
            continue
        picked.append(ws)
    dbgs = core.run_lines([hbin], [f"tree {ws[1]} {ws[2]}" for ws in picked], jobs=jobs)
    reqs = []
    for ws, dbg in zip(picked, dbgs):
        if not re.match(r"(Module|Expression|Interactive)\(", dbg):
            continue
        try:
            words = C12.debug_to_words(res, dbg)
        except (C12.DebugError, IndexError) as e:
            raise RuntimeError(f"Debug text of {unhex(ws[2])[:60]!r} not understood: {e}")
        reqs.append(f"fold {flavour} {ws[1]} {ws[2]} {' '.join(words)}")
        seen = _state.setdefault("fold_kinds", set())
        for i, w in enumerate(words):
            if w == "N":
                seen.add(int(words[i + 1]))
    return reqs



# ------------------------------------------------------------------ the parser MODEL's trees (`pfold`, `pord`)
#
# `pfold <d|r> <mode> <src> <tokens> <spans> <tree words>`: a `fold` request plus the real token stream and its byte spans
# (pvh_c01 `rtoks`, the attachment of C02's `rprog` requests).  The Lean side runs `PV.C02.parseRProgram` (the model of the
# parser's range computation) on them, checks that `toTree false m` is the attached real tree, and answers the `fold` line
# from THE MODEL'S tree; `chk=ok` = what the parser-level theorems (`parsed_tree_*`) say holds on this input.

PARSED_STATS = {"model_parsed_trees": 0, "plain": 0, "ordM": 0, "plain_and_not_ordM": 0, "offs_ok_default": 0,
                "src_ordered_default": 0, "ordM_offsok_not_src_ordered_default": 0, "offs_ok_all_ranges": 0,
                "src_ordered_all_ranges": 0, "ordM_offsok_not_src_ordered_all_ranges": 0, "nonconforming": 0,
                "spans_tiled_and_spansOk": 0, "spans_not_ok": 0, "plain_spansOk_not_offsOk": 0}


def _rtoks_bin():
    rc, log, hb = core.cargo_build("pvh_c01", "all-ranges")
    return hb if rc == 0 else None


def _pfold_requests(fold_reqs, jobs):
    """`pfold` requests for the given `fold` requests (sources whose f-strings contain a named escape are left out: the
    attachment rewriting changes the literal's length, see tools/props/c02.py)"""
    from props import c02 as C02
    from props import prog as PROG
    hb = _rtoks_bin()
    if hb is None or not fold_reqs:
        return []
    wss = [r.split(" ", 4) for r in fold_reqs]
    ans = core.run_lines([hb], [f"rtoks {ws[2]} {ws[3]}" for ws in wss], jobs=jobs)
    out = []
    for ws, a in zip(wss, ans):
        if a.startswith("(") or " " not in a:
            continue
        t, sp = a.split(" ")
        if C02._rp_named_escape_in_fstring(t):
            continue
        out.append(f"pfold {ws[1]} {ws[2]} {ws[3]} {PROG.fix_attachment(t)} {sp} {ws[4]}")
    return out


def _pord_stats(pfold_reqs, jobs):
    """run the driver's `pord` on the same inputs and add the verdicts to the evidence (statistics only: the same facts
    are part of `chk=` in every `pfold` answer, which is what the check compares)"""
    drv = core.driver_path(DRIVER)
    if not os.path.exists(drv) or not pfold_reqs:
        return
    reqs = []
    for r in pfold_reqs:
        ws = r.split(" ", 6)
        reqs.append(f"pord {ws[2]} {ws[3]} {ws[4]} {ws[5]}")
    for a in core.run_lines([drv], reqs, jobs=jobs):
        d = dict(kv.split("=") for kv in a.split() if "=" in kv)
        if not d:
            continue
        t = lambda k: d.get(k) == "true"
        PARSED_STATS["model_parsed_trees"] += 1
        PARSED_STATS["plain"] += t("plain")
        PARSED_STATS["ordM"] += t("ordm")
        PARSED_STATS["plain_and_not_ordM"] += t("plain") and not t("ordm")
        PARSED_STATS["offs_ok_default"] += t("ok0")
        PARSED_STATS["src_ordered_default"] += t("so0")
        PARSED_STATS["ordM_offsok_not_src_ordered_default"] += t("ordm") and t("ok0") and not t("so0")
        PARSED_STATS["offs_ok_all_ranges"] += t("ok1")
        PARSED_STATS["src_ordered_all_ranges"] += t("so1")
        PARSED_STATS["ordM_offsok_not_src_ordered_all_ranges"] += t("ordm") and t("ok1") and not t("so1")
        PARSED_STATS["nonconforming"] += (not t("conf0")) or (not t("conf1"))
        PARSED_STATS["spans_tiled_and_spansOk"] += t("tiled") and t("sp")
        PARSED_STATS["spans_not_ok"] += not (t("tiled") and t("sp"))
        PARSED_STATS["plain_spansOk_not_offsOk"] += not t("spchk")


def streams(ctx):
    out = []
    for k in PARSED_STATS:
        PARSED_STATS[k] = 0
    ctx.extra["ordM_on_model_parsed_trees"] = PARSED_STATS
    quick = ctx.quick
    _state.pop("fold_kinds", None)
    for k in ("trees", "src_ordered", "not_src_ordered"):
        ORDERED_STATS[k] = 0
    ORDERED_STATS["not_src_ordered_examples"] = []
    ctx.extra["src_ordered_on_real_trees"] = ORDERED_STATS
    jobs = 4 if quick else 16
    rc, log, hbin_d = core.cargo_build(HARNESS["bin"], HARNESS["features"])
    have_d = rc == 0
    have_r, hbin_r = False, None
    if not quick:
        rc, log, hbin_r = core.cargo_build(HARNESS_R["bin"], HARNESS_R["features"])
        have_r = rc == 0

    def located(name, srcs, kind, note="", modes=None, max_cost=None, tr_note="", flavour="d", fold_cost=None):
        """a `locate` stream judged by the oracle, and the `trace` stream derived from its answers"""
        have, hbin = (have_d, hbin_d) if flavour == "d" else (have_r, hbin_r)
        hs = None if flavour == "d" else HARNESS_R
        reqs = []
        for i, s in enumerate(srcs):
            b = s.encode("utf-8") if isinstance(s, str) else s
            m = modes[i] if modes else "m"
            reqs.append(f"locate {m} {hexs(b)}")
        out.append(Stream(name, reqs, kind=kind, compare=False, note=note, harness=hs,
                          nontrivial=lambda r: r.split()[2] != "-"))
        if have:
            ans = _run_harness(hbin, reqs, jobs)
            ok = sum(1 for a in ans if a.startswith("parse=ok"))
            ctx.notes.append(f"{name}: {ok} of {len(reqs)} programs parsed; {sum(a.count(';') + 1 for a in ans if 'nodes=' in a)} node positions")
            tr = _trace_requests(reqs, ans, max_cost=max_cost, flavour=flavour)
            out.append(Stream(name + "-trace", tr, kind=kind, harness=hs,
                              note="recorded call sequence of the real LinearLocator replayed through the model" + tr_note))
            fr = _fold_requests(hbin, reqs, ans, jobs, max_cost=fold_cost, flavour=flavour)
            out.append(Stream(name + "-fold", fr, kind=kind, harness=hs,
                              note="fold-order model (regenerated fold program + LinearLocator overrides) on the tree the "
                                   "real parser produced: call history, Forward, SrcOrdered and the located trees of both "
                                   "locators, byte-identical with the real fold" + tr_note,
                              nontrivial=lambda r: r.split()[3] != "-"))
            if flavour == "d":
                pf = _pfold_requests(fr, jobs)
                _pord_stats(pf, jobs)
                if pf:
                  out.append(Stream(name + "-pfold", pf, kind=kind, harness=hs,
                                  note="the program-parser MODEL (PV.C02.parseRProgram on the real tokens and spans): its tree must "
                                       "be the real tree (kinds, ranges, field positions), the fold model run on THE MODEL'S tree "
                                       "must answer what the real fold did, and the hypotheses / conclusions of the parser-level "
                                       "theorems (plainM -> ordM, ordM and OffsOk -> SrcOrdered, Conforms, plainM and SpansOk -> OffsOk; the real "
                                       "token spans are tiled and SpansOk) are evaluated (chk=ok)",
                                    nontrivial=lambda r: r.split()[3] != "-"))

    # 1. corpus: constructs whose tree order differs from source order, in every line-ending/BOM variant
    corpus = []
    for s in CORPUS:
        corpus.extend(_variants(s))
    located("corpus", corpus, "corpus", note="hand-written programs x {LF, CRLF, CR, BOM, BOM+CRLF}")
    located("known-finding-probes", KNOWN_PROBES, "corpus", note="one deterministic probe per listed finding shape")
    # 1a. the hand-written statement layouts of C02's program-model streams (every clause combination of every compound
    #     statement, decorated definitions, every with-item alternative, every parameter-list section, imports, match
    #     subjects and patterns, type parameters, CR / CRLF / BOM / tabs / continuation lines): chosen for the RANGES of the
    #     statement-level nodes, which is what the `-pfold` companion (parser model -> fold model) needs
    from props import c02 as _C02
    located("statement-layouts", list(_C02.RP_LAYOUT), "corpus",
            note="tools/props/c02.py RP_LAYOUT: ~260 hand-written statement layouts (Module mode)")
    # 1b. the all-nodes-with-ranges build: Arguments, ArgWithDefault, Comprehension, Keyword, WithItem, MatchCase ... carry
    #     ranges too and are located by the fold (a parameterless lambda used to give the forward-only locator a range that
    #     starts before its cursor: /repo 95d0600); both locators, every node, judged by the oracle
    import shapes as _shapes
    sh = _shapes.all_shapes()
    ar_srcs = list(corpus) + ["".join(sh[i:i + 20]) for i in range(0, len(sh), 20)][:: (6 if quick else 1)] + [
        "x = lambda: 1\n", "f = [lambda: 0, lambda *a: a, lambda **k: k, lambda a=1, /, b=2, *, c=3: a]\n",
        "def f(): pass\n", "def f(a, /, b=1, *c, d, e=2, **g) -> int: pass\n", "class C(B, m=1, *a, **k): pass\n",
        "with a as b, (c): pass\n", "[x for x in y if z async for w in v]\n", "f(a, k=1, *b, **c)\n",
        "match x:\n    case {'k': v, **r} if g: pass\n    case C(a, k=b): pass\n"]
    ar = {"bin": "pvh_c13", "features": "all-ranges"}
    out.append(Stream("locate-all-ranges", [f"locate m {hexs(s)}" for s in ar_srcs], kind="corpus", compare=False, harness=ar,
                      note="harness built with all-nodes-with-ranges: corpus variants + directed shapes (tools/shapes.py) + parameter / "
                           "keyword / with-item / comprehension forms; LinearLocator and RandomLocator on every ranged node",
                      nontrivial=lambda r: r.split()[2] != "-"))
    errs = []
    for s in ERRORS:
        errs.extend([s, s.replace("\n", "\r\n")])
    located("syntax-errors", errs, "malformed", note="locate_error of both locators on the reported error offset")

    if not quick:
        # the same programs against a build without debug assertions / overflow checks (release
        # semantics): no self-check in locate_inner, wrapping u32 subtraction; model flavour `r`
        located("corpus-release", corpus, "corpus", flavour="r",
                note="same programs, harness built without debug assertions and overflow checks")
        located("known-finding-probes-release", KNOWN_PROBES + ["class A(\n  metaclass=M, k=f(1,\n2),\n  *bases,\n y=3): pass\n"],
                "corpus", flavour="r", note="the listed finding shapes in a release-semantics build (wrong rows/columns instead of panics)")
        out.append(Stream("locseq-exhaustive-release-len<=4", _locseq_requests(4, 3, flavour="r"), kind="exhaustive",
                          exhaustive=True, harness=HARNESS_R,
                          note="the exhaustive small-scope histories against the release-semantics build",
                          nontrivial=lambda r: r.split()[2] != "-"))

    # 2. the locator as a pure state machine: exhaustive small texts x call histories
    L = 4 if quick else 5
    K = 3 if quick else 3
    reqs = _locseq_requests(L, K) if quick else (_locseq_requests(4, 3) + [r for r in _locseq_requests(5, 2) if len(unhex(r.split()[2])) >= 5])
    out.append(Stream(f"locseq-exhaustive-len<={L}", reqs, kind="exhaustive", exhaustive=True,
                      note=f"all texts of <= {L} symbols over {{LF, CR, a, e-acute, BOM, emoji}} x every forward call history "
                           f"of <= {K} locate/locate_only calls{'' if quick else ' (<= 2 for 5-symbol texts)'} on in-domain offsets, "
                           f"plus the full chain",
                      nontrivial=lambda r: r.split()[2] != "-"))
    reqs = []
    for t in _texts(L):
        offs = [str(o) for o in range(len(t) + 1) if Ref(t).boundary(o)]
        reqs.append(f"spec {hexs(t)} {' '.join(offs)}")
    out.append(Stream(f"spec-vs-indexed-len<={L}", reqs, kind="exhaustive", exhaustive=True,
                      note="Lean Spec.rowCol vs the real RandomLocator vs the Python reference on every boundary offset",
                      nontrivial=lambda r: r.split()[1] != "-"))
    # error offsets on a directly driven locator
    rng = ctx.rng("locseq-random")
    reqs = []
    alpha = ALPHABET + [b"\r\n", b" ", b"xyz", "日本".encode(), b"\n\n"]
    for _ in range(400 if quick else 20000):
        t = b"".join(rng.choice(alpha) for _ in range(rng.randrange(0, 40)))
        if rng.randrange(4) == 0:
            t = BOM.encode() + t
        ref = Ref(t)
        offs = [o for o in range(len(t) + 1) if ref.in_domain(o)]
        if not offs:
            continue
        picks = sorted(rng.choice(offs) for _ in range(rng.randrange(1, 12)))
        ops, cursor = [], (3 if ref.bom else 0)
        for o in picks:
            k = rng.choice("llleo")
            if k == "o" and rng.randrange(2):
                o = rng.choice([x for x in offs if x >= cursor])
            ops.append(f"{k}{o}")
            if k != "o":
                cursor = o
        reqs.append(f"locseq d {hexs(t)} {' '.join(ops)}")
    out.append(Stream("locseq-random-longer", reqs, kind="random",
                      note="longer texts, forward histories mixing locate / locate_only (look-ahead) / locate_error"))

    # 3. generated programs
    rng = ctx.rng("programs")
    g = Gen(rng)
    progs, modes = [], []
    n = 500 if quick else 6000
    for _ in range(n):
        k = rng.randrange(10)
        if k == 0:
            progs.append(_endings(g.expr(3), rng).replace("\n", " ").replace("\r", " "))
            modes.append("e")
        elif k == 1:
            progs.append(_endings(g.stmt(1, ""), rng))
            modes.append("i")
        else:
            progs.append(_endings(g.program(), rng))
            modes.append("m")
    if not quick:
        located("programs-random-release", progs[:1500], "random", modes=modes[:1500], flavour="r",
                note="first 1500 generated programs against the release-semantics build")
    located("programs-random", progs, "random", modes=modes,
            note="compact generator: calls with keyword/starred/double-starred arguments in every legal order, class "
                 "keywords before and after starred bases, dict unpacking, conditional expressions, decorators, f-strings with "
                 "nested fields, lambda/def defaults, comprehensions, match statements; non-ASCII identifiers and "
                 "strings; LF/CRLF/CR/mixed endings; optional BOM")

    # 4. realistic programs: the CPython standard library shipped with python3
    files = _stdlib_files()
    rng = ctx.rng("stdlib")
    rng.shuffle(files)
    want = 60 if quick else len(files)
    cap = 40_000 if quick else 400_000
    chosen = []
    for p in files:
        b = _read_utf8(p)
        if b is None or len(b) > cap or len(b) == 0:
            continue
        chosen.append((p, b))
        if len(chosen) >= want:
            break
    # a few are re-encoded with CRLF / CR / BOM so that realistic programs also cover those
    srcs = []
    for i, (p, b) in enumerate(chosen):
        if i % 5 == 1 and b"'''" not in b and b'"""' not in b:
            b = b.replace(b"\r\n", b"\n").replace(b"\n", b"\r\n")
        elif i % 5 == 2:
            b = BOM.encode() + b
        srcs.append(b)
    kinds = _schema_res().schema.kinds
    seen = _state.get("fold_kinds", set())
    ctx.extra["fold_model_kind_coverage"] = {
        "kinds_seen": len(seen), "kinds_total": len(kinds),
        "kinds_never_seen_before_stdlib": [k for i, k in enumerate(kinds) if i not in seen]}
    located("stdlib", srcs, "corpus",
            note=f"{len(srcs)} files of {os.path.dirname(os.__file__)} (every 5th re-encoded with CRLF, every 5th with a BOM)",
            max_cost=(60_000_000 if quick else 80_000_000), fold_cost=(12_000_000 if quick else 40_000_000),
            tr_note="; files whose (size x calls) exceeds the replay budget are judged by the oracle only")
    return out


def search(ctx, disagreements, bins):
    """model and implementation disagree although the oracle was content with the observed answers:
    look for an input near the disagreements where the real code breaks the property."""
    hbin = bins.get((HARNESS["bin"], HARNESS["features"]))
    if not hbin:
        return None
    reqs = []
    for e in disagreements[:20]:
        ws = e["request"].split()
        if ws[0] in ("trace", "fold", "pfold"):
            reqs.append(f"locate {ws[2]} {ws[3]}")
        elif ws[0] == "locseq":
            t = unhex(ws[2])
            ref = Ref(t)
            for h in _histories(ref, 3)[:4000]:
                reqs.append(f"locseq {ws[1]} {ws[2]} {' '.join(h)}")
        elif ws[0] == "spec":
            reqs.append(e["request"])
    # the directed programs (fold order: a broken translation / model of the fold shows up here as a fold that
    # panics or stores a wrong position), and the whole small-scope space once more, shorter histories
    for src in CORPUS:
        for v in _variants(src):
            reqs.append(f"locate m {hexs(v)}")
    reqs += _locseq_requests(3, 2)
    outs = core.run_lines([hbin], reqs, jobs=4)
    for rq, o in zip(reqs, outs):
        f = oracle(rq, o)
        if f and not classify(rq, o, None, f):
            return {"stream": "violation-search", "request": rq, "impl": o, "failure": f}
    return None
