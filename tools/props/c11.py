"""C11 — unparsing an expression and parsing it again gives the same expression.

Both sides receive `unparse <hex src>`:
  implementation (harness pvh_c11):  Expr::parse(src) -> format!("{}", expr) -> Expr::parse -> compare -> render again
  model (drv_c11):                   lex -> parseRef -> Model.unparse -> lex -> parseRef -> compare -> unparse again
and answer `ok tree=<canonical tree> text=<hex rendering> reparse=<0|1> equal=<0|1> fix=<0|1>`.
That single stream ties the reference parser (tree), the unparser model (text) and the round-trip verdicts to the
real code.  The oracle judges the REAL code only: its own three verdicts must be 1, and CPython (second opinion)
must read source and rendering as the same tree wherever it accepts both.

pre_build extracts the parenthesisation decision of the real unparser for every admissible (slot, child kind)
pair behaviourally (one tiny expression each, harness op `paren`) and writes lean/PV/Gen/C11Tables.lean; the
theorem `PV.C11.gen_parenTable_eq` re-proves `Gen.parenTable = Model.parenTable` by `decide`.
"""
import ast
import os
import re
import struct
import sys

import core
from core import Stream, hexs, unhex

ID = "C11"
DESIGN_REF = "DESIGN.md section 5, C11"
LEAN_TARGETS = ["PV.C11.Thm"]
DRIVER = "drv_c11"
HARNESS = {"bin": "pvh_c11", "features": "default"}
THEOREMS = [
    "PV.C11.gen_parenTable_eq",
    "PV.C11.unparse_shape",
    "PV.C11.unparse_slot_levels",
    "PV.C11.prec_table_ok",
    "PV.C11.prec_table_exact",
    "PV.C11.dict_unpack_regression",
    "PV.C11.comp_target_regression",
    "PV.C11.fx_target_eq_elem",
    "PV.C11.parse_unparse_partial",
    "PV.C11.parse_unparse_partial_atX",
    "PV.C11.parse_unparse_partial_at",
    "PV.C11.inFragment_sub",
    "PV.C11.inFragX_wf",
    "PV.C11.inFrag_wf",
    "PV.C11.unparse_fixpoint",
    "PV.C11.parse_unparse_fails",
    "PV.C11.dict_unpack_roundtrip",
    "PV.C11.comp_target_roundtrip",
    "PV.C11.float_near_one_roundtrip",
    "PV.C11.fstring_witness",
]
TRUSTED = [
    "Lean 4.33.0 kernel; axioms limited to propext, Classical.choice, Quot.sound",
    "hand-written model lean/PV/C11/Model.lean of ast/src/unparse.rs and impl Display for Constant "
    "(ast/src/builtin.rs), tied to the code by the correspondence streams of this run (byte-identical rendering "
    "of every request) and by the behaviourally extracted parenthesisation table (PV/Gen/C11Tables.lean)",
    "reference tokenizer lean/PV/C11/Lexer.lean and reference parser lean/PV/C11/Spec.lean (parseRef), written "
    "from python.lalrpop / the Python lexical rules and tied to parser/src/{lexer.rs,python.lalrpop,string.rs,"
    "function.rs} only by the same streams (canonical trees of both sides are diffed); the LALRPOP automaton "
    "itself is not modelled",
    "constant texts: PV.C16 (literal/src/escape.rs), PV.C17 / PV.Dec (literal/src/float.rs, Rust f64 Display and "
    "from_str as correctly rounded conversions), each with its own property check (C16, C17)",
    "rustpython_literal::char::is_printable is a parameter of the model; the driver uses a fixed table for the ten "
    "printable and ten non-printable non-ASCII characters the generators use",
    "the round-trip theorem is at token level: the step text -> tokens of the rendered text (spacing, literal "
    "spelling) is covered by correspondence (the driver re-lexes its own rendering) and by C16/C17, not by the theorem",
    "CPython 3.11.7 ast.parse / ast.unparse as second opinion and as source normaliser of the stdlib corpus",
    "tools/props/c11.py (generators, oracle, table extraction), harness/src/bin/pvh_c11.rs, lean/Drv/C11.lean",
]
PARTIAL = [
    "parse_unparse_partial covers InFragmentX (`fx`, lean/PV/C11/Fragment.lean): Name; every constant (numbers, str, "
    "bytes, None/True/False/Ellipsis); Attribute; Subscript with a plain index, a Slice, a tuple of plain / Slice / "
    "Starred elements, a bare Starred, a bare NamedExpr; Call with positional, Starred, keyword and `**` arguments "
    "(in the order unparse.rs prints them) and the bare generator argument; List, Tuple and Set displays with Starred "
    "elements; Dict displays (key:value and **value entries); Await; Yield (also with a Starred value), YieldFrom; "
    "BoolOp, UnaryOp, BinOp (all 13 operators incl. right-associative **), Compare, IfExp; Lambda with every parameter "
    "kind (positional-only `/`, defaults, *args, keyword-only, **kw); ListComp / SetComp / DictComp / GeneratorExp "
    "with any number of for / if clauses, async, and ANY target the parser reads there (it does not validate "
    "assignment targets: conditionals, lambdas, and / or / not, comparisons, named expressions, Starred, bare tuples of "
    "these — fx_target_eq_elem; in the fragment since /repo's repair of unparse_comp); NamedExpr — nested arbitrarily, "
    "of any size, with every parenthesisation the unparser produces.  Side conditions beyond the grammar's shape (each "
    "is a check the parser makes when it builds the node): a lambda's positional "
    "parameters have no default-less parameter after a defaulted one and all its parameter names are distinct "
    "(validate_pos_params / validate_arguments), the keyword names of a call are distinct (parse_args).  "
    "The full statement parse_unparse_full over every WF expression additionally has f-strings (JoinedStr / "
    "FormattedValue): their round trip goes through TEXT (the field text is re-lexed by string.rs), which the "
    "token-level theorem does not cover; it is stated, not proved — f-strings are covered by correspondence and by "
    "prec_table_ok / prec_table_exact / unparse_shape / unparse_slot_levels (slot fstringField)",
    "WF (lean/PV/Expr/Syntax.lean) is laxer than what the parser can produce in two places that InFragmentX makes "
    "precise (nesting of slices inside tuple indices, the lambda / call side conditions above), "
    "so parse_unparse_wf_partial (every WF tree minus the finding shapes) is not claimed; inFragX_wf proves "
    "InFragmentX ⊆ WF",
    "the theorem is about tokens; text-level facts (spacing, literal spelling, re-lexing) are correspondence only "
    "(constants: C16 / C17 theorems)",
    "fuel: the theorem says every sufficiently large fuel works (existential bound), not the driver's concrete "
    "fuelFor; the driver's bound is exercised by correspondence",
    "parse_unparse_full is false for the code as it is (parse_unparse_fails, witness fstring_witness): f-strings whose "
    "body needs escapes inside a replacement field; u-prefixed pieces of f-strings lose their kind.  Fixed in /repo "
    "and now regression theorems: dict `**` operands below `|` (dc8e40d), the float 0.9999999999999999 (5be0365), "
    "comprehension targets below `|` (comp_target_regression, comp_target_roundtrip)",
]
READY = True
TECHNIQUE = ("Lean 4 theorems over a hand-written model of the unparser and a reference parser + differential "
             "correspondence of both with the real crates + behaviourally extracted parenthesisation table")
LEVEL_TEXT = ("Machine-checked Lean 4: (1) for every (parent slot, child kind) pair the unparser model parenthesises "
              "whenever the grammar cannot derive the child bare — all 1883 admissible pairs, no exception; (2) for every expression the model's parenthesisation is "
              "exactly that table; (3) for every expression built from names, constants, attribute / subscript / call "
              "trailers (slices, tuple indices, starred / keyword / `**` arguments, the bare generator argument), list / "
              "tuple / set / dict displays (starred elements, `**` entries), await / yield, the boolean, unary, binary, "
              "comparison and conditional operators, lambda with every parameter kind, the four comprehension forms "
              "(several for / if clauses, async, any target the parser reads) and named expressions, of any size, the reference parser reads the "
              "model's token output back as the same tree and rendering is a fixed point. The model and the reference "
              "parser are tied to the Rust code on every run by byte-exact correspondence on directed, random and "
              "CPython-stdlib expression streams and by a parenthesisation table extracted from the real unparser.")
LEVEL_NOTE = ("Trusted: Lean kernel; fidelity of the hand-written unparser model and reference parser as sampled by "
              "correspondence; C16/C17 constant-text models; the LALRPOP automaton is not modelled; the round-trip "
              "theorem is token-level and does not cover f-strings (whose fields are re-lexed from text; stated in "
              "parse_unparse_full, checked by correspondence only).")
RULE = ("request lines `unparse <hex source>` sent to both the real crates and the Lean model; distinct = distinct "
        "source text; non-trivial = the expression has at least one operator or bracket")

# ------------------------------------------------------------------------------------------------ tables

BOOLOPS = [("and", "and"), ("or", "or")]
UNOPS = [("invert", "~"), ("not", "not "), ("uAdd", "+"), ("uSub", "-")]
BINOPS = [("add", "+"), ("sub", "-"), ("mult", "*"), ("matMult", "@"), ("div", "/"), ("mod", "%"), ("pow", "**"),
          ("lShift", "<<"), ("rShift", ">>"), ("bitOr", "|"), ("bitXor", "^"), ("bitAnd", "&"), ("floorDiv", "//")]
CMPOPS = ["==", "!=", "<", "<=", ">", ">=", "is", "is not", "in", "not in"]

# (kind name, bare sample text) in the order of PV.C11.allKinds
KINDS = ([("tuple", "a, b"), ("namedExpr", "w := x"), ("lambda", "lambda: x"), ("ifExp", "x if y else z")]
         + [("boolOp." + n, f"x {t} y") for n, t in BOOLOPS]
         + [("unary." + n, f"{t}x") for n, t in UNOPS]
         + [("compare", "x < y")]
         + [("binOp." + n, f"x {t} y") for n, t in BINOPS]
         + [("await", "await x"), ("atom", "x"), ("starred", "*x"), ("slice", "x:y")])

# (slot name, template in rendering shape with one %s) in the order of PV.C11.allSlots
SLOTS = ([("top", "%s")]
         + [("boolOperand." + n, f"%s {t} q") for n, t in BOOLOPS]
         + [("unaryOperand." + n, f"{t}%s") for n, t in UNOPS]
         + [("cmpLeft", "%s < q"), ("cmpRight", "p < %s")]
         + [("binLeft." + n, f"%s {t} q") for n, t in BINOPS]
         + [("binRight." + n, f"p {t} %s") for n, t in BINOPS]
         + [("awaitOperand", "await %s"), ("lambdaBody", "lambda: %s"), ("lambdaDefault", "lambda p=%s: q"),
            ("ifBody", "%s if p else q"), ("ifTest", "p if %s else q"), ("ifOrelse", "p if q else %s"),
            ("dictKey", "{%s: q}"), ("dictValue", "{p: %s}"), ("dictUnpack", "{**%s}"),
            ("setElt", "{%s, q}"), ("listElt", "[%s, q]"), ("tupleElt", "(%s, q)"), ("subTupleElt", "p[%s, q]"),
            ("listCompElt", "[%s for p in q]"), ("setCompElt", "{%s for p in q}"), ("genExpElt", "(%s for p in q)"),
            ("dictCompKey", "{%s: r for p in q}"), ("dictCompValue", "{r: %s for p in q}"),
            ("compTarget", "[r for %s in q]"), ("compTargetElt", "[r for %s, q in p]"), ("compIter", "[r for p in %s]"), ("compIf", "[r for p in q if %s]"),
            ("yieldValue", "(yield %s)"), ("yieldFromValue", "(yield from %s)"),
            ("callFunc", "%s(q)"), ("callArg", "p(%s, q)"), ("callKwValue", "p(k=%s)"), ("callDstarValue", "p(**%s)"),
            ("attrValue", "%s.r"), ("subValue", "%s[q]"), ("subSlice", "p[%s]"),
            ("sliceLower", "p[%s:q]"), ("sliceUpper", "p[q:%s]"), ("sliceStep", "p[q:r:%s]"),
            ("starredValue", "[*%s]"), ("namedValue", "[(w := %s)]"), ("fstringField", "f'{%s}'")])

LOW_PREC_KINDS = {"lambda", "ifExp", "boolOp.and", "boolOp.or", "unary.not", "compare"}


def admissible(slot, kind):
    """mirror of PV.C11.admissible"""
    if kind == "starred":
        return slot in ("setElt", "listElt", "tupleElt", "subTupleElt", "callArg", "subSlice", "listCompElt",
                        "compTarget", "compTargetElt")
    if kind == "slice":
        return slot in ("subSlice", "subTupleElt")
    return True


def fill(tmpl, x):
    return tmpl.replace("%s", x)


def triple_sources(slot, tmpl, kind, sample):
    """(source with the child parenthesised, the same with that pair removed)"""
    if kind in ("starred", "slice"):
        return fill(tmpl, sample), fill(tmpl, sample)
    return fill(tmpl, "(" + sample + ")"), fill(tmpl, sample)


def table_pairs():
    for sname, tmpl in SLOTS:
        for kname, sample in KINDS:
            if admissible(sname, kname):
                yield sname, tmpl, kname, sample


# ------------------------------------------------------------------------------------------------ pre_build

GEN_HEADER = """/-
  GENERATED by tools/props/c11.py (pre_build) on every run of ./check C11 — do not edit.
  Parenthesisation decisions of the REAL unparser (ast/src/unparse.rs through pvh_c11 `paren`), one entry per
  admissible (slot, child kind) pair in the order of PV.C11.allSlots × PV.C11.allKinds:
  1 = the child was rendered inside parentheses, 0 = bare, 2 = the harness could not decide.
-/
namespace PV.C11.Gen

def parenTable : List Nat :=
"""


XID_HEADER = """/-
  GENERATED by tools/props/c11.py (pre_build) on every run of ./check C11 — do not edit.
  How the REAL lexer (parser/src/lexer.rs: `unic_ucd_ident::{is_xid_start, is_xid_continue}`,
  `unic_emoji_char::is_emoji_presentation`) classifies the non-ASCII scalar values, observed through the lexer
  itself (harness pvh_c05 `clsdump`: `cx` is one name / `xc` is one name / `c` alone is a name although not a start),
  as closed ranges.  Parameter tables of the reference tokenizer PV.C11.lex (lean/PV/C11/Lexer.lean).
-/
namespace PV.C11.Gen

"""


def _ranges(cps):
    rs = []
    for x in sorted(c for c in cps if c >= 128):
        if rs and rs[-1][1] == x - 1:
            rs[-1][1] = x
        else:
            rs.append([x, x])
    return rs


def xid_table_text(tables):
    parts = [XID_HEADER]
    for name, key in (("xidStartRanges", "start"), ("xidContinueRanges", "continue"), ("emojiRanges", "emoji")):
        rs = _ranges(tables[key])
        body = ",\n   ".join(", ".join(f"({a}, {b})" for a, b in rs[i:i + 8]) for i in range(0, len(rs), 8))
        parts.append(f"def {name} : List (Nat × Nat) :=\n  [{body}]\n\n")
    parts.append("end PV.C11.Gen\n")
    return "".join(parts)


def write_xid_table():
    """extract the identifier / emoji classification of the real lexer into lean/PV/Gen/C11Xid.lean"""
    import lexcommon
    try:
        tables = lexcommon.cls_tables()
    except RuntimeError as e:
        return ("extract XID / emoji classification from the real lexer", False, str(e)[-300:])
    text = xid_table_text(tables)
    path = os.path.join(core.LEAN, "PV", "Gen", "C11Xid.lean")
    old = open(path).read() if os.path.exists(path) else None
    if old != text:
        with open(path, "w") as f:
            f.write(text)
    n = sum(len(_ranges(tables[k])) for k in ("start", "continue", "emoji"))
    return ("extract XID / emoji classification from the real lexer (%d ranges)" % n, n > 1000, "")


def pre_build(ctx):
    rc, out, hbin = core.cargo_build(HARNESS["bin"], HARNESS["features"])
    if rc != 0:
        return [("extract parenthesisation table (harness build)", False, out[-300:])]
    xid_result = write_xid_table()
    reqs = []
    for sname, tmpl, kname, sample in table_pairs():
        w, wo = triple_sources(sname, tmpl, kname, sample)
        reqs.append(f"paren {hexs(w)} {hexs(wo)}")
    answers = core.run_lines([hbin], reqs)
    vals, bad = [], []
    for (sname, _, kname, _), a in zip(table_pairs(), answers):
        if a == "paren=0":
            vals.append(0)
        elif a == "paren=1":
            vals.append(1)
        else:
            vals.append(2)
            bad.append(f"{sname}/{kname}: {a[:60]}")
    body = "  [" + ",\n   ".join(", ".join(str(v) for v in vals[i:i + 40]) for i in range(0, len(vals), 40)) + "]\n"
    text = GEN_HEADER + body + "\nend PV.C11.Gen\n"
    path = os.path.join(core.LEAN, "PV", "Gen", "C11Tables.lean")
    os.makedirs(os.path.dirname(path), exist_ok=True)
    old = open(path).read() if os.path.exists(path) else None
    if old != text:
        with open(path, "w") as f:
            f.write(text)
    ctx.extra["paren_table_entries"] = len(vals)
    return [("extract parenthesisation table from the real unparser (%d entries)" % len(vals), not bad,
             "; ".join(bad[:5])), xid_result]


# ------------------------------------------------------------------------------------------------ CPython helpers

KNOWN_PRINTABLE = "éßñü¡Ω€日本\U0001f600"
KNOWN_UNPRINTABLE = "\u0085 ­​ 　￿\U0010ffff͸"
KNOWN_NONASCII = set(KNOWN_PRINTABLE + KNOWN_UNPRINTABLE)
F_NEAR_ONE = 0.9999999999999999


def py_tree(src):
    """CPython's tree of an expression source, or None when CPython rejects it"""
    try:
        return ast.parse(src, mode="eval").body
    except (SyntaxError, ValueError, RecursionError, MemoryError):
        return None


def py_dump(src):
    t = py_tree(src)
    return None if t is None else ast.dump(t)


_PY_BINOP = {"Add": "Add", "Sub": "Sub", "Mult": "Mult", "MatMult": "MatMult", "Div": "Div", "Mod": "Mod",
             "Pow": "Pow", "LShift": "LShift", "RShift": "RShift", "BitOr": "BitOr", "BitXor": "BitXor",
             "BitAnd": "BitAnd", "FloorDiv": "FloorDiv"}


def _hx(s):
    b = s.encode("utf-8", "surrogatepass") if isinstance(s, str) else bytes(s)
    return b.hex() if b else "-"


def py_canon(n):
    """CPython tree in the canonical form of lean/Drv/C11.lean `dump` / pvh_c11 `dump`"""
    def opt(x):
        return "~" if x is None else py_canon(x)

    def lst(xs):
        return "".join(" " + py_canon(x) for x in xs)

    def comps(gs):
        return "".join(f" (Comp {py_canon(g.target)} {py_canon(g.iter)} {1 if g.is_async else 0}{lst(g.ifs)})"
                       for g in gs)
    t = type(n).__name__
    if t == "Name":
        return f"(Name {_hx(n.id)})"
    if t == "Constant":
        v = n.value
        if v is None:
            return "(Const none)"
        if v is True:
            return "(Const true)"
        if v is False:
            return "(Const false)"
        if v is Ellipsis:
            return "(Const ellipsis)"
        if isinstance(v, int):
            return f"(Const int {v})"
        if isinstance(v, float):
            return "(Const float %016x)" % struct.unpack(">Q", struct.pack(">d", v))[0]
        if isinstance(v, complex):
            return "(Const imag %016x)" % struct.unpack(">Q", struct.pack(">d", v.imag))[0]
        if isinstance(v, str):
            return f"(Const str {_hx(v)} {'u' if n.kind == 'u' else '~'})"
        if isinstance(v, bytes):
            return f"(Const bytes {_hx(v)})"
        return "(Const ?)"
    if t == "BoolOp":
        return f"(BoolOp {type(n.op).__name__}{lst(n.values)})"
    if t == "NamedExpr":
        return f"(NamedExpr {py_canon(n.target)} {py_canon(n.value)})"
    if t == "BinOp":
        return f"(BinOp {type(n.op).__name__} {py_canon(n.left)} {py_canon(n.right)})"
    if t == "UnaryOp":
        return f"(UnaryOp {type(n.op).__name__} {py_canon(n.operand)})"
    if t == "Lambda":
        a = n.args
        pos = a.posonlyargs + a.args
        dflt = [None] * (len(pos) - len(a.defaults)) + list(a.defaults)

        def par(arg, d):
            return f" (P {_hx(arg.arg)} {opt(d)})"
        po = "".join(par(x, d) for x, d in zip(pos[:len(a.posonlyargs)], dflt[:len(a.posonlyargs)]))
        ar = "".join(par(x, d) for x, d in zip(pos[len(a.posonlyargs):], dflt[len(a.posonlyargs):]))
        ko = "".join(par(x, d) for x, d in zip(a.kwonlyargs, a.kw_defaults))
        va = _hx(a.vararg.arg) if a.vararg else "~"
        kw = _hx(a.kwarg.arg) if a.kwarg else "~"
        return f"(Lambda (posonly{po}) (args{ar}) (vararg {va}) (kwonly{ko}) (kwarg {kw}) {py_canon(n.body)})"
    if t == "IfExp":
        return f"(IfExp {py_canon(n.test)} {py_canon(n.body)} {py_canon(n.orelse)})"
    if t == "Dict":
        return "(Dict" + "".join(f" ({opt(k)} {py_canon(v)})" for k, v in zip(n.keys, n.values)) + ")"
    if t == "Set":
        return f"(Set{lst(n.elts)})"
    if t == "ListComp":
        return f"(ListComp {py_canon(n.elt)}{comps(n.generators)})"
    if t == "SetComp":
        return f"(SetComp {py_canon(n.elt)}{comps(n.generators)})"
    if t == "DictComp":
        return f"(DictComp {py_canon(n.key)} {py_canon(n.value)}{comps(n.generators)})"
    if t == "GeneratorExp":
        return f"(GeneratorExp {py_canon(n.elt)}{comps(n.generators)})"
    if t == "Await":
        return f"(Await {py_canon(n.value)})"
    if t == "Yield":
        return f"(Yield {opt(n.value)})"
    if t == "YieldFrom":
        return f"(YieldFrom {py_canon(n.value)})"
    if t == "Compare":
        return f"(Compare {py_canon(n.left)}" + "".join(
            f" ({type(o).__name__} {py_canon(c)})" for o, c in zip(n.ops, n.comparators)) + ")"
    if t == "Call":
        return (f"(Call {py_canon(n.func)} (args{lst(n.args)}) (kws" +
                "".join(f" ({_hx(k.arg) if k.arg is not None else '~'} {py_canon(k.value)})" for k in n.keywords) + "))")
    if t == "FormattedValue":
        return f"(FormattedValue {py_canon(n.value)} {0 if n.conversion == -1 else n.conversion} {opt(n.format_spec)})"
    if t == "JoinedStr":
        return f"(JoinedStr{lst(n.values)})"
    if t == "Attribute":
        return f"(Attribute {py_canon(n.value)} {_hx(n.attr)})"
    if t == "Subscript":
        return f"(Subscript {py_canon(n.value)} {py_canon(n.slice)})"
    if t == "Starred":
        return f"(Starred {py_canon(n.value)})"
    if t == "List":
        return f"(List{lst(n.elts)})"
    if t == "Tuple":
        return f"(Tuple{lst(n.elts)})"
    if t == "Slice":
        return f"(Slice {opt(n.lower)} {opt(n.upper)} {opt(n.step)})"
    return f"(?{t})"


def _const_quotes(v):
    """(has_single, has_double, has_backslash) of the repr of a str / bytes constant (CPython's repr makes the
    same quote choice as literal/src/escape.rs on the characters used here)"""
    r = repr(v)
    return "'" in r, '"' in r, "\\" in r


def _joined_quotes(js):
    """(has_single, has_double, has_backslash) of the text `unparse_joined_str` produces for a JoinedStr,
    and whether an escape lands inside one of its replacement fields"""
    s1 = s2 = bs = False
    fields = []

    def pieces(vals):
        nonlocal s1, s2, bs
        for v in vals:
            if isinstance(v, ast.Constant) and isinstance(v.value, str):
                s1 |= "'" in v.value
                s2 |= '"' in v.value
                bs |= "\\" in repr(v.value)
            elif isinstance(v, ast.FormattedValue):
                fields.append(_expr_quotes(v.value))
                if isinstance(v.format_spec, ast.JoinedStr):
                    pieces(v.format_spec.values)
    pieces(js.values)
    bad = False
    for f1, f2, fb, fbad in fields:
        s1 |= f1
        s2 |= f2
        bs |= fb
        bad |= fbad or fb
    if any(f[0] for f in fields) and s2:
        bad = True          # outer quote is ', every ' inside a field gets a backslash
    if s1 and not s2:
        return True, True, bs, bad          # delimiter "
    if s1 and s2:
        return True, True, True, bad        # delimiter ', inner ' escaped
    return True, s2, bs, bad                # delimiter '


def _expr_quotes(node):
    """quotes / backslashes in the rendering of an arbitrary expression (4th component: an f-string inside it
    already has the escape-in-field problem)"""
    s1 = s2 = bs = bad = False

    def walk(n):
        nonlocal s1, s2, bs, bad
        if isinstance(n, ast.JoinedStr):
            a, b, c, d = _joined_quotes(n)
            s1 |= a
            s2 |= b
            bs |= c
            bad |= d
            return
        if isinstance(n, ast.Constant) and isinstance(n.value, (str, bytes)):
            a, b, c = _const_quotes(n.value)
            s1 |= a
            s2 |= b
            bs |= c
            return
        for ch in ast.iter_child_nodes(n):
            walk(ch)
    walk(node)
    return s1, s2, bs, bad


def fstring_escape_shape(js):
    """the rendering of this JoinedStr needs an escape inside a replacement field"""
    return _joined_quotes(js)[3]


def finding_shapes(tree):
    """set of known-finding keys whose tree shape occurs in a CPython tree"""
    keys = set()
    for n in ast.walk(tree):
        if isinstance(n, ast.JoinedStr):
            if fstring_escape_shape(n):
                keys.add("fstring-escape-inside-replacement-field")
            if any(isinstance(v, ast.Constant) and getattr(v, "kind", None) == "u" for v in n.values):
                keys.add("fstring-u-kind-dropped")
    return keys


def in_lexer_domain(src):
    """inside the domain of the Lean reference tokenizer"""
    if "\\N{" in src or "\t" in src or "\r" in src:
        return False
    for c in src:
        if ord(c) > 126 and c not in KNOWN_NONASCII:
            return False
        if ord(c) < 32 and c != "\n":
            return False
    return True


def tree_in_domain(tree):
    """every non-ASCII character of every string constant / identifier is one whose printability the driver knows
    (escapes such as '\\377' in a str literal produce characters that do not occur in the source text)"""
    for n in ast.walk(tree):
        if isinstance(n, ast.Constant) and isinstance(n.value, str):
            if any(ord(c) > 126 and c not in KNOWN_NONASCII and not 0xD800 <= ord(c) <= 0xDFFF for c in n.value):
                return False
    return True


# ------------------------------------------------------------------------------------------------ oracle

_ANS = re.compile(r"ok tree=(.*) text=(\S+) reparse=([01]) equal=([01]) fix=([01])$")


def rendered_text(out):
    m = _ANS.match(out or "")
    if not m or m.group(2) == "panic":
        return None
    try:
        return unhex(m.group(2)).decode("utf-8")
    except (ValueError, UnicodeDecodeError):
        return None


def oracle(req, out):
    """Judge the real code: rendering re-parses to an equal tree and is a fixed point (its own verdicts), and
    CPython reads source and rendering as the same tree where it accepts both."""
    ws = req.split()
    if ws[0] != "unparse":
        return None
    if out in ("(panic)", "(abort)", "(timeout)"):
        return "implementation " + out
    if out == "parse-error":
        return None         # not a tree the parser can produce: outside the property's quantifier
    m = _ANS.match(out)
    if not m:
        return "unparsable answer"
    if m.group(2) == "panic":
        return "rendering panicked"
    if m.group(3) != "1":
        return "the rendering is rejected by the parser"
    if m.group(4) != "1":
        return "the rendering parses to a different tree"
    if m.group(5) != "1":
        return "rendering is not a fixed point"
    src = unhex(ws[1]).decode("utf-8")
    text = rendered_text(out)
    # second opinion: CPython must read the rendering as the same tree as the source — or, where this parser
    # and CPython already disagree about the SOURCE (C01's business, e.g. `U''`, lone surrogates),
    # as the tree this parser had.
    a = py_dump(src)
    tb = py_tree(text) if a is not None and text is not None else None
    if tb is not None and ast.dump(tb) != a and py_canon(tb) != m.group(1):
        return "CPython reads the rendering as a different tree than the source"
    return None


def fstring_backslash_in_field(text):
    """the rendered text contains an f-string literal with a backslash inside a replacement field"""
    i, n = 0, len(text)
    while i < n:
        c = text[i]
        if c in "'\"":
            isf = i > 0 and text[i - 1] == "f" and (i < 2 or not (text[i - 2].isalnum() or text[i - 2] == "_"))
            q = c
            j = i + 1
            depth = 0
            while j < n and text[j] != q:
                ch = text[j]
                if ch == "\\":
                    if isf and depth > 0:
                        return True
                    j += 2
                    continue
                if isf:
                    if ch == "{":
                        if depth == 0 and j + 1 < n and text[j + 1] == "{":
                            j += 2
                            continue
                        depth += 1
                    elif ch == "}":
                        if depth == 0 and j + 1 < n and text[j + 1] == "}":
                            j += 2
                            continue
                        depth = max(0, depth - 1)
                j += 1
            i = j + 1
        else:
            i += 1
    return False


def classify(req, impl_out, model_out, failure):
    """Known findings, narrowly: the model must predict the implementation's answer exactly (so the deviation
    is the modelled mechanism, nothing else), the tree must contain exactly one finding shape, and the verdict
    pattern must be the one that mechanism produces."""
    ws = req.split()
    if ws[0] != "unparse" or impl_out != model_out:
        return None
    m = _ANS.match(impl_out or "")
    if not m:
        return None
    verdict = m.group(3) + m.group(4) + m.group(5)
    try:
        src = unhex(ws[1]).decode("utf-8")
    except UnicodeDecodeError:
        return None
    tree = py_tree(src)
    if tree is None:
        return None
    shapes = finding_shapes(tree)
    text = rendered_text(impl_out) or ""
    if fstring_backslash_in_field(text):
        shapes.add("fstring-escape-inside-replacement-field")
    else:
        shapes.discard("fstring-escape-inside-replacement-field")
    if len(shapes) != 1:
        return None
    key = next(iter(shapes))
    if key == "fstring-escape-inside-replacement-field":
        # rejected (backslash outside a quoted run of the field) or read back with doubled backslashes
        return key if verdict in ("000", "100") else None
    if key == "fstring-u-kind-dropped":
        return key if verdict == "101" else None
    return None


_FSTRING_LITERAL = re.compile(r"""(?<![A-Za-z0-9_])(?:[fF][rR]?|[rR][fF])['"]""")


def cand_ok(src):
    """a candidate of the violation search: no known-finding shape in it.  Where CPython rejects the source (this
    parser accepts more, e.g. any expression as a comprehension target) the shapes — all about f-strings — are
    excluded by the absence of f-string literals."""
    t = py_tree(src)
    if t is not None:
        return not finding_shapes(t)
    return not _FSTRING_LITERAL.search(src)


def search(ctx, disagreements, bins):
    """Violation search: the model no longer predicts the implementation on some inputs although the oracle was
    content with them.  Put each disagreeing expression (and its rendering) into every parent slot, both bare
    and parenthesised, and judge the real code with the oracle."""
    hbin = bins.get((HARNESS["bin"], HARNESS.get("features", "default")))
    if not hbin:
        return None
    if not disagreements:
        # a proof obligation broke (e.g. the extracted parenthesisation table no longer equals the model's) and the
        # streams were not run: judge the real code on the directed enumeration and the corpus
        cands = directed_requests(full=False) + [s for s in CORPUS if py_tree(s) is not None
                                                 and not finding_shapes(py_tree(s))]
        cands += [s for s in TARGET_CORPUS + target_requests() if cand_ok(s)]
        reqs = [req(c) for c in cands]
        outs = core.run_lines([hbin], reqs, jobs=8)
        for r, o in zip(reqs, outs):
            f = oracle(r, o)
            if f:
                return {"request": r, "impl": o, "failure": f, "stream": "violation-search",
                        "source": unhex(r.split()[1]).decode("utf-8")}
        return None
    seeds = []
    for d in disagreements[:40]:
        try:
            src = unhex(d["request"].split()[1]).decode("utf-8")
        except Exception:
            continue
        seeds.append(src)
        t = rendered_text(d.get("impl") or "")
        if t:
            seeds.append(t)
    cands, seen = [], set()
    for s in seeds:
        if len(s) > 300:
            continue
        for _, tmpl in SLOTS:
            for inner in ("(" + s + ")", s):
                c = fill(tmpl, inner)
                if c not in seen and cand_ok(c):
                    seen.add(c)
                    cands.append(c)
        for _, tmpl1 in SLOTS[::5]:
            for _, tmpl2 in SLOTS[::7]:
                c = fill(tmpl1, "(" + fill(tmpl2, "(" + s + ")") + ")")
                if c not in seen and py_tree(c) is not None and not finding_shapes(py_tree(c)):
                    seen.add(c)
                    cands.append(c)
    reqs = [req(c) for c in cands[:20000]]
    outs = core.run_lines([hbin], reqs, jobs=8)
    for r, o in zip(reqs, outs):
        f = oracle(r, o)
        if f:
            return {"request": r, "impl": o, "failure": f, "stream": "violation-search",
                    "source": unhex(r.split()[1]).decode("utf-8")}
    return None


# ------------------------------------------------------------------------------------------------ generators

def req(src):
    return "unparse " + hexs(src)


CORPUS = """
a + b * c
(a+b)*c
lambda x, /, y=1, *a, k, **kw: (yield)
x[1:2, ::3]
[a for a, in b if c if d]
f(x for x in y)
'a' "b" 'it\\'s'
1e400 + 1e16j - 1e-7 + 0x_ff
a if b else c if d else e
not a < b == c
-2 ** -x ** (await y)
f'{x!r:>{w}}' 'tail'
f"{x=}" f'{ x = }'
{1: 2, **a, 3: 4}
{*a, b}
(a := 1, *b)
x[a := 1]
x[*a]
x[()]
lambda: 0
lambda *a: a
lambda **k: k
lambda *, a=1: a
lambda a=1, /, b=2: a
1 .real
1.0.real
1j.imag
b'\\x00\\xff\\'"' + b"it's"
'\\x00\\x7f\\xa0\\xe9\\u200b\\U0001f600'
(yield a, b)
(yield from a)
[*a, *b]
f(*a, b, **c, d=1)
f(a)(b)[c].d
a if (b if c else d) else e
(lambda: 1) if a else b
not (not a)
- - a
~-+a
a ** b ** c
(a ** b) ** c
(-a) ** b
a < (b < c)
(a, b)
a,
()
1e22
1e16
123456789012345678901234567890.0
1.5e-5
0.0001
0.00001
5e-324
1.7976931348623157e308
True if None else ...
{a: b for a, b in c}
{a for a in b}
(a async for a in b)
f(a for a in b if c)
x[1:2:3]
x[::]
x[:, 1]
x[a:b, c:d:e]
(a for a in b for c in d if e)
f'{x}{y!s}{z!a:>10}'
f'{{}}'
f'a{{b}}{c}'
f'{ {1: 2} }'
f'{a!r}'
f"{'a' if b else 'c'}"
f'{x:{y}.{z}}'
await f(x)
{**(a or b)}
{**(a and b)}
{**(not a)}
{**(a < b)}
{**(a if b else c)}
{**(lambda: a)}
{1: 2, **(a or b)}
{**a, **b}
{**a | b}
{**(a | b)}
{**-a}
{**a.b(c)[d]}
0.9999999999999999
x + 0.99999999999999989
0.9999999999999998
1.0000000000000002
0.9999999999999999j
4503599627370497.5
9007199254740993.0
1e15
999999999999999.9
1e-4
0.1 + 0.2
2.5e-5j
f''
f'{f"{x}"}'
f"{a['b']}"
f'{a["b"]}'
f"it's {x}"
f'say "{x}"'
f'{x}\\n{y}\\\\'
rf'{x}\\d'
f'{lambda: 1}' if 0 else f'{(lambda: 1)}'
f'{(yield)}'
f'{a, b}'
f'{(a := 1)}'
f'{a != b}'
f'{a!r:{b}>{c}}'
(*a,)
{*a}
f((a for a in b), c)
f((a for a in b), k=1)
f(*(a for a in b))
print(*a, sep='')
(await a)[0]
(await a) ** 2
2 ** await a
-(await a)
a or (b or c)
(a or b) or c
a and b or c and d
a or b and c or d
not a or not b
a if not b else not c
lambda: lambda: 0
lambda a=lambda: 1: a
lambda a=(b, c): a
lambda a=(yield): a
[lambda: x for x in y if (lambda: z)()]
[x for x in (y if z else w)]
[x for x in y if (z if w else v)]
[(a, b) for a in b]
{a: (b, c) for a in b}
x[lambda: 1:2]
x[(a := 1):2]
x[a, (b, c)]
x[(a,)]
x[a:b:c, d::e]
(1).real
(-1).real
1e16.real
1e309.real
10 ** 20 .real
u'abc'
'\\t\\n\\r\\x0b\\x0c\\\\'
"'"
'"'
'\\'"'
b'\\'"'
'é ​\U0001f600￿'
''
b''
....__class__
None is None is not None
a in b not in c
a < b <= c == d != e > f >= g
+a - -b * ~c
a @ b @ c
a // b % c
a << b >> c
a | b ^ c & d
(a | b) ^ (c & d)
a << (b + c)
(a << b) + c
a ** -b
(a ** b)(c)
a.b ** c.d
-a ** b
(not a) + b
(a and b) + c
(a if b else c) + d
(lambda: a)(b)
(a, b) + c
[*(a or b)]
f(*a or b)
f(**a or b)
f(k=a or b)
""".strip("\n").split("\n")

# behaviours of the f-string scanner repaired in /repo (c09f12b, 897a1b6, 40fcb23, dfa74fc, d717a96) and the former
# dict-`**` finding (fixed by dc8e40d)
CORPUS += [
    'f"""{\'\'\'x\'\'\'}"""', "f'{x:a\\nb}'", "f'{x:\\x41{y}\\t}'", "rf'{x:\\n}'", "f'{x:\\{y}}'",
    "'' f'{x}'", "f'' 'a' f'{y}'", "f'{x}' ''", "'' f''", "f'{x =  }'", "f'{x=\t}'", "f'{x=!r}'", "f'{x=:>5}'",
    "f'{x = !s:>{w}}'", "{**(a or b), 'k': 1, **(lambda: c)}", "{**a ** b, **(yield)}", "{**(a, b)}",
]

# Directed requests for three places where the reference parser / tokenizer used to deviate from the code without
# any stream noticing (found by the PROG builder): (a) EmptyExpression when a format spec / conversion follows an
# empty field, (b) the field text is lexed INSIDE the parentheses string.rs wraps it in (line breaks, `#` comments),
# (c) non-ASCII characters outside string literals are classified by the XID / emoji tables.  Both sides must answer
# identically, `parse-error` included (this stream is not filtered through CPython; the oracle ignores rejected inputs).
# constructs of the extended proved fragment (InFragmentX): parameter lists with `/` and defaults, several comprehension
# clauses with `async`, starred / keyword / `**` arguments in every legal order, slices in tuple indices, named
# expressions where the unparser parenthesises them
CORPUS += [
    "lambda a=1, /, b=2: a", "lambda a, b=1, /, c=2, *d, e, f=3, **g: a", "lambda a, /: a", "lambda a, /, *, b: a",
    "lambda a=1, /: a", "lambda a, b, /, c: a", "lambda *, a: a", "lambda *a, b=1, **c: a", "lambda a, *, b, **c: a",
    "lambda a=(lambda b=1, /, c=2: b), /, d=3: a",
    "[x async for x in y async for z in w]", "[x for x in y async for z in w]", "[x async for x in y for z in w async for u in v]",
    "{x: y async for x in a if b async for y in c if d if e}", "(x for x in y for z in w async for u in v)",
    "{x async for x, *y in z for (a, b), c in d}", "f(x async for x in y async for z in w)",
    "f(*a, k=1, **b, m=2)", "f(k=1, *a)", "f(a, *b, c, *d, k=1)", "f(**a, **b)", "f(*a, *b)", "f(a, k=(x for x in y))",
    "f((x for x in y), k=1)", "f(a)(*b)(**c)(k=d)", "f(x := 1, *y, k=(z := 2))",
    "x[a:b, ::c, *d, (e := 1)]", "x[a:b:c]", "x[:]", "x[::]", "x[a:]", "x[:b]", "x[::c]", "x[a::c]", "x[:b:c]", "x[a:b,]",
    "x[*a, b:c]", "x[*a,]", "x[e := 1]", "x[(a, b):c]", "x[lambda: 1:lambda: 2:lambda: 3]", "x[a if b else c:d]",
    "x[(yield):(yield a)]", "(yield *a)", "(yield (*a, b))", "[(x := 1), (y := (z := 2))]", "{(x := 1): (y := 2)}",
    "(x := 1) + (y := 2)", "(x := 1)(y)", "(x := 1).real", "(x := 1)[y]", "lambda: (x := 1)", "[(x := 1) for y in (z := 2) if (w := 3)]",
    "{*a, *b}", "[*a, b, *c]", "(*a, b)", "[*a or b]", "[*a | b]", "[*(a, b)]", "[*(x := 1)]",
]

FIDELITY_DIRECTED = [
    # (a)
    "f'{:x}'", "f'{!r}'", "f'{=:x}'", "f'{=}'", "f'{ :x}'", "f'{ = :x}'", "f'{}'", "f'{ }'", "f'{!r:x}'", "f'{ !r}'",
    "f'{\u3000}'", "f'{\u3000:x}'", "f'{\xa0!r}'", "f'{x:}'", "f'{x=:x}'", "f'{x!r:}'", "f'{x = }'", "f'{x = :}'",
    "f'{x:{:y}}'", "f'{x:{}}'", "f'{x:{=}}'", "f'{x:{y:{z}}}'", "f'a{:>{w}}'", "f'{x}{:x}'", "f'{{}}{:x}'",
    # (b)
    "f'''{a\n}'''", "f'''{\na}'''", "f'''{a\n+b}'''", "f'''{a #c\n}'''", "f'{#}'", "f'{a#}'", "f'{a#b}'",
    "f'''{#\n}'''", "f'''{a #c\n:x}'''", "f'''{a\n=}'''", "f'''{a\n!r}'''", "f'''{\n}'''", "f'''{\n:x}'''",
    "f'{\"#\"}'", "f'''{'''#'''}'''", "f'{(a,#)}'", "f'''{(a,#\n)}'''", "f'''{a,#\n}'''", "f'''{[a,\nb]}'''",
    "f'''{a\nb}'''", "f'''{a if b\nelse c}'''", "f'''{x:{a\n}}'''", "f'''{x:{#\n}}'''", "f'''{lambda:\n1}'''",
    "f'''{(lambda:\n1)}'''", "f'{a;b}'", "f'{a\\\n}'", "f\"\"\"{'a'\n'b'}\"\"\"", "f'''{a\n\n}'''", "f'''{ \n a \n }'''",
    "(a\n)", "a\n", "a #c", "a\n\n", "(a #c\n)", "[a,\n#c\nb]",
    # (c)
    "\U0001f600", "\U0001f600x", "x\U0001f600", "f'{\U0001f600}'", "f'{\U0001f600x}'", "f'{x\U0001f600}'", "f'{\U0001f600!r:>3}'",
    "\U0001f600 + \U0001f600", "\U0001f600.a", "\U0001f600(\U0001f600)", "a \U0001f600", "\U0001f600\U0001f600", "lambda \U0001f600: \U0001f600",
    "x\xb7y", "\xb7y", "\xb7", "a + \xe9", "\xe9t\xe9", "f'{\xe9t\xe9}'", "a \u20ac", "\u20ac", "f'{\u20ac}'", "\u65e5\u672c", "f'{\u65e5\u672c}'",
    "x\u0301", "\u0301x", "a\u2118", "\u2118", "x\u203f", "\xaa", "\xa0", "a\xa0b", "a \xa0", "\u3000a", "x\u200b", "\ufeffa",
    "\u00b2", "x\u00b2", "\u2460", "\u0660", "x\u0660", "\U0001d7ce", "x\U0001d7ce", "\u231a", "\u00a9", "\u2614x",
]

FINDING_PROBES = {
    "fstring-escape-inside-replacement-field": ["f'''{d['a']}\"'''", "f'''{f\"{f'{x}'}\"}'''",
                                                "f'''{\"\"\"a\"b\"\"\"}'''",
                                                "f\"\"\"{'''\n'''}\"\"\""],
    "fstring-u-kind-dropped": ["u'a' f'{x}'"],
}


def directed_requests(full):
    """every (slot, child kind) pair, child parenthesised and — where CPython accepts it — bare; finding
    shapes are left to the probe stream"""
    out = []
    for sname, tmpl, kname, sample in table_pairs():
        w, wo = triple_sources(sname, tmpl, kname, sample)
        for s in (w, wo):
            t = py_tree(s)
            if t is not None and not finding_shapes(t):
                out.append(s)
    # every comparison operator with every operand kind on both sides
    for opx in CMPOPS:
        for kname, sample in KINDS:
            if kname in ("starred", "slice"):
                continue
            out.append(f"({sample}) {opx} q")
            out.append(f"p {opx} ({sample})")
            out.append(f"p {opx} ({sample}) {opx} q")
    # every ordered pair of binary / unary / boolean operators, both nesting sides, with and without parentheses
    ops = [t for _, t in BINOPS] + ["and", "or"] + CMPOPS[:3] + ["in", "is not"]
    for o1 in ops:
        for o2 in ops:
            out.append(f"(a {o1} b) {o2} c")
            out.append(f"a {o1} (b {o2} c)")
            out.append(f"a {o1} b {o2} c")
    for _, u in UNOPS:
        for _, t in BINOPS:
            out += [f"{u}a {t} b", f"{u}(a {t} b)", f"a {t} {u}b", f"({u}a) {t} b"]
        for _, u2 in UNOPS:
            out += [f"{u}{u2}a", f"{u}({u2}a)"]
    # what the rendering of a child BEGINS with matters to some parents (an f-string field must not begin with `{`,
    # an attribute of an int literal needs a blank or parentheses, ...): atoms with every kind of first token at the
    # left edge of every left-recursive slot, at top level and inside f-string fields
    edge_atoms = ["{x: y}", "{x, y}", "{x for x in y}", "{x: y for x in z}", "{}", "{**x}", "[x]", "(x, y)", "()", "'s'", "b's'",
                  "f'{x}'", "1", "1.5", "1j", "0x1", "1e5", "...", "None", "x", "-1", "not x", "lambda: x", "x if y else z"]
    left_slots = [(n, t) for n, t in SLOTS if t.startswith("%s") and n != "top"]
    outers = ["%s", "f'{%s}'", "f'{%s!r:>5}'", "f\"\"\"{%s}\"\"\"", "f'{%s}{%s}'", "f'a{%s:{%s}}'", "[f'{%s}']"]
    for atom in edge_atoms:
        for _, t2 in left_slots:
            for inner in (fill(t2, "(" + atom + ")"), fill(t2, atom)):
                for o in outers:
                    src = o.replace("%s", inner)
                    t = py_tree(src)
                    if t is not None and not finding_shapes(t):
                        out.append(src)
    if full:
        # two levels: slot in slot
        for s1, t1 in SLOTS:
            for s2, t2 in SLOTS:
                for kname, sample in (("ifExp", "x if y else z"), ("boolOp.or", "x or y"), ("binOp.pow", "x ** y"),
                                      ("unary.uSub", "-x"), ("tuple", "a, b"), ("lambda", "lambda: x")):
                    if not (admissible(s1, "atom") and admissible(s2, kname)):
                        continue
                    inner = fill(t2, "(" + sample + ")")
                    s = fill(t1, "(" + inner + ")")
                    t = py_tree(s)
                    if t is not None and not finding_shapes(t):
                        out.append(s)
    seen, res = set(), []
    for s in out:
        if s not in seen and py_tree(s) is not None:
            seen.add(s)
            res.append(s)
    return res


# ---- comprehension targets (the parser does not validate them; CPython rejects most of these sources, so these
# ---- streams are NOT filtered by CPython acceptance as all the others are)

# hand-written: the reproduction inputs of the (fixed) finding and the targets that always round-tripped
TARGET_CORPUS = [
    "[x for (a if b else c) in y]", "[x for (lambda: a) in y]", "[x for (a or b) in y]", "[x for (a and b) in y]",
    "[x for (not a) in y]", "[x for (a < b) in y]", "[x for (a := b) in y]", "[x for (a in b) in y]",
    "[x for (a not in b) in y]", "[x for (a is b) in y]", "[x for (not a in b) in y]",
    "[x for (a or b), c in y]", "[x for c, (a if b else c) in y]", "[x for (lambda: a), in y]",
    "[x for (a := b), c in y]", "[x for (a, (b or c)) in y]", "[x for (a if b else c), (lambda: d) in y]",
    "[x for (a if b else c), (lambda: d), *e, (f := 1), (g, h) in y for (not a) in z for (a < b or c), in w]",
    "{x for (a if b else c) in y}", "{x: z for (a if b else c) in y}", "(x for (a if b else c) in y)",
    "f(x for (a if b else c) in y)", "[x async for (a if b else c) in y]", "[x for p in q for (a or b), c in y]",
    "[x for (lambda p, /, q=1, *r, s, **t: p), u in y]", "[x for (a if (b if c else d) else e) in y]",
    "[x for ((a or b) and c) in y]", "[x for (a or b) | c in y]", "[x for -(a or b) in y]", "[x for (a or b).c in y]",
    "[x for (a or b)[0] in y]", "[x for (a or b)(c) in y]", "[x for *(a or b), c in y]", "[x for [(a or b), c] in y]",
    "[x for ((a or b), c), d in y]", "[x for (yield) in y]", "[x for (yield a), b in y]", "[x for (await a) in y]",
    "[x for (await a), b in y]", "[x for 1 in y]", "[x for 'a', b'b' in y]", "[x for f'{a}' in y]", "[x for ... in y]",
    "[x for None, True in y]", "[x for a + b, c ** d in y]", "[x for a | b in y]", "[x for ~a, -b, +c in y]",
    "[x for *a, b in y]", "[x for (a, b), c in y]", "[x for a, in y]", "[x for *a in y]", "[x for *a, in y]",
    "[x for (a, b) in y]", "[x for (a,) in y]", "[x for () in y]", "[x for (), in y]", "[x for ((a, b)) in y]",
    "[x for ((a, b),) in y]", "[x for [a, b] in y]", "[x for [] in y]", "[x for {a: b} in y]", "[x for {a, b} in y]",
    "[x for [a for a in b] in y]", "[x for (a for a in b) in y]", "[x for a.b, c[d], e(f) in y]", "[x for a, b, in y]",
    "[x for (a if b else c) in (d if e else f) if (g if h else i)]",
    "[[x for (a or b) in y] for (c and d) in [z for (not e) in w]]",
    "lambda: [x for (lambda: a) in y]", "[x for (a := (b := c)) in y]", "[x for (a == b != c), d in y]",
]

# target element kinds beyond KINDS
TARGET_EXTRA_KINDS = [("compare.in", "x in y"), ("compare.notIn", "x not in y"), ("compare.is", "x is y"),
                      ("compare.isNot", "x is not y"), ("compare.chain", "x < y <= z"), ("not.in", "not x in y"),
                      ("lambda.params", "lambda p, *q: x"), ("ifExp.nested", "x if y else z if w else v"),
                      ("boolOp.mixed", "x and y or z"), ("yield", "(yield)"), ("genExp", "(x for x in y)"),
                      ("call", "x(y)"), ("attribute", "x.y"), ("subscript", "x[y]"), ("list", "[x, y]"),
                      ("emptyTuple", "()"), ("int", "1"), ("str", "'s'")]

# where the element stands in the target list
TARGET_POSITIONS = [("alone", "%s"), ("first", "%s, q"), ("last", "p, %s"), ("middle", "p, %s, q"), ("single", "%s,"),
                    ("inParenTuple", "(p, %s), q"), ("parenTuple", "(%s, q)"), ("inList", "[%s, q]"),
                    ("starred", "*%s, q")]

# the comprehension around it
TARGET_FRAMES = [("listComp", "[r for %s in y]"), ("setComp", "{r for %s in y}"), ("dictComp", "{r: s for %s in y}"),
                 ("genExp", "(r for %s in y)"), ("callGen", "f(r for %s in y)"), ("async", "[r async for %s in y]"),
                 ("secondClause", "[r for a in b if c for %s in y if d]"), ("firstClause", "{r async for %s in y for a in b}")]


def target_requests():
    """every child kind x position in the target list x comprehension form, child parenthesised and bare (a bare
    low-precedence child is a different expression or a syntax error: both sides must agree on that as well)"""
    out, seen = [], set()
    for kname, sample in KINDS + TARGET_EXTRA_KINDS:
        if kname == "slice":
            continue
        forms = [sample] if kname == "starred" else ["(" + sample + ")", sample]
        for form in forms:
            for pname, pos in TARGET_POSITIONS:
                if kname == "starred" and pname == "starred":
                    continue
                for _, frame in TARGET_FRAMES:
                    s = fill(frame, fill(pos, form))
                    if s not in seen:
                        seen.add(s)
                        out.append(s)
    return out


def beyond_cpython_requests():
    """what the directed enumeration and the corpus DROP because CPython rejects the source although this parser may
    accept it (`[*x for p in q]`, `(yield *x)`, `p[*x:q]`-like shapes, starred / named / tuple / conditional children
    slot in slot): the property quantifies over the trees of THIS parser"""
    cands = []
    for sname, tmpl, kname, sample in table_pairs():
        for s in triple_sources(sname, tmpl, kname, sample):
            if py_tree(s) is None:
                cands.append(s)
    cands += [s for s in CORPUS if py_tree(s) is None]
    for s1, t1 in SLOTS:
        for s2, t2 in SLOTS:
            for kname, sample in (("starred", "*x"), ("namedExpr", "w := x"), ("tuple", "a, b"), ("ifExp", "x if y else z")):
                if not admissible(s2, kname):
                    continue
                inner = fill(t2, sample if kname == "starred" else "(" + sample + ")")
                for s in (fill(t1, "(" + inner + ")"), fill(t1, inner)):
                    if py_tree(s) is None:
                        cands.append(s)
    return [s for s in dict.fromkeys(cands) if cand_ok(s) and in_lexer_domain(s)]


def random_target_sources(rng, n, consts):
    """comprehensions whose targets are random operands (what `ExpressionList` reads: `Expression`-level operands,
    lower ones parenthesised, starred ones, bare tuples); every operand is checked with CPython on its own (finding
    shapes, lexer / printability domain), the whole source is not — CPython rejects most of them"""
    g = Gen(rng, consts)

    def operand(d):
        for _ in range(50):
            try:
                e = g.at(6, d)
            except StopIteration:
                continue
            if len(e) > 200 or not in_lexer_domain(e):
                continue
            t = py_tree(e)
            if t is None or finding_shapes(t) or not tree_in_domain(t):
                continue
            return e
        return g.name()

    def target(d):
        k = rng.randrange(10)
        if k < 4:
            return operand(d)
        if k == 4:
            return "*" + operand(d)
        n = rng.choice([1, 2, 2, 3, 4])
        es = [("*" if rng.random() < 0.15 else "") + operand(d) for _ in range(n)]
        if rng.random() < 0.2:
            es[rng.randrange(n)] = "(" + ", ".join(operand(d - 1) for _ in range(rng.choice([1, 2, 3]))) + ",)"
        return ", ".join(es) + ("," if n == 1 or rng.random() < 0.15 else "")

    out, seen, tries = [], set(), 0
    while len(out) < n and tries < 20 * n:
        tries += 1
        d = rng.choice([1, 1, 2, 2, 3])
        clauses = ""
        for _ in range(rng.choice([1, 1, 1, 2, 3])):
            clauses += (" async for " if rng.random() < 0.1 else " for ") + target(d) + " in " + rng.choice(NAMES)
            for _ in range(rng.choice([0, 0, 0, 1])):
                clauses += " if " + rng.choice(NAMES)
        frame = rng.choice(["[r%s]", "{r%s}", "{r: s%s}", "(r%s)", "f(r%s)", "[lambda: [r%s]]", "p + [r%s][0]"])
        s = frame % clauses
        if len(s) > 600 or s in seen:
            continue
        seen.add(s)
        out.append(s)
    return out


# ---- constants of every kind

def float_literals(rng, n):
    out = ["0.0", "1.0", "0.5", "0.1", "1e22", "1e23", "1e16", "1e15", "9999999999999998.0", "1e-4", "1e-5", "5e-324",
           "2.2250738585072014e-308", "1.7976931348623157e308", "1e308", "1e309", "4.9e-324", "0.30000000000000004",
           "9007199254740992.0", "9007199254740993.0", "123456789.123456789", "1_000.000_1", "1.", ".5", "1e0", "1E5",
           "1e+5", "00.5", "0e0", "2.98023223876953125e-8", "8.41e21", "3.0", "100.0", "1e2", "1.5e300", "2e-323",
           "0.9999999999999999", "0.99999999999999989", "0.9999999999999998", "1.0000000000000002",
           "0.99999999999999978", "1.9999999999999998",
           "2.9999999999999996", "4.999999999999999"]
    for _ in range(n):
        bits = rng.getrandbits(64) & 0x7FFFFFFFFFFFFFFF
        f = struct.unpack(">d", struct.pack(">Q", bits))[0]
        if f != f or f in (float("inf"),):
            continue
        out.append(repr(f))
        if rng.random() < 0.3:
            out.append(repr(f) + "j")
    for _ in range(n):
        # near powers of ten and near integers: the notation switches of float.rs
        e = rng.randrange(-8, 24)
        mant = rng.choice(["1", "9.999999999999999", "1.0000000000000002", "5", "1.5", "9.5", "2.5"])
        out.append(f"{mant}e{e}")
    return out


def int_literals(rng):
    out = ["0", "1", "0x0", "0XFF", "0o777", "0b1010", "1_000_000", "0b_1", "00", "0_0",
           str(2 ** 63), str(2 ** 64), str(10 ** 100), hex(2 ** 4000), "0o" + "7" * 300, str(10 ** 2000 - 1)]
    for _ in range(20):
        out.append(str(rng.getrandbits(rng.randrange(1, 400))))
    return out


STR_ALPHABET = ["a", "Z", "0", " ", "'", '"', "\\\\", "\\n", "\\t", "\\r", "\\x00", "\\x7f", "\\x1b", "{", "}", "%",
                "\\xa0", "\\xe9", "é", " ", "​", "\U0001f600", "\\uffff", "\\U0010ffff", "\\u2028",
                "\\0", "\\101", "\\a", "\\b", "\\f", "\\v", "\\q", "#", "\\'", '\\"']
BYTES_ALPHABET = ["a", "Z", "0", " ", "'", '"', "\\\\", "\\n", "\\t", "\\r", "\\x00", "\\x7f", "\\xff", "\\x80", "{",
                  "\\0", "\\377", "\\a", "\\q", "\\'", '\\"', "%"]


def string_literal(rng, alphabet=STR_ALPHABET, prefix_choices=("", "", "", "u", "r", "R", "U")):
    n = rng.choice([0, 1, 1, 2, 3, 5, 8])
    parts = [rng.choice(alphabet) for _ in range(n)]
    q = rng.choice(["'", '"', "'''", '"""'])
    p = rng.choice(prefix_choices)
    body = "".join(parts)
    s = p + q + body + q
    return s


def bytes_literal(rng):
    return string_literal(rng, BYTES_ALPHABET, ("b", "B", "b", "rb", "bR", "Rb"))


NAMES = ["a", "b", "c", "x", "y", "z", "foo", "_", "x1", "match", "case", "type", "été", "print"]


class Gen:
    """random expression SOURCE TEXT over the whole fragment; sub-expressions are parenthesised whenever the
    grammar would need it (by writing the child through `self.at(level)`), plus random redundant pairs"""

    def __init__(self, rng, consts):
        self.rng = rng
        self.consts = consts

    def name(self):
        return self.rng.choice(NAMES)

    def atom(self, d):
        r = self.rng
        k = r.randrange(24)
        if k < 6 or d <= 0:
            return self.name()
        if k < 9:
            return r.choice(self.consts)
        if k == 9:
            return r.choice(["None", "True", "False", "..."])
        if k == 10:
            return "[" + self.elems(d, star=True) + "]"
        if k == 11:
            e = self.elems(d, star=True, atleast=1)
            return "(" + e + ("," if "," not in e or r.random() < 0.2 else "") + ")"
        if k == 12:
            return "{" + self.elems(d, star=True, atleast=1) + "}"
        if k == 13:
            items = []
            for _ in range(r.randrange(4)):
                if r.random() < 0.25:
                    items.append("**" + self.at(6, d - 1))
                else:
                    items.append(self.at(1, d - 1) + ": " + self.at(1, d - 1))
            return "{" + ", ".join(items) + "}"
        if k == 14:
            return self.comp(d)
        if k == 15:
            return self.at(15, d - 1) + "." + r.choice(["real", "b", "__x__"])
        if k == 16:
            return self.at(15, d - 1) + "[" + self.subscript(d - 1) + "]"
        if k == 17:
            return self.at(15, d - 1) + "(" + self.args(d - 1) + ")"
        if k == 18:
            return r.choice(["(yield)", "(yield " + self.at(1, d - 1) + ")", "(yield from " + self.at(1, d - 1) + ")"])
        if k == 19:
            return self.fstring(d - 1)
        if k == 20:
            return "(" + self.name() + " := " + self.at(1, d - 1) + ")"
        if k == 21:
            return "()"
        return "(" + self.expr(d - 1) + ")"

    def elems(self, d, star=False, atleast=0):
        r = self.rng
        n = max(atleast, r.choice([0, 1, 1, 2, 3]))
        out = []
        for _ in range(n):
            if star and r.random() < 0.15:
                out.append("*" + self.at(6, d - 1))
            elif r.random() < 0.05:
                out.append(self.name() + " := " + self.at(1, d - 1))
            else:
                out.append(self.at(1, d - 1))
        return ", ".join(out) + ("," if out and r.random() < 0.1 else "")

    def target(self, d):
        r = self.rng
        k = r.randrange(6)
        if k < 3:
            return self.name()
        if k == 3:
            return self.name() + ", " + self.name() + ("," if r.random() < 0.2 else "")
        if k == 4:
            return "(" + self.name() + ", *" + self.name() + ")"
        return self.name() + "." + "v" if r.random() < 0.5 else self.name() + "[0]"

    def compfor(self, d):
        r = self.rng
        out = ""
        for _ in range(r.choice([1, 1, 1, 2])):
            out += (" async for " if r.random() < 0.1 else " for ") + self.target(d) + " in " + self.at(2, d - 1)
            for _ in range(r.choice([0, 0, 1, 2])):
                out += " if " + self.at(2, d - 1)
        return out

    def comp(self, d):
        r = self.rng
        k = r.randrange(4)
        if k == 0:
            return "[" + self.at(1, d - 1) + self.compfor(d) + "]"
        if k == 1:
            return "{" + self.at(1, d - 1) + self.compfor(d) + "}"
        if k == 2:
            return "{" + self.at(1, d - 1) + ": " + self.at(1, d - 1) + self.compfor(d) + "}"
        return "(" + self.at(1, d - 1) + self.compfor(d) + ")"

    def subscript(self, d):
        r = self.rng

        def one():
            k = r.randrange(6)
            if k < 3:
                return self.at(1, d)
            if k == 3:
                return "*" + self.at(6, d)
            lo = self.at(1, d) if r.random() < 0.6 else ""
            hi = self.at(1, d) if r.random() < 0.6 else ""
            s = lo + ":" + hi
            if r.random() < 0.4:
                s += ":" + (self.at(1, d) if r.random() < 0.7 else "")
            return s
        n = r.choice([1, 1, 1, 2, 3])
        parts = [one() for _ in range(n)]
        if n == 1 and parts[0].startswith("*"):
            return parts[0] + ","
        return ", ".join(parts) + ("," if r.random() < 0.1 else "")

    def args(self, d):
        r = self.rng
        if r.random() < 0.08:
            return self.at(1, d) + self.compfor(d + 1)
        pos, kws = [], []
        for _ in range(r.choice([0, 1, 1, 2, 3])):
            pos.append(("*" + self.at(1, d)) if r.random() < 0.15 else self.at(1, d))
        used = set()
        for _ in range(r.choice([0, 0, 1, 2])):
            if r.random() < 0.25:
                kws.append("**" + self.at(1, d))
            else:
                k = r.choice(["k", "key", "sep", "end", "x"])
                if k in used:
                    continue
                used.add(k)
                kws.append(k + "=" + self.at(1, d))
        # positional arguments may not follow keywords; `*x` may follow `k=v` but not `**`
        return ", ".join(pos + kws) + ("," if (pos or kws) and r.random() < 0.1 else "")

    def params(self, d):
        r = self.rng
        names = ["p", "q", "r", "s", "t", "u", "v", "w"]
        r.shuffle(names)
        it = iter(names)
        parts = []
        seen_default = False

        def par(force_default=False):
            nonlocal seen_default
            n = next(it)
            if force_default or seen_default or r.random() < 0.3:
                seen_default = True
                return n + "=" + self.at(1, d)
            return n
        npos = r.choice([0, 0, 1, 2])
        for _ in range(npos):
            parts.append(par())
        if npos and r.random() < 0.3:
            parts.append("/")
            for _ in range(r.choice([0, 1])):
                parts.append(par())
        k = r.randrange(4)
        if k == 0:
            parts.append("*" + next(it))
        if k in (0, 1) and r.random() < 0.7 or k == 1:
            if k == 1:
                parts.append("*")
            seen_default = False
            for _ in range(r.choice([1, 2]) if k == 1 else r.choice([0, 1])):
                n = next(it)
                parts.append(n + "=" + self.at(1, d) if r.random() < 0.5 else n)
        if r.random() < 0.25:
            parts.append("**" + next(it))
        return ", ".join(parts)

    def fstring(self, d):
        """f-strings kept outside the escape-in-field finding shape: either no quotes inside fields, or simple
        single-quoted constants in fields and no double quote anywhere in the literal"""
        r = self.rng
        quoted_fields = r.random() < 0.4
        lit_alpha = ["a", " ", "{{", "}}", "%", "\\n", "\\\\", "\\x00", "é", " ", "#", ":", "!", "'"]
        if not quoted_fields:
            lit_alpha += ['"', '"', "\\'"]
        out = ""
        for _ in range(r.choice([0, 1, 2, 3, 4])):
            if r.random() < 0.5:
                out += "".join(r.choice(lit_alpha) for _ in range(r.choice([1, 2, 4])))
            else:
                out += self.field(d, quoted_fields, 0)
        # choose a delimiter that does not occur in the source body
        for q in ('"""', "'''", '"', "'"):
            if q[0] not in out and "\n" not in out:
                return "f" + q + out + q
        if "'''" not in out and not out.endswith("'") and '"""' in out:
            return "f'''" + out + "'''"
        if '"""' not in out and not out.endswith('"'):
            return 'f"""' + out + '"""'
        return "f''"

    def field(self, d, quoted, nest):
        r = self.rng
        k = r.randrange(8)
        if quoted and k < 3:
            e = r.choice(["d['k']", "'s'", "x['a']['b']", "f('z')", "a if b else 'n'", "b'y'"])
        elif k < 5:
            e = self.name()
        elif k == 5:
            e = r.choice(["a + b", "a.b", "f(x)", "x[0]", "a, b", "(lambda: 1)", "{1: 2}", "{1}", "a != b", "a if b else c",
                          "(y := 1)", "-a", "not a", "[i for i in a]", "(yield)", "await a", "1.5", "10 ** 20", "a >= b"])
        else:
            e = self.noquote_expr(d)
        if e.startswith("{"):
            e = " " + e
        s = "{" + e
        if r.random() < 0.25:
            s += "!" + r.choice("rsa")
        if r.random() < 0.3:
            s += ":"
            for _ in range(r.choice([0, 1, 2])):
                if nest == 0 and r.random() < 0.4:
                    s += self.field(d, quoted, 1)
                else:
                    s += r.choice([">", "<", "10", ".3f", " ", "x", "#", "+", ","])
        return s + "}"

    def noquote_expr(self, d):
        """an expression without quotes, colons outside brackets, or f-strings"""
        save = self.consts
        self.consts = [c for c in save if not any(ch in c for ch in "'\"\\")] or ["1"]
        try:
            for _ in range(20):
                e = self.expr(min(d, 2))
                if not any(ch in e for ch in "'\"\\\n#") and "lambda" not in e and ":=" not in e and "f'" not in e \
                        and not _colon_outside_brackets(e) and "!" not in e.replace("!=", ""):
                    return e
            return "a"
        finally:
            self.consts = save

    # levels as in python.lalrpop: 1 Test … 15 atom
    def at(self, level, d):
        """an expression that the grammar derives at `level` (parenthesised if its own level is lower)"""
        r = self.rng
        if d <= 0:
            return self.atom(0)
        lvl = r.choice([1, 1, 2, 3, 4, 5, 6, 7, 8, 9, 10, 10, 11, 11, 12, 13, 14, 15, 15, 15, 15, 15])
        s = self.gen_level(lvl, d)
        if lvl < level or r.random() < 0.08:
            return "(" + s + ")"
        return s

    def gen_level(self, lvl, d):
        r = self.rng
        if lvl == 1:
            if r.random() < 0.5:
                return self.at(2, d - 1) + " if " + self.at(2, d - 1) + " else " + self.at(1, d - 1)
            ps = self.params(d - 1)
            return "lambda" + (" " + ps if ps else "") + ": " + self.at(1, d - 1)
        if lvl == 2:
            return " or ".join(self.at(3, d - 1) for _ in range(r.choice([2, 2, 3])))
        if lvl == 3:
            return " and ".join(self.at(4, d - 1) for _ in range(r.choice([2, 2, 3])))
        if lvl == 4:
            return "not " + self.at(4, d - 1)
        if lvl == 5:
            s = self.at(6, d - 1)
            for _ in range(r.choice([1, 1, 2, 3])):
                s += " " + r.choice(CMPOPS) + " " + self.at(6, d - 1)
            return s
        if 6 <= lvl <= 11:
            opsets = {6: ["|"], 7: ["^"], 8: ["&"], 9: ["<<", ">>"], 10: ["+", "-"], 11: ["*", "/", "//", "%", "@"]}
            return self.at(lvl, d - 1) + " " + r.choice(opsets[lvl]) + " " + self.at(lvl + 1, d - 1)
        if lvl == 12:
            return r.choice(["-", "+", "~"]) + self.at(12, d - 1)
        if lvl == 13:
            return self.at(14, d - 1) + " ** " + self.at(12, d - 1)
        if lvl == 14:
            return "await " + self.at(15, d - 1)
        return self.atom(d)

    def expr(self, d):
        r = self.rng
        if r.random() < 0.05:
            return self.at(1, d) + ", " + self.at(1, d)
        return self.at(1, d)


def _colon_outside_brackets(e):
    depth = 0
    for ch in e:
        if ch in "([{":
            depth += 1
        elif ch in ")]}":
            depth -= 1
        elif ch == ":" and depth == 0:
            return True
    return False


def random_sources(rng, n, consts, depth_choices=(1, 2, 2, 3, 3, 4)):
    g = Gen(rng, consts)
    out, tries = [], 0
    while len(out) < n and tries < 20 * n:
        tries += 1
        try:
            s = g.expr(rng.choice(depth_choices))
        except StopIteration:
            continue
        if len(s) > 600 or not in_lexer_domain(s):
            continue
        t = py_tree(s)
        if t is None or finding_shapes(t) or not tree_in_domain(t):
            continue
        out.append(s)
    return out


def constant_sources(rng, nfloat):
    out = []
    for lit in float_literals(rng, nfloat):
        out += [lit, f"x + {lit}", f"{lit}.real" if not lit.endswith("j") and "." in lit or "e" in lit.lower() else lit]
    for lit in int_literals(rng):
        out += [lit, f"({lit}).real", f"-{lit}", f"{lit} ** 2"]
    for _ in range(40 * max(1, nfloat // 50)):
        out.append(string_literal(rng))
        out.append(bytes_literal(rng))
        out.append(string_literal(rng) + " " + string_literal(rng, prefix_choices=("", "r")))
        out.append("[" + string_literal(rng) + ", " + bytes_literal(rng) + "]")
    res = []
    for s in out:
        t = py_tree(s)
        if t is not None and in_lexer_domain(s) and not finding_shapes(t) and tree_in_domain(t):
            res.append(s)
    return res


_HARVEST_CACHE = {}


def stdlib_expressions(limit_files, rng, per_file):
    """expression statements / values harvested from CPython's standard library, normalised with ast.unparse"""
    root = os.path.dirname(os.__file__)
    files = []
    for dp, dn, fn in os.walk(root):
        dn.sort()
        if "site-packages" in dp or "lib2to3" in dp and "tests" in dp:
            continue
        for f in sorted(fn):
            if f.endswith(".py"):
                files.append(os.path.join(dp, f))
    rng.shuffle(files)
    out, seen = [], set()
    for path in files[:limit_files]:
        try:
            tree = ast.parse(open(path, "rb").read())
        except (SyntaxError, ValueError, RecursionError):
            continue
        cands = []
        for node in ast.walk(tree):
            if isinstance(node, ast.stmt):
                for _, v in ast.iter_fields(node):
                    vs = v if isinstance(v, list) else [v]
                    for e in vs:
                        if isinstance(e, ast.expr) and not isinstance(e, (ast.Name, ast.Constant)):
                            cands.append(e)
        rng.shuffle(cands)
        took = 0
        for e in cands:
            if took >= per_file:
                break
            if isinstance(e, ast.Starred):
                continue
            try:
                s = ast.unparse(e)
            except (RecursionError, ValueError):
                continue
            if isinstance(e, (ast.Yield, ast.YieldFrom)):
                s = "(" + s + ")"
            if len(s) > 1500 or s in seen or not in_lexer_domain(s):
                continue
            t = py_tree(s)
            if t is None or finding_shapes(t) or not tree_in_domain(t):
                continue
            seen.add(s)
            out.append(s)
            took += 1
    return out


def _nontrivial(r):
    try:
        s = unhex(r.split()[1]).decode("utf-8")
    except Exception:
        return False
    return any(c in s for c in "+-*/%@<>=|&^~([{. ")


def streams(ctx):
    out = []
    out.append(Stream("corpus", [req(s) for s in CORPUS if py_tree(s) is not None and not finding_shapes(py_tree(s))],
                      kind="corpus", nontrivial=_nontrivial,
                      note="hand-written regression inputs: every node kind, literal kind and precedence corner"))
    out.append(Stream("model-fidelity-directed", [req(s) for s in FIDELITY_DIRECTED], kind="corpus",
                      nontrivial=lambda r: True,
                      note="empty f-string fields with spec / conversion, line breaks and comments inside replacement "
                           "fields, non-ASCII identifier / emoji classification: accepted and rejected inputs alike, "
                           "both sides must answer identically"))
    probes = [req(s) for k in FINDING_PROBES for s in FINDING_PROBES[k]]
    out.append(Stream("known-finding-probes", probes, kind="corpus", nontrivial=_nontrivial,
                      note="one deterministic probe per listed known finding (kept out of all other streams)"))
    d = directed_requests(full=True)
    out.append(Stream("directed-slot-x-kind", [req(s) for s in d], kind="exhaustive", exhaustive=True,
                      nontrivial=_nontrivial,
                      note="every admissible (parent slot, child kind) pair, child parenthesised and bare; every "
                           "ordered operator pair on both nesting sides; every comparison operator x operand kind"
                           "; every slot-in-slot nesting for six child kinds"))
    tg = [s for s in TARGET_CORPUS + target_requests() if cand_ok(s)]
    out.append(Stream("comprehension-targets", [req(s) for s in tg], kind="exhaustive", exhaustive=True,
                      nontrivial=lambda r: True,
                      note="comprehension targets as the parser reads them (ExpressionList, not validated as assignment "
                           "targets; not filtered by CPython acceptance): every child kind, parenthesised and bare, x "
                           "position in the target list (alone, first / middle / last of the bare tuple, 1-tuple, inside "
                           "a parenthesised tuple or list, under a star) x comprehension form (list, set, dict, "
                           "generator, bare generator argument, async, first / second clause)"))
    bc = beyond_cpython_requests()
    out.append(Stream("beyond-cpython-directed", [req(s) for s in bc], kind="exhaustive", exhaustive=True,
                      nontrivial=lambda r: True,
                      note="the sources the directed enumeration and the corpus drop because CPython rejects them "
                           "(`[*x for p in q]`, `(yield *x)`, starred / named / tuple / conditional children slot in slot, "
                           "...): about three quarters are accepted by the parser under test, whose trees the property "
                           "quantifies over; both sides must also agree on the rejected ones"))
    rng = ctx.rng("constants")
    cs = constant_sources(rng, 1200 if ctx.quick else 6000)
    out.append(Stream("constants", [req(s) for s in cs], kind="random", nontrivial=lambda r: True,
                      note="float literals (boundary values, random bit patterns, notation switches), huge and "
                           "prefixed ints, imaginary literals, str/bytes literals over an alphabet of quotes, "
                           "escapes, control and non-ASCII characters, every prefix and quote style"))
    rng = ctx.rng("random")
    consts = ["0", "1", "42", "1.5", "1e100", "2j", "'s'", '"d"', "b'b'", "'it\\'s'", "0xff", "1_0", "''", "'\\n'",
              "10 ** 20", "1e-7", "3.14j", "'é'", "u'u'"] + cs[:200:7]
    consts = [c for c in consts if " " not in c or c.startswith(("'", '"'))]
    n = 25000 if ctx.quick else 150000
    rs = random_sources(rng, n, consts)
    out.append(Stream("random-expressions", [req(s) for s in rs], kind="random", nontrivial=_nontrivial,
                      note="grammar-directed random expressions over the whole fragment (all node kinds, lambda "
                           "parameter lists, comprehensions, slices, starred, f-strings with specs), random "
                           "redundant parentheses"))
    rng = ctx.rng("random-targets")
    rt = random_target_sources(rng, 4000 if ctx.quick else 30000, consts)
    out.append(Stream("random-comprehension-targets", [req(s) for s in rt], kind="random", nontrivial=lambda r: True,
                      note="comprehensions of every form whose targets are random operands of the whole fragment "
                           "(parenthesised where the grammar needs it), starred operands and bare tuples of these; "
                           "CPython rejects most of these sources, the parser under test builds the trees"))
    rng = ctx.rng("stdlib")
    hs = stdlib_expressions(400 if ctx.quick else 2000, rng, 40 if ctx.quick else 100)
    out.append(Stream("cpython-stdlib-expressions", [req(s) for s in hs], kind="corpus", nontrivial=_nontrivial,
                      note="expressions harvested from CPython 3.11 standard-library files (ast.unparse-normalised)"))
    return out
