"""C09 — start offsets only translate positions; all entry points agree.

Request lines (self-contained; the attachments are the real code's own answers of the public `parse_tokens` on the
lexer's stream and of `lex_starts_at`, obtained in a pre-pass with the same binary: what the Lean model's parameters
`parseTop`/`lexTop` evaluate to; filter, marker position, not_before clamp and all projections are the model's):

  entries <k> <hex src> <full-lexer 0/1> <hex A0> <hex Ak>
  lexes   <k> <hex src> <full-lexer 0/1> <hex A0> <hex Ak>

The harness ignores the attachments and answers with EVERY public entry point at offset 0 and at offset k.
The oracle below judges that answer against the property alone (it never looks at the attachments):
  * @k == @0 with every `range: a..b` and every error offset moved by k;
  * parse_starts_at / parse_tokens(lex(..)) == parse; interactive body == module body; an accepted
    expression-mode text is the value of the module's single expression statement;
  * ModModule/ModExpression/ModInteractive/Suite/Stmt/Expr/Identifier/Constant and the 55 generated parsers
    return the corresponding part of that tree, or InvalidToken at the node start.
The Lean driver (`drv_c09`) predicts the same answer from the attachments through the model.
"""
import os
import re
import sys

import core
from core import Stream, hexs, unhex

sys.path.insert(0, os.path.dirname(os.path.dirname(os.path.abspath(__file__))))
import c09_translate  # noqa: E402

ID = "C09"
DESIGN_REF = "DESIGN.md section 5, C09"
LEAN_TARGETS = ["PV.C09.Thm", "PV.Prog.Thm"]
DRIVER = "drv_c09"
HARNESS = {"bin": "pvh_c09", "features": "default"}
EXTRA_HARNESS = [{"bin": "pvh_c09", "features": "all-ranges"}, {"bin": "pvh_c09", "features": "full-lexer"}]
THEOREMS = [
    # modes as views of one grammar, on the Lean reference parser PV.Prog.parseProgram (tied to the real parser by C01's prog-*
    # streams): expression mode = the expression statement of module mode (on one-expression lines, exceptions witnessed),
    # interactive body = module body
    "PV.Prog.parse_expr_stmt_agree",
    "PV.Prog.interactive_module_agree",
    "PV.Prog.yield_is_statement_only",
    "PV.Prog.semicolon_is_statement_only",
    "PV.Prog.leading_newline_is_statement_only",
    "PV.C09.entry_points_agree",
    "PV.C09.typed_parsers_wf",
    "PV.C09.typed_parsers_cover",
    "PV.C09.generated_parsers_agree",
    "PV.C09.typed_views_of_free_parse",
    "PV.C09.typed_parse_views_of_free_parse",
    "PV.C09.parseProgram_agrees",
    "PV.C09.parseExpression_eq",
    "PV.C09.free_parse_tokens_of_lex",
    "PV.C09.parse_tokens_of_lex",
    "PV.C09.parse_tokens_filter_invariant",
    "PV.C09.parseFiltered_shift",
    "PV.C09.parseTokens_shift_partial",
    "PV.C09.parseTokens_shift_clamped",
    "PV.C09.entry_shift_partial",
    "PV.C09.entry_shift_of_first_token",
    "PV.C09.free_shift_partial",
    "PV.C09.free_shift_of_first_token",
    "PV.C09.entry_shift_fails",
    "PV.C09.mode_names",
]
_LEXSHIFT = os.path.join(core.LEAN, "PV", "C09", "LexShift.lean")     # lexer model builder; imported by PV/C09/Thm.lean
THEOREMS += ["PV.C09.lex_shift", "PV.C09.lex_shift_of_fit", "PV.C09.lexRaw_shift", "PV.C09.softKwGo_shift"]
# end to end on the models: lexer model + reference parser for programs (range-erased trees), and the RANGED expression
# parser PV.C02.parseR commutes with a shift of the span table (lean/PV/C09/RShift.lean, induction over its 48 functions)
THEOREMS += ["PV.C09.lex_parse_shift_model", "PV.C09.parseRTest_shift", "PV.C09.parseRTop_shift", "PV.C09.parseR_shift",
             "PV.C09.parseRExpression_shift", "PV.C09.lex_parseR_shift_model", "PV.C09.erase_shE", "PV.C09.range_shE",
             "PV.C09.shiftAt", "PV.C09.lexSpansGo_length", "PV.C09.toTree_shE"]
# … and for WHOLE PROGRAMS: the ranged program parser PV.C02.parseRProgram (47 functions: all statements, patterns,
# parameters, with-items, type parameters, decorators, the Mod* node) commutes with a shift of the span table
# (lean/PV/C09/RProgShift{Base,1,2,3,4,}.lean, RProgShiftTree.lean; section 5 of Thm.lean)
THEOREMS += ["PV.C09.parseRProgram_shift", "PV.C09.parseRProgramFuel_shift", "PV.C09.parseRTopT_shift",
             "PV.C09.parseRProgram_shift_all", "PV.C09.parseRProgram_shift_tokenless", "PV.C09.parseRProgram_shift_fails",
             "PV.C09.patShAt", "PV.C09.compShAt", "PV.C09.erase_shS", "PV.C09.erase_shiftRMod", "PV.C09.range_shiftRMod",
             "PV.C09.toTree_shS", "PV.C09.toTree_shiftRMod", "PV.C09.lex_parseRProgram_shift_model",
             "PV.C09.lex_parseRProgram_tokenless_model", "PV.C09.parseRProgText_erase", "PV.C09.interactive_module_agreeR",
             "PV.C09.interactive_module_agreeR'"]

TRUSTED = [
    "Lean 4.33.0 kernel; axioms limited to propext, Classical.choice, Quot.sound",
    "for the end-to-end theorems of sections 4-5 (lex_parse_shift_model, lex_parseR_shift_model, lex_parseRProgram_shift_model): "
    "that the real lexer / parser compute what the models PV.Lexer.lex, PV.Prog.parseProgram, PV.C02.parseR / parseRProgram "
    "compute is NOT re-checked here — it is C05's lexer correspondence, the PROG correspondence (C01's prog-* streams) and C02's "
    "ranged-model-* / ranged-program-model-* correspondence; the token conversion between the two models' alphabets is a "
    "position-blind parameter of the theorems",
    "the LALRPOP automaton (parser/src/python.rs) and the lexer are PARAMETERS of the model (Env.parseTop, Env.lexTop): "
    "the theorems hold for every parser/lexer; that the real ones are translation-equivariant (hypothesis ShiftEnv) and "
    "that expression/interactive mode build the module-mode subtree is checked by the differential streams only",
    "hand-written model lean/PV/C09/Model.lean of parser/src/parser.rs as repaired by 9f7255d/e8203b1/582d03b (Parse impls, "
    "parse_tokens, parse_filtered_tokens with filter + peek + marker, not_before, deprecated helpers), tied to the code by the "
    "correspondence streams of this run",
    "the driver's reading of the real parser's answer as the value of Env.parseTop: it is the public parse_tokens on the "
    "lexer's stream, accepted only if the model hands over the marker at the position that answer shows (Mod* range start "
    "with all-nodes-with-ranges; Eof offset of an empty stream) and no comment token (lean/Drv/C09.lean envOf)",
    "tools/c09_translate.py (strict scanner of parser/src/gen/parse.rs and of the Stmt/Expr enums of ast/src/gen/generic.rs); "
    "cross-checked on every run: the harness dispatches to the same 55 types in the same order, and the driver's answers "
    "interpreted from the table are diffed against the real generated parsers",
    "derive(Debug) output of the AST as the canonical tree text; the {:?} readers in tools/props/c09.py and lean/Drv/C09.lean",
    "tools/props/c09.py (generators, independent Python oracle), harness/src/bin/pvh_c09.rs, lean/Drv/C09.lean",
]
PARTIAL = [
    "entry_shift_full (no hypothesis on the marker) is still FALSE (entry_shift_fails): a text without tokens gives the start "
    "marker nothing to follow, it sits at 0..0, and a parser that puts the marker's range into the Mod node returns range 0..0 at "
    "every start offset — the real one does so with all-nodes-with-ranges (listed finding start-marker-mod-range-no-token). "
    "Proved instead: entry_shift_partial / free_shift_partial for EVERY text (no StmtNonEmpty any more) under "
    "`Headless stream -> HeadlessMarkerIrrelevant` (asked only when the text has no positioned first token: the marker's position "
    "changes at most an error offset below k), and entry_shift_of_first_token / free_shift_of_first_token with no marker "
    "hypothesis at all when the text has a token",
    "parse_tokens is not told the start offset: parseTokens_shift_partial (T::parse_tokens on a translated stream, without the clamp) "
    "needs a positioned first token and, for the parsers that go through Stmt, at least one statement (StmtNonEmpty: the "
    "zero-statement Eof sits at TextSize::default()); parse_tokens_of_lex / free_parse_tokens_of_lex give equality with "
    "parse_starts_at up to not_before, exact at offset 0 or when the error offset is not below k. The oracle accepts both the "
    "shifted and the unshifted answer of parse_tokens on token-less texts for the same reason",
    "typed_views_of_free_parse needs StartsNotBefore (the node InvalidToken is reported at starts at or after k — true of any "
    "lexer that counts from k) because both sides are clamped; unconditional at offset 0 (typed_parse_views_of_free_parse)",
    "lexer-level translation is PV.C09.lex_shift (lean/PV/C09/LexShift.lean, on the lexer MODEL of PV/Lexer, whose tie to lexer.rs "
    "is the C05 correspondence): lex k src = shift k (lex 0 src) provided the end offset fits u32; in the entry-point model it "
    "is the hypothesis ShiftEnv.lex, and the real lexer is checked against the shift relation directly by the `lexes` "
    "streams. COMPOSED at model level (sections 4 and 5 of Thm.lean). Range-erased: lex_parse_shift_model — "
    "PV.Pipeline.parseText (lexer model, filter, any position-blind token conversion, reference parser PV.Prog.parseProgram) "
    "at start offset k answers what it answers at 0 (EQUAL range-erased tree, same rejection, lexical error offset moved by "
    "k), given that the end offset fits u32. RANGED, THE FIRST SENTENCE OF THE PROPERTY FOR WHOLE PROGRAMS: "
    "parseRProgram_shift — the ranged program parser PV.C02.parseRProgram (47 functions: all 28 statement kinds, patterns, "
    "parameters, with-items, type parameters, decorators, the Mod* node, calling the ranged expression parser PV.C02.parseR — "
    "48 more functions incl. the f-string sub-parser with its per-field span table, parseR_shift — at every expression "
    "position) on tokens whose spans are all moved by k returns, in every mode, the tree with EVERY range moved by k and "
    "nothing else changed (erase_shiftRMod; toTree_shiftRMod on the generic tree rangesOk reads), derived ends of compound "
    "statements included (they are ranges of a child), same rejections; lex_parseRProgram_shift_model — parseRProgText "
    "(lexer model -> filter -> conversion -> parseRProgram) at start offset k = the answer at 0 with every range and the "
    "lexical error offset moved by k, under the u32 fit, for every text with at least one non-trivia token. The tie of "
    "parseRProgram to the real parser is C02's ranged-program-model-* correspondence, of the lexer model C05's. What is "
    "NOT translated is proved too: the token-less text (parseRProgram_shift_fails, lex_parseRProgram_tokenless_model: Mod* "
    "ranged 0..0 at every offset — the listed finding start-marker-mod-range-no-token, reproduced by the model). Remaining "
    "at model level: error offsets of a rejecting parser (PV.Prog, PV.C02.parseR and parseRProgram are recognisers: a "
    "rejection carries no position; the entry-point model's not_before / marker theorems entry_shift_* cover the offsets "
    "for an arbitrary parser)",
    "that the real LALRPOP parser is translation-equivariant (ShiftEnv.parse) and the f-string sub-parser's absolute offsets "
    "(string.rs parse_fstring_expr) are theorems about the MODELS PV.C02.parseRProgram / parseR only (tied by C02's "
    "correspondence streams) and differential checks on the real code here. Cross-mode facts: interactive body = module "
    "body is a theorem of the ranged model too (interactive_module_agreeR: same body, same ranges, same Mod range); "
    "expression-mode tree = value of the module's expression statement is proved range-erased only "
    "(PV.Prog.parse_expr_stmt_agree, on one-expression lines) — the two modes reach the expression list with different fuel "
    "and fuel-monotonicity of the RANGED parser is not proved — and checked on the real code by the oracle",
    "mode_names is a table check over the candidate names of this module, re-extracted from the real Mode::from_str on every "
    "run; the set of all strings is not finite",
]
READY = True
TECHNIQUE = ("Lean 4 theorems over a model of the entry points that is parametric in the parser and lexer + translator of the "
             "generated parsers (decide on the regenerated table) + differential correspondence on every public entry point")
LEVEL_TEXT = ("Machine-checked Lean 4 theorems, for every parser and lexer plugged into the model of parser.rs (as repaired by "
              "9f7255d, e8203b1, 582d03b): each Parse implementation (8 hand-written, 55 generated, the latter read from "
              "gen/parse.rs by a translator and re-checked by `decide` on every run) returns the documented projection of the tree "
              "the one parser builds for the same tokens in every build configuration (comment tokens included); parse_starts_at is "
              "parse_tokens of the lexer's stream up to the not_before clamp; and every parse_starts_at commutes with translation by "
              "a start offset for every text — with no assumption on the start marker when the text has a token, and under an "
              "explicit marker hypothesis for token-less texts, whose failure with all-nodes-with-ranges (Mod range 0..0) is proved "
              "as a counterexample and listed as the one remaining known finding. The first sentence of the property is in addition a "
              "theorem END TO END ON THE MODELS for whole programs (lex_parseRProgram_shift_model): lexer model + trivia filter + "
              "the ranged program parser PV.C02.parseRProgram (every statement, pattern, parameter, expression incl. f-string "
              "fields, and the Mod node) at start offset k give the tree of offset 0 with every range moved by k and nothing else "
              "changed, a lexical error moved by k, for every text with a token whose end offset fits u32; the token-less exception "
              "is proved of the model as well. The models are tied to the code by C02's ranged-program-model-* and C05's lexer "
              "correspondence. The entry-point model is tied to the code by running all ~520 "
              "entry-point calls per text and offset through both, and the real code is judged directly by an independent Python "
              "oracle (shift relation, cross-mode and projection relations) in the default, all-nodes-with-ranges and full-lexer "
              "builds.")
LEVEL_NOTE = ("Trusted: Lean kernel, the translator and {:?} readers, the harness. Translation-equivariance is proved of the "
              "lexer MODEL (PV.C09.lex_shift) and of the ranged parser MODELS (PV.C09.parseRProgram_shift, parseR_shift, f-string "
              "offset threading included); that the real lexer and LALRPOP parser behave like these models is C05's / C02's "
              "correspondence, and here the real code is judged against the shift relation directly by the oracle. Not proved: "
              "expression mode = the module's expression statement WITH ranges (range-erased: PV.Prog.parse_expr_stmt_agree).")
RULE = ("one request = one text x one start offset, answered with every public entry point at offset 0 and at offset k "
        "(about 520 calls); distinct = distinct request line; non-trivial = non-empty text")

U32 = 2 ** 32
MODE_CANDIDATES = ["exec", "eval", "single", "", "interactive", "module", "expression", "func_type", "Exec", "EXEC", "Eval",
                   "Single", " exec", "exec ", "exe", "execs", "evaluate", "file", "input", "m", "e", "i", "Module",
                   "Expression", "Interactive", "exec\n", "exec\0", "ｅxec", "single_input", "file_input", "eval_input"]

# ------------------------------------------------------------------ reading {:?} text

_TOK = re.compile(r'"(?:\\.|[^"\\])*"|\'(?:\\.|[^\'\\])*\'|[^ ,(){}\[\]:"\']+')


class DbgError(Exception):
    pass


def parse_dbg(s):
    """('atom', text) | ('list', [v]) | ('tuple', head, [v]) | ('struct', head, [(field, v)])"""
    v, i = _val(s, 0)
    if i != len(s):
        raise DbgError("trailing text at %d" % i)
    return v


def _items(s, i, close):
    out = []
    if s[i] == close:
        return out, i + 1
    while True:
        v, i = _val(s, i)
        out.append(v)
        if s.startswith(", ", i):
            i += 2
        elif s[i] == close:
            return out, i + 1
        else:
            raise DbgError("expected , or %s at %d" % (close, i))


def _val(s, i):
    c = s[i]
    if c == "[":
        xs, i = _items(s, i + 1, "]")
        return ("list", xs), i
    if c == "(":
        xs, i = _items(s, i + 1, ")")
        return ("tuple", "", xs), i
    m = _TOK.match(s, i)
    if not m:
        raise DbgError("no token at %d" % i)
    head = m.group(0)
    i = m.end()
    if c in "\"'":
        return ("atom", head), i
    if s.startswith("(", i):
        xs, i = _items(s, i + 1, ")")
        return ("tuple", head, xs), i
    if s.startswith(" { ", i):
        i += 3
        fs = []
        while True:
            m = _TOK.match(s, i)
            if not m or not s.startswith(": ", m.end()):
                raise DbgError("field expected at %d" % i)
            v, i = _val(s, m.end() + 2)
            fs.append((m.group(0), v))
            if s.startswith(", ", i):
                i += 2
            elif s.startswith(" }", i):
                return ("struct", head, fs), i + 2
            else:
                raise DbgError("expected , or } at %d" % i)
    return ("atom", head), i


def show_dbg(v):
    t = v[0]
    if t == "atom":
        return v[1]
    if t == "list":
        return "[" + ", ".join(show_dbg(x) for x in v[1]) + "]"
    if t == "tuple":
        return v[1] + "(" + ", ".join(show_dbg(x) for x in v[2]) + ")"
    return v[1] + " { " + ", ".join(f + ": " + show_dbg(x) for f, x in v[2]) + " }"


def _field(st, name):
    for f, x in st[2]:
        if f == name:
            return x
    return None


_SHIFT = re.compile(r'"(?:\\.|[^"\\])*"|range: (\d+)\.\.(\d+)')


def shift_text(s, k):
    """move every `range: a..b` of a {:?} text by k (string literals are skipped)"""
    def f(m):
        if m.group(1) is None:
            return m.group(0)
        return "range: %d..%d" % (int(m.group(1)) + k, int(m.group(2)) + k)
    return _SHIFT.sub(f, s)


_ERR = re.compile(r"\(err (\S+) (\d+)\)$")


def shift_answer(a, k):
    if a.startswith("(ok "):
        return shift_text(a, k)
    m = _ERR.match(a)
    if m:
        return "(err %s %d)" % (m.group(1), int(m.group(2)) + k)
    return a


def shift_toks(a, k):
    if not a.startswith("(toks ") or a == "(toks )":
        return a
    out = []
    for item in a[6:-1].split("\x1f"):
        m = _ERR.match(item)
        if m:
            out.append("(err %s %d)" % (m.group(1), int(m.group(2)) + k))
            continue
        t, _, r = item.rpartition("@")
        x, y = r.split("..")
        out.append("%s@%d..%d" % (t, int(x) + k, int(y) + k))
    return "(toks " + "\x1f".join(out) + ")"


def ok_tree(a):
    return parse_dbg(a[4:-1]) if a.startswith("(ok ") else None


def node_start(v):
    """start of the `range` of the struct inside an enum variant"""
    st = v[2][0]
    r = _field(st, "range")
    return int(r[1].split("..")[0])


# ------------------------------------------------------------------ the property, entry point by entry point

HAND = [("ModModule", "m"), ("ModExpression", "e"), ("ModInteractive", "i"), ("Suite", "m"), ("Stmt", "m"), ("Expr", "e"),
        ("Identifier", "e"), ("Constant", "e")]
MODE_WRAPPER = {"m": ("Module", "ModModule"), "e": ("Expression", "ModExpression"), "i": ("Interactive", "ModInteractive")}


def _is_blank(src):
    """no token at all: only blank lines and comment lines"""
    t = src.decode("utf-8")
    if t.startswith("\ufeff"):
        t = t[1:]
    for line in re.split(r"\r\n|\r|\n", t):
        st = line.strip(" \t\x0c")
        if st and not st.startswith("#"):
            return False
    return True


def _blocks(out):
    """answer line -> {offset: {name: answer}} (+ order check)"""
    res, cur = {}, None
    for item in out.split("\t"):
        if item.startswith("@"):
            cur = res.setdefault(int(item[1:]), {})
        else:
            name, _, val = item.partition("=")
            if cur is None or not _:
                raise DbgError("bad item " + item[:40])
            cur[name] = val
    return res


def expected_at0(b0):
    """{name: expected answer | ('err',)} for every parsing entry point at offset 0, from parse.m/e/i alone."""
    exp = {}
    P = {c: b0.get("parse." + c) for c in "mei"}
    T = {c: (ok_tree(P[c]) if P[c] else None) for c in "mei"}
    for c in "mei":
        exp["parse_starts_at." + c] = P[c]
        exp["parse_tokens." + c] = P[c]

    def payload(c):
        t = T[c]
        if t is None:
            return None
        w, st = MODE_WRAPPER[c]
        if t[0] != "tuple" or t[1] != w or len(t[2]) != 1 or t[2][0][0] != "struct" or t[2][0][1] != st:
            raise DbgError("mode %s returned %s" % (c, show_dbg(t)[:60]))
        return t[2][0]

    def okd(v):
        return "(ok " + show_dbg(v) + ")"

    pm, pe, pi = payload("m"), payload("e"), payload("i")
    mods = {"ModModule": ("m", pm), "ModExpression": ("e", pe), "ModInteractive": ("i", pi)}
    per_type = {}
    for name, (c, p) in mods.items():
        per_type[name] = okd(p) if p is not None else P[c]
    body = _field(pm, "body")[1] if pm is not None else None
    per_type["Suite"] = okd(("list", body)) if pm is not None else P["m"]
    exp["parse_program"] = per_type["Suite"]
    if pm is None:
        per_type["Stmt"] = P["m"]
        stmt = None
    elif len(body) == 1:
        per_type["Stmt"] = okd(body[0])
        stmt = body[0]
    else:
        per_type["Stmt"] = ("err",)      # no single statement: some error (its offset is judged by the shift relation)
        stmt = None
    expr = _field(pe, "body") if pe is not None else None
    per_type["Expr"] = okd(expr) if pe is not None else P["e"]
    exp["parse_expression"] = per_type["Expr"]
    exp["parse_expression_starts_at"] = per_type["Expr"]
    if pe is None:
        per_type["Identifier"] = per_type["Constant"] = P["e"]
    else:
        inv = "(err InvalidToken %d)" % node_start(expr)
        per_type["Identifier"] = okd(_field(expr[2][0], "id")) if expr[1] == "Name" else inv
        per_type["Constant"] = okd(_field(expr[2][0], "value")) if expr[1] == "Constant" else inv
    for enum, variants in (("Stmt", STMT_VARIANTS), ("Expr", EXPR_VARIANTS)):
        for var, pay in variants:
            if enum == "Stmt":
                if pm is None:
                    e = P["m"]
                elif stmt is None:
                    e = ("err",)
                elif stmt[1] == var:
                    e = okd(stmt[2][0])
                else:
                    e = "(err InvalidToken %d)" % node_start(stmt)
            else:
                if pe is None:
                    e = P["e"]
                elif expr[1] == var:
                    e = okd(expr[2][0])
                else:
                    e = "(err InvalidToken %d)" % node_start(expr)
            per_type[pay] = e
    for ty, e in per_type.items():
        for meth in ("parse", "parse_without_path", "parse_starts_at", "parse_tokens"):
            exp["%s.%s" % (ty, meth)] = e
    # cross-mode relations
    cross = []
    if pm is not None or (P["m"] or "").startswith("(err "):
        if pm is not None:
            want = "(ok Interactive(ModInteractive { range: %s, body: %s }))" % (
                show_dbg(_field(pm, "range")), show_dbg(_field(pm, "body")))
        else:
            want = P["m"]
        if P["i"] != want:
            cross.append(("parse.i", "interactive mode %s != module body/error %s" % (P["i"][:80], want[:80])))
    if pe is not None:
        ok = (pm is not None and len(body) == 1 and body[0][1] == "Expr"
              and show_dbg(_field(body[0][2][0], "value")) == show_dbg(expr))
        if not ok:
            cross.append(("parse.e", "expression mode accepts with %s but module mode gives %s" % (
                show_dbg(expr)[:80], (P["m"] or "")[:100])))
    return exp, cross


def analyse(req, out):
    """-> list of (tag or None, text): every way the answer breaks the property; tag = known-finding key candidate"""
    ws = req.split()
    op, k, src = ws[0], int(ws[1]), unhex(ws[2])
    full = len(ws) > 3 and ws[3] == "1"
    if out in ("(panic)", "(abort)", "(timeout)", "bad-request", "bad-config"):
        return [(None, "implementation " + out)]
    try:
        blocks = _blocks(out)
    except DbgError as e:
        return [(None, "unreadable answer: %s" % e)]
    b0 = blocks.get(0)
    if b0 is None or (k != 0 and k not in blocks):
        return [(None, "answer lacks a block")]
    fails = []
    for off, b in blocks.items():
        for name, val in b.items():
            if val == "(panic)":
                fails.append((None, "%s@%d panicked" % (name, off)))
    if op == "lexes":
        for c in "mei":
            if b0.get("lex." + c) != b0.get("lex_starts_at." + c):
                fails.append((None, "lex(%s) != lex_starts_at(.., 0)" % c))
        for ty, c in HAND + [(p, "m") for _, p in STMT_VARIANTS] + [(p, "e") for _, p in EXPR_VARIANTS]:
            for off, b in blocks.items():
                if b.get(ty + ".lex_starts_at") != b.get("lex_starts_at." + c):
                    fails.append((None, "%s::lex_starts_at@%d is not lexer::lex_starts_at in mode %s" % (ty, off, c)))
        if k:
            bk = blocks[k]
            for name, val in bk.items():
                base = b0.get(name)
                if base is None:
                    fails.append((None, "%s missing at offset 0" % name))
                elif val != shift_toks(base, k):
                    fails.append((None, "%s at offset %d is not the offset-0 stream moved by %d: %s" % (
                        name, k, k, _first_diff(val, shift_toks(base, k)))))
        return fails
    # ---- entries
    try:
        exp, cross = expected_at0(b0)
    except (DbgError, IndexError, TypeError, KeyError) as e:
        return fails + [(None, "cannot read parse.m/e/i: %r" % (e,))]
    for name, text in cross:
        fails.append((None, text))
    blank = _is_blank(src)
    stmtless = bool(re.match(r"\(ok Module\(ModModule \{ range: [^,]*, body: \[\]", b0.get("parse.m", "")))
    for name, want in exp.items():
        got = b0.get(name)
        if got is None:
            fails.append((None, "%s missing" % name))
        elif want == ("err",):
            if not got.startswith("(err "):
                fails.append((None, "%s: no single statement, yet %s" % (name, got[:80])))
        elif got != want:
            fails.append((None, "%s = %s, but the tree of parse(..) gives %s" % (name, got[:100], str(want)[:100])))
    if k:
        bk = blocks[k]
        for name, got in bk.items():
            base = b0.get(name)
            if base is None:
                fails.append((None, "%s missing at offset 0" % name))
                continue
            want = shift_answer(base, k)
            if got == want:
                continue
            if blank and got == base and (name.startswith("parse_tokens.") or name.endswith(".parse_tokens")):
                # a text without tokens lexes to the same (empty) stream at every offset, so no parse_tokens can
                # tell the offsets apart: "equals parsing the text" and "moved by k" cannot both be asked here
                continue
            if stmtless and got == base == "(err Eof 0)" and name.endswith(".parse_tokens"):
                # same conflict for a text WITH tokens but WITHOUT a statement (a backslash-joined blank line leaves a lone
                # Newline token): the Eof of a zero-statement stream has no token to sit at, and the first token is at
                # k + 3, not k — parse_tokens is not told k and cannot recover it (the *_starts_at twins are judged)
                continue
            tag = None
            if blank and got == base and _TOKENLESS_MOD.match(got) and (
                    name in ("parse_starts_at.m", "parse_starts_at.i", "ModModule.parse_starts_at",
                             "ModInteractive.parse_starts_at")):
                # the one place left: a token-less text gives the marker nothing to follow, the Mod node (only with
                # all-nodes-with-ranges) takes the marker's 0..0 and not_before repairs errors only
                tag = "start-marker-mod-range-no-token"
            fails.append((tag, "%s at offset %d = %s, offset-0 result moved by %d = %s" % (
                name, k, got[:100], k, want[:100])))
    return fails


_TOKENLESS_MOD = re.compile(r"^\(ok (?:Module\(ModModule|Interactive\(ModInteractive|ModModule|ModInteractive) "
                            r"\{ range: 0\.\.0, body: \[\][,} ]")


def _first_diff(a, b):
    n = min(len(a), len(b))
    i = next((j for j in range(n) if a[j] != b[j]), n)
    return "…%s | …%s" % (a[max(0, i - 20):i + 40], b[max(0, i - 20):i + 40])


def _mode_spec(name):
    """CPython's compile() modes: exec = statements, eval = one expression, single = interactive statements
    (the property makes module and interactive mode interchangeable for the body, so either is accepted)"""
    return {"exec": ("Module",), "eval": ("Expression",), "single": ("Module", "Interactive")}.get(name, ("err",))


def mode_oracle(req, out):
    ws = req.split()[1:]
    ans = out.split()
    if len(ans) != len(ws):
        return "implementation " + out[:40]
    for h, a in zip(ws, ans):
        name = unhex(h).decode("utf-8")
        r = a.partition("=")[2]
        if r not in _mode_spec(name):
            return "Mode::from_str(%r) = %s, expected %s" % (name, r, "/".join(_mode_spec(name)))
    return None


def oracle(req, out):
    if req.startswith("modes"):
        return mode_oracle(req, out)
    fails = analyse(req, out)
    if not fails:
        return None
    return "; ".join(("[%s] " % t if t else "") + x for t, x in fails[:4]) + (" (+%d more)" % (len(fails) - 4) if len(fails) > 4 else "")


def classify(req, impl_out, model_out, failure):
    """a listed finding only if EVERY failure of the request is of listed shapes (first key wins)"""
    if not failure or req.startswith("modes"):
        return None
    fails = analyse(req, impl_out)
    if fails and all(t for t, _ in fails):
        return fails[0][0]
    return None


# ------------------------------------------------------------------ variants (from the translator, i.e. from generic.rs)

def _variants():
    enums, rows = c09_translate.translate()
    return enums["Stmt"], enums["Expr"], rows


try:
    STMT_VARIANTS, EXPR_VARIANTS, _ROWS = _variants()
except Exception:          # reported by pre_build; keep the module importable
    STMT_VARIANTS, EXPR_VARIANTS, _ROWS = [], [], []


# ------------------------------------------------------------------ pre_build: translator + behavioural tables

def _bin(features="default"):
    rc, out, path = core.cargo_build("pvh_c09", features)
    if rc != 0:
        raise RuntimeError("cargo build pvh_c09 [%s] failed: %s" % (features, out[-600:]))
    return path


def pre_build(ctx):
    res = []
    enums, rows = c09_translate.translate()          # raises on unknown shapes -> obligation `translate` unchecked
    path = os.path.join(core.LEAN, "PV", "Gen", "C09TypedParsers.lean")
    c09_translate.write_if_changed(path, c09_translate.render(enums, rows))
    res.append(("translate parser/src/gen/parse.rs", True, "%d generated impls" % len(rows)))
    hbin = _bin()
    names = core.run_lines([hbin], ["names"])[0].split()
    want = ["%s:%s" % (t, c) for t, c in HAND] + ["%s:%s" % (r["type"], "m" if r["typeEnum"] == "stmt" else "e") for r in rows]
    res.append(("harness dispatches to exactly the translated parsers, in order", names == want,
                "" if names == want else "harness %s vs source %s" % (names[-3:], want[-3:])))
    # mode names, behaviourally
    req = "modes " + " ".join(hexs(c) for c in MODE_CANDIDATES)
    ans = core.run_lines([hbin], [req])[0].split()
    table = []
    ok = len(ans) == len(MODE_CANDIDATES)
    for c, a in zip(MODE_CANDIDATES, ans):
        h, _, r = a.partition("=")
        ok = ok and h == hexs(c) and r in ("Module", "Expression", "Interactive", "err")
        table.append((list(c.encode("utf-8")), r))
    o = ["import PV.C09.Types",
         "/-! REGENERATED by tools/props/c09.py (pre_build) from the real `Mode::from_str` — do not edit. -/",
         "namespace PV.C09.Gen", "open PV.C09", "",
         "/-- (candidate name as UTF-8 bytes, result of `Mode::from_str`) -/",
         "def modeTable : List (List Nat × Option Mode) := ["]
    lean = {"Module": "some .module", "Expression": "some .expression", "Interactive": "some .interactive", "err": "none"}
    o += ["  (%s, %s)%s" % ("[" + ", ".join(map(str, b)) + "]", lean.get(r, "none"), "," if i + 1 < len(table) else "")
          for i, (b, r) in enumerate(table)]
    o += ["]", "", "end PV.C09.Gen", ""]
    c09_translate.write_if_changed(os.path.join(core.LEAN, "PV", "Gen", "C09ModeNames.lean"), "\n".join(o))
    res.append(("extract Mode::from_str table", ok, "%d candidate names" % len(table)))
    return res


# ------------------------------------------------------------------ sources

VARIANT_SOURCES = [
    "def f(a, b=1, *c, d, **e): return a\n", "async def f():\n  await g()\n", "@dec\nclass A(B, metaclass=M):\n    x = 1\n",
    "return x", "del a, b[0]", "a = b = 1", "type X[T] = list[T]", "x += 1", "x: int = 1",
    "for i in range(3):\n  pass\nelse:\n  pass", "async for i in y: pass", "while x:\n    break\nelse:\n    continue",
    "if a:\n  b\nelif c:\n  d\nelse:\n  e", "with a as b, c: pass", "async with a as b: pass",
    "match x:\n    case [1, *r] if r: pass\n    case {'k': v, **kw}: pass\n    case A(b=1) | None: pass\n", "raise E from c",
    "try:\n  a\nexcept E as e:\n  b\nelse:\n  c\nfinally:\n  d", "try:\n  a\nexcept* E:\n  b", "assert x, 'm'",
    "import a.b as c, d", "from ..m import (a as b, c)", "global g, h", "nonlocal n", "f(x)", "pass", "break", "continue",
    # expressions, one per variant of Expr (also valid as expression statements)
    "a and b or c", "(y := 1)", "a + b * c", "not -x", "lambda a, *b, c=1, **d: a", "a if b else c", "{1: 2, **d}", "{1, 2}",
    "[x for x in y if x]", "{x for x in y}", "{k: v for k, v in y}", "(x for x in y)", "await x", "(yield x)", "(yield from x)",
    "a < b <= c != d", "f(a, *b, k=1, **kw)", "f'{x!r:>{w}}'", "f'a{x}b' 'c'", "'s' \"t\"", "a.b.c", "a[1:2, ::3]", "*a",
    "name", "[1, 2]", "(1, 2)", "a[1:2]", "1", "1.5", "2j", "b'x'", "True", "None", "...", "0xff_ff", "10**40",
    "123456789012345678901234567890", "u'x'", "'é😀'",
]

CORPUS = [
    "", " ", "\n", "\n\n", "# c", "# c\n", "  # c\n\n", "\t", "\x0c", "\\\n", "x", "x\n", "x\ny", "x\ny\n", "x;y", "x;", "x\n\n\ny\n",
    "x # c", "# c\nx", "# c\nx  # d\n\n", "\ufeffx", "\ufeff", "\ufeff# c\n", "x\r\ny\r\n", "x\ry", " x", "  x\n y", "if a:\nb",
    "if a:\n  b\n c", "(", ")", "(\n", "x = (", "[1, 2", "'abc", "'''abc", "\"\\", "f'{x'", "f'{a b}'", "f'{}'", "f'{x!z}'", "f'{x:{y:{z}}}'",
    "f'{f\"{x}\"}'", "f'''\n{x}\n'''", "f'{x}' f'{y}'", "f'{\n x}'", "f'{(lambda: 1)}'", "f'{a[\"b\"]}'", "rb'\\x'", "'\\N{DIGIT ONE}'",
    "'\\N{nope}'", "b'\\xff'", "b'é'", "1 +", "1 + + 2", "a b", "def", "def f(:", "def f(a, a): pass", "f(a=1, a=2)", "f(**k, *a)",
    "lambda: (yield)", "x = yield", "class A: pass", "match x:\n case 1: pass", "match = 1", "match[0]", "match (x)", "type = 1",
    "type X = int", "type X[T] = T", "case = 2", "print(match, case, type)", "match x:\n  case _: pass\nmatch = 2", "a = 1; b = 2\nc",
    "$", "?", "x = 1 $", "\x00", "é = 1", "x = 'é'  # é\ny", "0777", "1__0", "1.e5", "0b12", "1e", "x = 0_0", "1if 2else 3", "1_000.0_1e+1_0j",
    "@", "@x", "x: int", "x: int = 1; y", "del x,", "*a, b = c", "*a", "a, b", "a,", "(a)", "((a))", "()", "[]", "{}", "a if b else c\n\n",
    "yield x", "await x", "x\n  ", "x\n  # c", "x\n# c\n", "x \\\n + y", "if x:\n\tpass\n        pass", "if x:\n        pass\n\tpass",
    # white space in the sense of Rust's `char::is_whitespace` / `str::trim` or of Python's `str.isspace`, but not blank to the
    # lexer: no entry point may treat such a text as empty (seed C09-8: a `trim().is_empty()` short cut in `parse`)
    "\u00a0", "\n\u3000\n", "\n\x0b\n", "\u0085", " \t", "\x1c", "\x1f", "\u2028", "\u2029", "\u2003 ", "\u00a0# c", "\u1680\n", "\u202f", "\u205f",
    "\ufeff\u00a0", "x\u00a0", "\u00a0x", "x = 1\n\u3000", " \t\n", "\t \n", "\x0c\x0b",
    # tokens but no statement (a backslash-joined blank line leaves a lone Newline token)
    "\\\n \n", "\\\n\n", " \\\n \n# c\n", "\\\n\\\n\n", "# c\n\\\n\n",
    "try:\n pass\nfinally:\n pass", "with (a as b): pass", "async def f(): await x", "global x", "return", "import a", "from . import a",
]


# inputs of the findings repaired by 9f7255d / e8203b1 / 582d03b (see known_findings.d/C09.json "fixed")
REPAIRED_PROBES = ["", "# c\n", "x\n", "# c\nx", "\n\n# c\n  \nx = 1\n", "# c\n# d\n(\n# e\n1)\n", "\n$", "# c\n'abc"]


def _variant_reqs_sources():
    out = list(VARIANT_SOURCES)
    out += [s + "\n" for s in VARIANT_SOURCES[:10]]
    return out


def _gen_random(rng, n):
    """mostly valid programs: the shared type-directed generator if available, else a small fallback"""
    out = []
    try:
        import gen_program
        for i in range(n):
            g = gen_program.Gen(rng, depth=rng.choice([2, 3, 3, 4]), stmts=(1, rng.choice([1, 1, 2, 4])))
            if i % 3 == 0:
                out.append(g.expression_program().text)
            else:
                out.append(g.program().text)
        return out
    except Exception:
        pass
    atoms = ["x", "y", "1", "'s'", "f'{x}'", "None", "a.b", "f(x)", "[1, 2]", "(a, b)", "match", "type", "1.5", "b'z'"]
    ops = [" + ", " and ", " < ", " if c else ", ", ", " * "]
    for _ in range(n):
        def e(d):
            if d == 0 or rng.random() < 0.3:
                return rng.choice(atoms)
            return e(d - 1) + rng.choice(ops) + e(d - 1)
        forms = ["%s", "a = %s", "if %s:\n    pass", "return %s", "def f():\n    return %s", "while %s: break",
                 "x = %s\ny = 2", "# c\n%s\n\n", "(%s)"]
        out.append(rng.choice(forms) % e(rng.randrange(0, 3)))
    return out


def _mutate(rng, s):
    if not s:
        return "("
    k = rng.randrange(6)
    i = rng.randrange(len(s))
    if k == 0:
        return s[:i] + s[i + 1:]
    if k == 1:
        return s[:i] + rng.choice("()[]{}:,'\"\\\n \t#=*$") + s[i:]
    if k == 2:
        return s[:i]
    if k == 3:
        j = rng.randrange(len(s))
        i, j = min(i, j), max(i, j)
        return s[:i] + s[j:]
    if k == 4:
        return s[:i] + s[i:].replace("\n", "\n ", 1)
    return s[:i] + rng.choice(["else", "in", "\n  ", "f'{", "'''"]) + s[i:]


def _offsets(src_bytes):
    n = len(src_bytes)
    return [0, 1, 400, 2 ** 31, U32 - 1 - n]


def _split_fields(line):
    d = {}
    for item in line.split("\t"):
        kname, _, v = item.partition("=")
        d[kname] = v
    return d


def _build_requests(features, items):
    """items: [(src_text, k)] -> (entries requests, lexes requests), with attachments from a pre-pass"""
    hbin = _bin(features)
    full = "1" if features == "full-lexer" else "0"
    need = []
    seen = set()
    for s, k in items:
        for kk in (0, k):
            key = (s, kk)
            if key not in seen:
                seen.add(key)
                need.append(key)
    ans = core.run_lines([hbin], ["top %d %s" % (kk, hexs(s)) for s, kk in need], jobs=8)
    top = dict(zip(need, ans))
    ents, lexs = [], []
    for s, k in items:
        a0, ak = _split_fields(top[(s, 0)]), _split_fields(top[(s, k)])

        def part(a):
            return hexs("\t".join("%s=%s" % (f, a.get(f, "(missing)")) for f in ("m", "e", "i", "lex.m", "lex.e", "lex.i")))
        ents.append("entries %d %s %s %s %s" % (k, hexs(s), full, part(a0), part(ak)))
        lexs.append("lexes %d %s %s %s %s" % (k, hexs(s), full, part(a0), part(ak)))
    return ents, lexs


def _nontrivial(r):
    return r.split()[2] != "-"


def streams(ctx):
    out = []
    quick = ctx.quick

    def with_offsets(srcs, ks=None):
        items = []
        for s in srcs:
            b = s.encode("utf-8")
            for k in (ks if ks is not None else _offsets(b)):
                if k + len(b) < U32:
                    items.append((s, k))
        return items

    # 0. the inputs of the four repaired findings (9f7255d, e8203b1, 582d03b), as ordinary requests judged by the
    #    oracle: if a defect returns it is a VIOLATION with this input
    e, _ = _build_requests("default", [(s, k) for s in REPAIRED_PROBES for k in (100, 2 ** 31)])
    out.append(Stream("repaired-finding-inputs", e, kind="directed",
                      note="Stmt::parse_starts_at(\"\", _, 100), expression mode on token-less texts at offset 100, "
                           "texts with leading blank/comment lines"))

    out.append(Stream("mode-names", ["modes " + " ".join(hexs(c) for c in MODE_CANDIDATES)], kind="directed",
                      compare=False, note="Mode::from_str on the candidate names, judged against CPython's mode names"))

    # 1. corpus x all offsets x all entry points (blank texts included since the offset repairs)
    items = with_offsets(CORPUS)
    e, l = _build_requests("default", items)
    out.append(Stream("corpus-entries", e, kind="corpus", nontrivial=_nontrivial,
                      note="suspected-problem texts (valid, invalid, blank) x offsets {0,1,400,2^31,2^32-1-len}"))
    out.append(Stream("corpus-lexes", l, kind="corpus", nontrivial=_nontrivial,
                      note="every lexing entry point"))

    # 1b. directed shapes (tools/shapes.py) in batches: start offsets must only translate positions on the grammar regions
    #     random generation seldom reaches (parameter-list sections, with-items of every expression kind, rare productions)
    import shapes
    sh = shapes.all_shapes()
    step = 12 if quick else 3
    batches = ["".join(sh[i:i + 30]) for i in range(0, len(sh), 30)][::step]
    e, _l = _build_requests("default", [(b, 400) for b in batches])
    out.append(Stream("directed-shapes-entries", e, kind="directed", nontrivial=_nontrivial,
                      note="%d batches of 30 directed statements at offset 400, every entry point" % len(batches)))

    # 2. one text per Stmt/Expr variant: every generated parser has a text it accepts
    items = with_offsets(_variant_reqs_sources(), ks=None if not quick else [0, 400, 2 ** 31])
    e, l = _build_requests("default", items)
    out.append(Stream("each-variant-entries", e, kind="exhaustive", exhaustive=True, nontrivial=_nontrivial,
                      note="a text for each of the 28 statement and 27 expression variants: each of the 55 generated "
                           "parsers is exercised on its own variant and on the 54 others"))
    out.append(Stream("each-variant-lexes", l, kind="exhaustive", exhaustive=True, nontrivial=_nontrivial))

    # 3. random mostly-valid programs, some behind leading blank / comment lines (the marker must skip them)
    rng = ctx.rng("random-valid")
    n = 120 if quick else 2500
    srcs = []
    for i, t in enumerate(_gen_random(rng, n)):
        if i % 5 == 0:
            t = rng.choice(["\n", "# c\n", "\n\n  # c\n", "\\\n", "\ufeff", "\x0c\n"]) + t
        srcs.append(t)
    items = [(s, rng.choice(_offsets(s.encode())[1:])) for s in srcs]
    e, l = _build_requests("default", items)
    out.append(Stream("random-valid-entries", e, kind="random", nontrivial=_nontrivial))
    out.append(Stream("random-valid-lexes", l, kind="random", nontrivial=_nontrivial))

    # 4. malformed: single edits of valid texts
    rng = ctx.rng("malformed")
    pool = VARIANT_SOURCES + srcs[:200]
    n = 150 if quick else 3000
    bad = []
    for _ in range(n):
        m = _mutate(rng, rng.choice(pool))
        try:
            m.encode("utf-8")
        except UnicodeEncodeError:
            continue
        bad.append(m)
    items = [(s, rng.choice(_offsets(s.encode())[1:])) for s in bad]
    e, l = _build_requests("default", items)
    out.append(Stream("malformed-entries", e, kind="malformed", nontrivial=_nontrivial))
    out.append(Stream("malformed-lexes", l, kind="malformed", nontrivial=_nontrivial))

    # 5. the other configurations (quantifier: configurations)
    sub = CORPUS[:: (3 if quick else 1)] + VARIANT_SOURCES[:: (4 if quick else 1)] + REPAIRED_PROBES
    for fs in ("all-ranges", "full-lexer"):
        h = {"bin": "pvh_c09", "features": fs}
        if fs == "all-ranges":
            # the listed finding that is left: Mod range of a token-less text (one deterministic probe)
            e, _ = _build_requests(fs, [("", 100)])
            out.append(Stream("known-finding-probe-" + fs, e, kind="directed", harness=h,
                              note="parse_starts_at(\"\", Mode::Module, _, 100): Module range 0..0"))
        e, l = _build_requests(fs, [(s, 0) for s in sub])
        out.append(Stream("entries-offset0-" + fs, e, kind="corpus", harness=h, nontrivial=_nontrivial,
                          note="entry-point agreement in this build (offset 0)"))
        ks = (100, 400, None)
        items = [(s, k if k is not None else U32 - 1 - len(s.encode())) for s in sub for k in ks]
        if fs == "all-ranges":
            # token-less texts at k != 0 hit the listed finding (probed above); everything else is judged
            items = [(s, k) for s, k in items if not _is_blank(s.encode())]
        e, l = _build_requests(fs, items)
        out.append(Stream("entries-shift-" + fs, e, kind="corpus", harness=h, nontrivial=_nontrivial,
                          note=("every Mod* range must move with the offset (start marker at the first token)"
                                if fs == "all-ranges" else
                                "comment / blank-line tokens reach every parse_tokens entry point and are skipped there")))
        out.append(Stream("lexes-shift-" + fs, l, kind="corpus", harness=h, nontrivial=_nontrivial))
    return out


def search(ctx, disagreements, bins):
    """violation search: a proof obligation broke (regenerated table no longer well-formed, mode table off) or the
    model mispredicts — run every stream on the real code and let the property's oracle look for a failing input."""
    known = core.load_known()
    cands = []
    for s in streams(ctx):
        h = s.harness or HARNESS
        path = bins.get((h["bin"], h.get("features", "default"))) if bins else None
        if not path or not os.path.exists(path):
            path = _bin(h.get("features", "default"))
        cands.append((s, path))
    # the disagreeing requests first
    first = [e["request"] for e in disagreements]
    for s, path in cands:
        reqs = [r for r in s.requests if r in first] + [r for r in s.requests if r not in first]
        outs = core.run_lines([path], reqs, jobs=8)
        for r, a in zip(reqs, outs):
            f = oracle(r, a)
            if not f:
                continue
            key = classify(r, a, None, f)
            if key and (ID, key) in known:
                continue
            return {"stream": s.name, "request": r, "impl_output": a[:4000], "oracle_output": f,
                    "theorem_or_stream_broken": "found by running the oracle over all streams"}
    return None
