"""C06 — string, bytes and numeric literals decode to their Python values."""
import ast
import io
import itertools
import os
import struct
import sys
import tokenize
import unicodedata
import warnings

import core
from core import Stream, hexs, unhex

ID = "C06"
DESIGN_REF = "DESIGN.md section 5, C06"
LEAN_TARGETS = ["PV.C06.Thm"]
DRIVER = "drv_c06"
HARNESS = {"bin": "pvh_c06", "features": "default"}
THEOREMS = [
    "PV.C06.decode_eq_spec",
    "PV.C06.decode_no_panic",
    "PV.C06.escape_table_eq",
    "PV.C06.prefix_table_eq_partial",
    "PV.C06.prefix_table_fails",
    "PV.C06.detect_eq_spec_partial",
    "PV.C06.detect_fails",
    "PV.C06.concat_spec",
    "PV.C06.int_value",
    "PV.C06.float_scan_partial",
]
TRUSTED = [
    "Lean 4.33.0 kernel; axioms limited to propext, Classical.choice, Quot.sound",
    "hand-written model lean/PV/C06/Model.lean of parser/src/string.rs (escape decoding, parse_string/parse_bytes, "
    "parse_strings without f-strings), token.rs StringKind, lexer.rs lex_string / lex_number*, tied to the code by "
    "the correspondence streams of this run and by the behaviourally extracted tables lean/PV/Gen/C06Tables.lean",
    "f64::from_str is correctly rounded (sampled on every run against PV.Dec.ofDecimal = exact big-integer "
    "round-to-nearest-even, and against CPython float())",
    "BigInt::from_str_radix / str::parse::<BigInt> return the positional value of a digit string (sampled)",
    "unicode_names2::character is a parameter of the model (theorems hold for every lookup function); the "
    "lookups used by the driver are taken from the real parser, and judged against CPython unicodedata (14.0)",
    "the LALRPOP grammar hands adjacent string tokens to parse_strings and number tokens to Constant unchanged",
    "CPython 3.11.7 ast.parse as the meaning of 'the Python value'",
    "tools/props/c06.py (generators, oracle), harness/src/bin/pvh_c06.rs, lean/Drv/C06.lean",
]
PARTIAL = [
    "prefix_table_eq_partial / detect_eq_spec_partial exclude the single prefix `U`: the unchanged code gives U'..' "
    "the kind marker 'u', the reference does not (known finding kind-marker-uppercase-U; prefix_table_fails and "
    "detect_fails are the kernel-checked witnesses)",
    "float_scan_partial: proved is that the text handed to f64::from_str is the numeral with underscores removed "
    "and the exponent marker lower-cased; the correct rounding of f64::from_str itself is trusted and sampled",
    "the lexer capture (lex_string) and parse_strings are modelled and run in correspondence; decode_eq_spec is "
    "about the decoder applied to a captured body, concat_spec about parse_strings",
]
READY = True
TECHNIQUE = ("Lean 4 theorems relating a hand-written model of the Rust decoder/scanner to an independent reference "
             "decoder + behaviourally extracted finite tables re-proved by decide + exhaustive/random correspondence")
LEVEL_TEXT = ("Machine-checked Lean 4 theorems, for literal bodies of every length and every name-lookup function: the "
              "modelled escape decoder (text and bytes, raw and cooked) equals the reference left-to-right decoder up to "
              "the documented surrogate -> U+FFFD difference and never panics; prefix recognition equals the reference "
              "prefix grammar; implicit concatenation concatenates and propagates the u marker; the integer scanner "
              "yields the positional value of the digits; the float scanner hands the cleaned numeral to the conversion "
              "primitive. The one-character escape table and the prefix table are extracted from the real parser on "
              "every run and re-proved equal to the reference tables by decide. The model is tied to the code by "
              "exhaustive sweeps of the escape space and random correspondence; the real code is judged by CPython.")
LEVEL_NOTE = ("Trusted: Lean kernel, model fidelity as sampled, f64::from_str / BigInt parsing (sampled against exact "
              "arithmetic and CPython), unicode_names2 (parameter), LALRPOP glue, harness and generators.")
RULE = ("request = one literal expression source (or a lexer-level token query) sent to the real parser and to the "
        "Lean model; distinct = distinct request line; every request is a literal CPython accepts")

sys.set_int_max_str_digits(0)
warnings.simplefilter("ignore")

_NAMES = {}          # unicode name -> code point or None, as the REAL parser resolves it (filled by pre_build)
_HBIN = None

ESC_KINDS = ["", "u", "b", "r", "rb"]      # order of the behavioural escape table


# ------------------------------------------------------------------------------------------------ CPython reference

def py_value(src):
    """(tag, payload) of the literal per CPython, or None when CPython rejects / it is not a plain literal."""
    try:
        with warnings.catch_warnings():
            warnings.simplefilter("ignore")
            node = ast.parse(src, mode="eval").body
    except (SyntaxError, ValueError, MemoryError, RecursionError):
        return None
    if not isinstance(node, ast.Constant):
        return None
    v = node.value
    if isinstance(v, bool) or v is None or v is Ellipsis:
        return None
    if isinstance(v, str):
        cps = ",".join(str(0xFFFD if 0xD800 <= ord(c) <= 0xDFFF else ord(c)) for c in v) or "-"
        return f"str {'u' if node.kind == 'u' else '-'} {cps}"
    if isinstance(v, bytes):
        return f"bytes {hexs(v)}"
    if isinstance(v, int):
        return f"int {v}"
    if isinstance(v, float):
        return "float %016x" % struct.unpack("<Q", struct.pack("<d", v))[0]
    if isinstance(v, complex):
        return "complex %016x %016x" % (struct.unpack("<Q", struct.pack("<d", v.real))[0],
                                        struct.unpack("<Q", struct.pack("<d", v.imag))[0])
    return None


_PREFIX_KIND = {"": "s", "f": "f", "b": "b", "r": "r", "u": "u", "fr": "rf", "rf": "rf", "br": "rb", "rb": "rb"}


def py_tokens(src):
    """expected answer of the `tok` op from CPython's tokenizer, or None when outside the domain"""
    norm = src.replace("\r\n", "\n").replace("\r", "\n")
    out = []
    try:
        for t in tokenize.generate_tokens(io.StringIO(norm).readline):
            if t.type == tokenize.STRING:
                s = t.string
                i = 0
                while s[i] not in "'\"":
                    i += 1
                pre = s[:i].lower()
                q = s[i]
                triple = s[i:i + 3] == q * 3 and len(s) - i >= 6
                body = s[i + 3:-3] if triple else s[i + 1:-1]
                cps = ",".join(str(ord(c)) for c in body) or "-"
                out.append(f"S:{_PREFIX_KIND[pre]}:{3 if triple else 1}:{cps}")
            elif t.type == tokenize.NUMBER:
                v = py_value(t.string)
                if v is None:
                    return None
                tag, rest = v.split(" ", 1)
                out.append({"int": "I:", "float": "F:", "complex": "C:"}[tag] + rest.replace(" ", ":"))
            elif t.type in (tokenize.NEWLINE, tokenize.ENDMARKER, tokenize.NL):
                pass
            else:
                return None
    except (tokenize.TokenError, SyntaxError, IndentationError, KeyError, IndexError):
        return None
    return ";".join(out) or "-"


def oracle(req, out):
    ws = req.split()
    if out in ("(panic)", "(abort)", "(timeout)"):
        return "implementation " + out
    if ws[0] == "lit":
        src = unhex(ws[1]).decode("utf-8")
        exp = py_value(src)
        if exp is None:
            return None                     # outside the quantifier (reference rejects)
        if out != exp:
            return f"value {out[:200]} != reference {exp[:200]}"
        return None
    if ws[0] == "tok":
        src = unhex(ws[1]).decode("utf-8")
        exp = py_tokens(src)
        if exp is None:
            return None
        if out != exp:
            return f"tokens {out[:200]} != reference {exp[:200]}"
        return None
    return None


def accepted(src):
    return py_value(src) is not None


# ------------------------------------------------------------------------------------------------ pre_build: tables

def _run_harness(lines):
    return core.run_lines([_HBIN], lines, jobs=4)


def _lean_list(xs):
    return "[" + ", ".join(str(x) for x in xs) + "]"


def _write_if_changed(path, text):
    os.makedirs(os.path.dirname(path), exist_ok=True)
    if os.path.exists(path) and open(path, encoding="utf-8").read() == text:
        return
    with open(path, "w", encoding="utf-8") as f:
        f.write(text)


SENTINEL = 4294967295


def gen_tables(esc_line, prefix_line):
    rows = []
    for item in esc_line.split(";"):
        key, v = item.split("=")
        k, c = key.split(":")
        if v == "E":
            val = "none"
        elif v == "-":
            val = "some []"
        elif v in ("P", "?"):
            val = f"some [{SENTINEL}]"
        else:
            val = "some " + _lean_list(v.split(","))
        rows.append(f"  ({k}, {c}, {val})")
    prow = []
    for item in prefix_line.split(";"):
        key, v = item.split("=")
        letters = _lean_list(key.split(","))
        if v == "N":
            val = "none"
        elif v in ("P", "?"):
            val = f"some {SENTINEL}"
        else:
            val = f"some {v}"
        prow.append(f"  ({letters}, {val})")
    return ("/-\n  GENERATED on every run by tools/props/c06.py (pre_build) from the BEHAVIOUR of the real parser\n"
            "  (harness op `table esc` / `table prefix`); do not edit.\n"
            "  escapeTable: (kind, c, decoded value of the literal `<prefix>'\\c'`), kind 0 str, 1 u, 2 bytes, 3 r, 4 rb;\n"
            "               `none` = the literal is rejected.\n"
            "  prefixTable: (prefix letters, observed kind 0 str, 1 f, 2 bytes, 3 raw str, 4 raw f, 5 raw bytes, 6 u);\n"
            "               `none` = not recognised as a string prefix.\n-/\n"
            "namespace PV.C06.Gen\n\n"
            "def escapeTable : List (Nat × Nat × Option (List Nat)) := [\n" + ",\n".join(rows) + "]\n\n"
            "def prefixTable : List (List Nat × Option Nat) := [\n" + ",\n".join(prow) + "]\n\n"
            "end PV.C06.Gen\n")


def _sample_names(ctx):
    rng = ctx.rng("names")
    n = 1500 if ctx.quick else 20000
    names = ["BULLET", "bullet", "Latin Small Letter A", "LATIN CAPITAL LETTER GHA", "LATIN CAPITAL LETTER OI",
             "CJK UNIFIED IDEOGRAPH-4E00", "CJK UNIFIED IDEOGRAPH-20000", "HANGUL SYLLABLE GA", "HANGUL SYLLABLE HIH",
             "LINE FEED", "NULL", "NO-BREAK SPACE", "SPACE", "LEFT CURLY BRACKET", "RIGHT CURLY BRACKET",
             "REPLACEMENT CHARACTER", "GRINNING FACE", "TIBETAN MARK BSKA- SHOG GI MGO RGYAN",
             "ARABIC LIGATURE UIGHUR KIRGHIZ YEH WITH HAMZA ABOVE WITH ALEF MAKSURA ISOLATED FORM",
             "BYZANTINE MUSICAL SYMBOL FTHORA SKLIRON CHROMA VASIS", "TANGUT IDEOGRAPH-17000", "NUSHU CHARACTER-1B170"]
    # boundary names, deterministically: the longest and the shortest names of the Unicode database of this CPython
    # (string.rs keeps a length limit, MAX_UNICODE_NAME), names with digits / hyphens, and over-long / unknown names
    allnames = []
    for cp in range(0x110000):
        try:
            allnames.append(unicodedata.name(chr(cp)))
        except ValueError:
            pass
    bylen = sorted(set(allnames), key=lambda x: (len(x), x))
    names += bylen[:12] + bylen[-40:]
    names += [x.lower() for x in bylen[-6:]]
    names += ["X" * 87, "X" * 88, "X" * 89, bylen[-1] + "S", bylen[-1][:-1], "NO SUCH NAME", "", " ", "BULLET ", " BULLET", "BULLET\u0041"]
    got = 0
    while got < n:
        cp = rng.choice([rng.randrange(0x20, 0x3000), rng.randrange(0x3000, 0x10000), rng.randrange(0x10000, 0x30000),
                         rng.randrange(0xE0000, 0xE0200)])
        try:
            nm = unicodedata.name(chr(cp))
        except ValueError:
            continue
        names.append(nm if rng.random() < 0.8 else nm.lower())
        got += 1
    return names


def pre_build(ctx):
    global _HBIN
    res = []
    rc, out, path = core.cargo_build(HARNESS["bin"], HARNESS["features"])
    if rc != 0:
        return [("behavioural tables (harness build)", False, out[-300:])]
    _HBIN = path
    esc, pre = _run_harness(["table esc", "table prefix"])
    ok = "=" in esc and "=" in pre
    if ok:
        _write_if_changed(os.path.join(core.LEAN, "PV", "Gen", "C06Tables.lean"), gen_tables(esc, pre))
    res.append(("behavioural tables extracted (escape table 5x127 rows, prefix table 72 rows)", ok,
                "" if ok else (esc + pre)[:300]))
    # unicode-name lookups as performed by the real parser (parameter of the model)
    names = _sample_names(ctx)
    outs = _run_harness([f"lit {hexs(chr(39) + chr(92) + 'N{' + nm + '}' + chr(39))}" for nm in names])
    for nm, o in zip(names, outs):
        ws = o.split()
        if ws[:2] == ["str", "-"] and len(ws) == 3 and "," not in ws[2] and ws[2] != "-":
            _NAMES[nm] = int(ws[2])
        else:
            _NAMES[nm] = None
    return res


# ------------------------------------------------------------------------------------------------ generators

def lit(src, names=None):
    r = f"lit {hexs(src)}"
    if names:
        r += " n=" + ",".join(f"{hexs(n)}:{'-' if v is None else v}" for n, v in names.items())
    return r


def tok(src):
    return f"tok {hexs(src)}"


def only_accepted(srcs):
    seen = set()
    for s in srcs:
        if s not in seen and "\x00" not in s and accepted(s):
            seen.add(s)
            yield s


QUOTES = ["'", '"', "'''", '"""']
STR_PREFIXES = ["", "r", "u", "R"]          # "U" is the known finding kind-marker-uppercase-U: probed separately
BYTES_PREFIXES = ["b", "B", "br", "Br", "bR", "BR", "rb", "rB", "Rb", "RB"]
F_PREFIXES = ["f", "F", "fr", "Fr", "fR", "FR", "rf", "rF", "Rf", "RF"]


def corpus():
    c = [
        r"'a\n\x41\ud800'", r"b'\777'", r"b'\400'", r"'\400'", "u'a' 'b'", "'a' u'b'", "u'a' r'\\n'", "'a' U'b'", "0x_1f", "1_0.5e+0_1",
        "1e309", "1e309j", "'''a\nb'''", "'a\\\nb'", "'''a\r\nb\rc'''", "'''\\\r\n'''", "'\\\r\nx'", ".5", "5.", "00", "0_0",
        "0e0", "01.5", "01j", "0_1j", "1e1_0", "0x_f", "0XfF", "0O17", "0B11", "1E+5J", "1.e5", "1.E-5", "0.e0",
        r"'\8\18\400'", r"rb'\x'", "\"a'b\\\"\"", r"'\v\a\b\f\n\r\t\\\'\"'", r"b'\v\a\b\f\n\r\t\\\'\"'", r"b'ሴ\N{x}\U0001'",
        r"'\xfF\xAb'", r"'\U0010ffff\U00010000'", r"'\udfff퟿'", r"'\0\00\000\0000'", r"'\7\77\777\7777'",
        r"b'\0\00\000\0000\377\378'", "'é' 'ü'", "r'\\'' r\"\\\"\"", "r'\\\n'", "'''\\''''", '"""a""b"""', "''''a'''",
        "b'a' B'b' rb'\\c'", "'a'\t'b'", "'a'  \"b\" '''c'''", "1.7976931348623157e308", "1.7976931348623158e308",
        "1.7976931348623159e308", "4.9406564584124654e-324", "2.4703282292062327e-324", "2.4703282292062328e-324",
        "2.2250738585072014e-308", "2.2250738585072011e-308", "9007199254740993.0", "9007199254740993", "1e23", "8.5e-324",
        "0.1", "0.3", "123456789012345678901234567890", "0b" + "1" * 200, "0x" + "f" * 100, "0o" + "7" * 100,
        "1" + "0" * 400 + "e-400", "0." + "0" * 400 + "1e401", "1e0000000000000000000005", "1e-0000000000000000000005",
        "0e99999999999999999999", "1_2_3_4_5", "0.000_1", "1_0e1_0j",
        "'\\\\N{x}'", "r'\\N{x}'", "'\\ N{'", "'\\\U0001F600'", "'\\é'", "'﻿'", "'  \x85'", "'\x0c\x0b'",
    ]
    return c


def esc_onechar(ctx):
    """`\\c` for every ASCII c (and a few non-ASCII) x every kind x every quote style, one escape per literal,
    alone and followed by text"""
    out = []
    chars = [chr(c) for c in range(1, 128)] + ["é", " ", "￿", "\U00010000", "\u0080"]
    for pre in ["", "u", "b", "r", "rb", "R", "B", "Br", "rB"]:
        for q in QUOTES:
            for ch in chars:
                out.append(f"{pre}{q}\\{ch}{q}")
                out.append(f"{pre}{q}a\\{ch}1{q}")
    return out


def hex_all():
    out = []
    for v in range(256):
        lo, up = "%02x" % v, "%02X" % v
        mixed = lo[0].upper() + lo[1]
        for h in {lo, up, mixed}:
            out.append(f"'\\x{h}'")
            out.append(f"b'\\x{h}'")
            out.append(f"'a\\x{h}0'")
    return out


def octal_all():
    out = []
    for n in (1, 2, 3):
        for tup in itertools.product("01234567", repeat=n):
            o = "".join(tup)
            out.append(f"'\\{o}'")
            out.append(f"b'\\{o}'")
    for tup in itertools.product("0378", repeat=4):
        o = "".join(tup)
        out.append(f"'\\{o}'")
        out.append(f"b'\\{o}'")
    return out


def bmp_all(ctx):
    """all 65536 `\\uXXXX`, 256 escapes per literal; case of the hex digits alternates"""
    out = []
    for hi in range(256):
        fmt = "\\u%04x" if hi % 2 == 0 else "\\u%04X"
        out.append("'" + "".join(fmt % (hi * 256 + lo) for lo in range(256)) + "'")
    if not ctx.quick:
        for hi in range(256):
            out.append("'" + "".join("\\U0000%04x" % (hi * 256 + lo) for lo in range(256)) + "'")
    return out


def astral(ctx):
    rng = ctx.rng("astral")
    pts = [0x10000, 0x10001, 0x1FFFF, 0x20000, 0xFFFFF, 0x100000, 0x10FFFE, 0x10FFFF, 0xD7FF, 0xD800, 0xDBFF, 0xDC00,
           0xDFFF, 0xE000, 0xFFFD, 0xFFFE, 0xFFFF, 0, 0x7F, 0x80, 0xFF, 0x100, 0x7FF, 0x800]
    pts += [rng.randrange(0x10000, 0x110000) for _ in range(5000 if ctx.quick else 200000)]
    out = []
    for p in pts:
        out.append("'\\U%08x'" % p if rng.random() < 0.5 else "'\\U%08X'" % p)
    out.append("'" + "".join("\\U%08x" % p for p in pts[:200]) + "'")
    return out


def named(ctx):
    rng = ctx.rng("named")
    reqs = []
    names = list(_NAMES)
    for nm in names:
        src = "'\\N{" + nm + "}'"
        if accepted(src):
            reqs.append(lit(src, {nm: _NAMES[nm]}))
    for src, ks in [("'\\N{bullet}\\N{SPACE}x'", ["bullet", "SPACE"]), ("u\"\"\"\\N{BULLET}\n\\N{NULL}\"\"\"", ["BULLET", "NULL"]),
                    ("'\\N{LEFT CURLY BRACKET}\\N{RIGHT CURLY BRACKET}}'", ["LEFT CURLY BRACKET", "RIGHT CURLY BRACKET"])]:
        if accepted(src):
            reqs.append(lit(src, {k: _NAMES.get(k) for k in ks}))
    for _ in range(500 if ctx.quick else 5000):
        ks = [rng.choice(names) for _ in range(rng.randrange(2, 5))]
        src = "'" + "".join(rng.choice(["x", "\\n", " ", "\\N{" + k + "}"]) for k in ks for _ in (0, 1)) + "'"
        if accepted(src):
            reqs.append(lit(src, {k: _NAMES[k] for k in ks}))
    return reqs


def prefixes():
    out = []
    bodies = ["", "a", "\\x41\\n", "\\\\", "{{x}}", "\\u0041\\N", "é"]
    for pre in STR_PREFIXES + BYTES_PREFIXES:
        for q in QUOTES:
            for b in bodies:
                out.append(f"{pre}{q}{b}{q}")
    return out


def triple_bodies(ctx):
    """all bodies of length <= L over a small alphabet inside both triple quotes (and single quotes)"""
    alpha = ["a", "\n", "\r", "\r\n", "'", '"', "\\", "\\\n", "\\\r\n", "\\\r"]
    L = 4 if ctx.quick else 5
    out = []
    for n in range(L + 1):
        for tup in itertools.product(alpha, repeat=n):
            b = "".join(tup)
            for q in ("'''", '"""'):
                out.append(f"{q}{b}{q}")
            if n <= 2:
                for pre in ("b", "r", "rb", "u"):
                    out.append(f"{pre}'''{b}'''")
                out.append(f"'{b}'")
                out.append(f'"{b}"')
    return out


def concat(ctx):
    rng = ctx.rng("concat")
    out = []
    text_lits = ["'a'", '"b"', "u'c'", "u"'"d"', "r'\\n'", "R'\\x'", "'''e\nf'''", "'\\x41'", "''", "u''", "'\\N{BULLET}'"[:0] + "'\\u00e9'"]
    bytes_lits = ["b'a'", 'B"b"', "rb'\\n'", "Br'\\x'", "b'''e\nf'''", "b'\\x41\\777'", "b''"]
    for pool in (text_lits, bytes_lits):
        for a in pool:
            for b in pool:
                out.append(f"{a} {b}")
        for _ in range(1500 if ctx.quick else 30000):
            k = rng.randrange(3, 6)
            out.append(rng.choice([" ", "  ", "\t", ""]).join(rng.choice(pool) for _ in range(k)))
    # escape sequences at the seam of two literals: each literal is decoded on its own, so an escape that ends one
    # literal must not continue into the next (octal digits, hex digits, an escaped backslash before a letter, ...)
    tails = ["\\0", "\\1", "\\12", "\\7", "\\37", "\\\\", "\\x4", "\\x41", "\\u00e", "\\u00e9", "a", "\\"]
    heads = ["0", "1", "7", "23", "8", "9", "a", "f", "n", "x41", "u00e9", "N{BULLET}", "{", "\\0", "", "'"]
    for pre in ("", "b", "u", "r", "rb"):
        for qa in ("'", '"', "'''"):
            for qb in ("'", '"'):
                for t in tails:
                    for h in heads:
                        if h == "'" and qb == "'":
                            continue
                        for sep in (" ", ""):
                            out.append(f"{pre}{qa}x{t}{qa}{sep}{pre}{qb}{h}y{qb}")
                        out.append(f"{pre}{qa}{t}{qa} {pre}{qb}{h}{qb} {pre}{qa}{h}{qa}")
    return out


def num_shapes(ctx):
    alpha = "019_.eE+-jJxXbBoOaF"
    L = 5 if ctx.quick else 6
    out = []
    for n in range(1, L + 1):
        for tup in itertools.product(alpha, repeat=n):
            s = "".join(tup)
            if s[0] in "019." and s[-1] not in "+-":
                out.append(s)
    return out


def _bits_to_float(b):
    return struct.unpack("<d", struct.pack("<Q", b))[0]


def _exact_decimal(num, den_pow2):
    """exact decimal expansion of num / 2^den_pow2 (den_pow2 >= 0)"""
    if den_pow2 <= 0:
        return str(num * 2 ** (-den_pow2))
    scaled = num * 5 ** den_pow2           # num/2^k = num*5^k / 10^k
    s = str(scaled).rjust(den_pow2 + 1, "0")
    return s[:-den_pow2] + "." + s[-den_pow2:]


def float_boundaries(ctx):
    rng = ctx.rng("floatb")
    out = []
    exps = range(0, 2047)
    for e in exps:
        for frac in (0, 1, 2 ** 52 - 1, rng.randrange(2 ** 52)) + (() if ctx.quick else tuple(rng.randrange(2 ** 52) for _ in range(6))):
            bits = e * 2 ** 52 + frac
            if bits == 0:
                continue
            f = _bits_to_float(bits)
            out.append(repr(f))
            out.append("%.17e" % f)
            # halfway point between this double and the next one, written exactly, and its two neighbours in the last digit
            if e == 0:
                m, ex = frac, -1074
            else:
                m, ex = 2 ** 52 + frac, e - 1075
            # midpoint = (2m+1) * 2^(ex-1)
            mid = _exact_decimal(2 * m + 1, -(ex - 1))
            if frac in (0, 2 ** 52 - 1) or rng.random() < 0.15:
                out.append(mid)
                if "." in mid:
                    out.append(mid + "1")
                    out.append(mid[:-1] + str(int(mid[-1]) - 1) + "9")
                else:
                    out.append(mid + ".0000000000000000000001")
    for k in range(-330, 312):
        out.append(f"1e{k}")
        out.append(f"9.999999999999999999e{k}")
        out.append(f"1.0000000000000000001E{k}")
    out += ["1e309", "1e400", "1.7976931348623157e308", "1.797693134862315807e308", "1.797693134862315808e308",
            "179769313486231580793728971405303415079934132710037826936173778980444968292764750946649017977587207096330286416692887910946555547851940402630657488671505820681908902000708383676273854845817711531764475730270069855571366959622842914819860834936475292719074168444365510704342711559699508093042880177904174497791.9999999999999999999999",
            "179769313486231580793728971405303415079934132710037826936173778980444968292764750946649017977587207096330286416692887910946555547851940402630657488671505820681908902000708383676273854845817711531764475730270069855571366959622842914819860834936475292719074168444365510704342711559699508093042880177904174497792.0",
            "0.5e-323", "2.47e-324", "2.48e-324", "0." + "0" * 323 + "24703282292062327208051355972539", "0." + "0" * 323 + "24703282292062328"]
    # integer-FORM spellings (no '.', no exponent) of values at the conversion boundaries, as imaginary and float literals:
    # `<digits>j` is converted from the digit run, not by the float path (f64::MAX, the overflow tie 2^1024 - 2^970 and its
    # neighbours, 2^53 + odd, 2^64 region, powers of ten around 1e308)
    MAXI = (2 ** 53 - 1) * 2 ** 971
    TIE = 2 ** 1024 - 2 ** 970
    for v in (MAXI - 1, MAXI, MAXI + 1, MAXI + 2 ** 969, MAXI + 2 ** 960, TIE - 1, TIE, TIE + 1, 2 ** 1024 - 1, 2 ** 1024, 10 ** 308, 10 ** 309 - 1,
              10 ** 309, 2 ** 53, 2 ** 53 + 1, 2 ** 53 + 2, 2 ** 53 + 3, 2 ** 64, 2 ** 64 + 2 ** 11, 2 ** 64 + 2 ** 11 + 1, 2 ** 64 + 3 * 2 ** 11,
              2 ** 1023, 2 ** 1023 + 2 ** 970, 2 ** 1023 + 2 ** 970 + 1, int("17976931348623158" + "0" * 292), int("17976931348623157" + "9" * 292)):
        d = str(v)
        u = "_".join(d[i:i + 3] for i in range(0, len(d), 3))
        out += [d + "j", d + "J", u + "j", "0" + d + "j", "00" + d + "J", d + ".", d + ".j", d + ".0", d + "e0", d + "e0j", d + ".0e0J", "0" + d + ".0"]
    # imaginary twin of a sample of the boundary floats above
    out += [t + "j" for t in out[::7] if t[-1] not in "jJ"]
    return out


def float_random(ctx):
    rng = ctx.rng("floatr")
    out = []
    n = 20000 if ctx.quick else 300000

    def digits(k, lead_nonzero=False):
        s = "".join(rng.choice("0123456789") for _ in range(k))
        if rng.random() < 0.3 and k > 2:
            i = rng.randrange(1, k)
            s = s[:i] + "_" + s[i:]
        return s

    for _ in range(n):
        ip = digits(rng.randrange(0, 22)) if rng.random() < 0.85 else ""
        fp = digits(rng.randrange(0, 22)) if rng.random() < 0.7 else None
        if fp is None and rng.random() < 0.2:
            s = ip + "."
        elif fp is None:
            s = ip
        else:
            s = ip + "." + fp
        if rng.random() < 0.6:
            s += rng.choice("eE") + rng.choice(["", "+", "-"]) + digits(rng.choice([1, 1, 2, 3, 3, 4]))
        if rng.random() < 0.15:
            s += rng.choice("jJ")
        out.append(s)
    # shortest reprs of random doubles, with digit-level perturbations
    for _ in range(n):
        f = _bits_to_float(rng.randrange(1, 0x7FF0000000000000))
        r = repr(f)
        out.append(r)
        out.append("%.20e" % f)
    return out


def huge_ints(ctx):
    rng = ctx.rng("ints")
    out = []
    ks = [1, 2, 9, 10, 18, 19, 20, 38, 39, 64, 100, 308, 309, 1000, 4300, 4301, 5000] + ([] if ctx.quick else [20000])
    for k in ks:
        out += [str(10 ** k), str(10 ** k - 1), str(10 ** k + 1)]
        out += [hex(2 ** k), hex(2 ** k - 1), oct(2 ** k + 1), bin(2 ** k - 1), hex(2 ** k).upper().replace("0X", "0X")]
    for b in (31, 32, 33, 63, 64, 65, 127, 128, 129):
        out += [str(2 ** b - 1), str(2 ** b), str(2 ** b + 1), hex(2 ** b - 1), oct(2 ** b), bin(2 ** b + 1)]
    import lexcommon
    out += lexcommon.radix_boundaries()       # every base around the u32/i64/u64/u128 digit counts
    for _ in range(3000 if ctx.quick else 50000):
        v = rng.getrandbits(rng.choice([8, 31, 64, 65, 66, 200, 1000]))
        s = rng.choice([str(v), hex(v), oct(v), bin(v), hex(v).upper().replace("0X", "0x"), "0X" + hex(v)[2:], "0O" + oct(v)[2:],
                        "0B" + bin(v)[2:]])
        # sprinkle underscores between digits (and after the base prefix)
        body_start = 2 if s[:2].lower() in ("0x", "0o", "0b") else 0
        t = s[:body_start]
        for i, ch in enumerate(s[body_start:]):
            if (i > 0 or body_start) and rng.random() < 0.2:
                t += "_"
            t += ch
        out.append(t)
    return out


def streams(ctx):
    out = []
    if not _NAMES and _HBIN is None:
        pre_build(ctx)
    S = lambda name, srcs, **kw: Stream(name, [lit(s) for s in only_accepted(srcs)], **kw)

    c = list(only_accepted(corpus()))
    out.append(Stream("corpus", [lit(s) for s in c] + [tok(s) for s in c], kind="corpus"))
    out.append(S("escape-onechar-x-kinds-x-quotes", esc_onechar(ctx), kind="exhaustive", exhaustive=True,
                 note="backslash + every ASCII character (and 5 non-ASCII) x 10 prefixes x 4 quote styles, alone and in context"))
    out.append(S("hex-escapes-all", hex_all(), kind="exhaustive", exhaustive=True,
                 note="all 256 \\xhh in lower/upper/mixed case, text and bytes"))
    out.append(S("octal-escapes-all", octal_all(), kind="exhaustive", exhaustive=True,
                 note="all 1-3 digit octal escapes (incl. > 0o377 in bytes) and 4-character digit runs, text and bytes"))
    out.append(S("bmp-u-escapes-all", bmp_all(ctx), kind="exhaustive", exhaustive=True,
                 note="all 65536 \\uXXXX values, 256 per literal"))
    out.append(S("astral-U-escapes", astral(ctx), kind="random"))
    out.append(Stream("named-escapes", named(ctx), kind="random",
                      note="names from CPython unicodedata 14.0 (plus aliases, lower case, generated CJK/Hangul names); "
                           "lookups for the model come from the real parser, the oracle is CPython"))
    out.append(S("prefix-spellings", prefixes(), kind="exhaustive", exhaustive=True,
                 note="every string/bytes prefix of the reference in every case and order x 4 quote styles x 7 bodies"))
    tb = list(only_accepted(triple_bodies(ctx)))
    out.append(Stream("quoted-bodies-cr-crlf-exhaustive", [lit(s) for s in tb] + [tok(s) for s in tb], kind="exhaustive",
                      exhaustive=True, note="all bodies up to length 4/5 over {a, LF, CR, CRLF, ', \", \\, \\LF, \\CRLF, \\CR}"))
    cc = list(only_accepted(concat(ctx)))
    out.append(Stream("implicit-concatenation", [lit(s) for s in cc] + [tok(s) for s in cc[:400]], kind="random"))
    out.append(S("number-shapes-exhaustive", num_shapes(ctx), kind="exhaustive", exhaustive=True,
                 note="every text up to length 5/6 over 019_.eE+-jJxXbBoOaF that CPython reads as one numeric literal"))
    out.append(S("float-boundaries", float_boundaries(ctx), kind="directed",
                 note="powers of two +-1ulp, subnormals, exact halfway points and their last-digit neighbours, powers of ten, overflow edge"))
    out.append(S("float-random", float_random(ctx), kind="random"))
    out.append(S("huge-ints", huge_ints(ctx), kind="random"))
    # deterministic probes of the listed known findings (kept out of every other stream)
    out.append(Stream("known-finding-probes", [lit(s) for s in KNOWN_PROBES], kind="directed",
                      note="U'..' gets kind 'u'; the reference sets the marker for a lower-case u only"))
    return out


KNOWN_PROBES = ["U'a'", 'U"""x""" \'y\'', "U'' u''"]


def classify(req, impl_out, model_out, failure):
    """kind-marker-uppercase-U: the first literal has the prefix `U`, and the ONLY difference to the
    reference is the `u` marker."""
    ws = req.split()
    if ws[0] != "lit" or not failure:
        return None
    src = unhex(ws[1]).decode("utf-8")
    exp = py_value(src)
    if (exp is not None and src[:1] == "U" and src[1:2] in ("'", '"') and exp.startswith("str - ")
            and impl_out == "str u " + exp[len("str - "):]):
        return "kind-marker-uppercase-U"
    return None


def search(ctx, disagreements, bins):
    """Look for an input on which the real parser differs from CPython: near the disagreements, or —
    when a proof obligation broke (regenerated table no longer equals the reference table, so the
    correspondence was not run) — in the table sweeps themselves."""
    hbin = bins.get((HARNESS["bin"], HARNESS["features"])) or _HBIN
    if not hbin:
        return None
    cands = []
    for e in disagreements[:20]:
        ws = e["request"].split()
        if ws[0] not in ("lit", "tok"):
            continue
        src = unhex(ws[1]).decode("utf-8")
        for pre in ("", "b", "u"):
            for q in QUOTES:
                for body in (src, src.strip("'\"")):
                    cands.append(f"{pre}{q}{body}{q}")
        cands.append(src + " " + src)
        cands.append(src.upper())
        cands.append(src.lower())
    if not disagreements:
        cands += esc_onechar(ctx) + prefixes() + corpus() + hex_all()[:300] + octal_all()[:300]
    cands = [c for c in only_accepted(cands) if c not in KNOWN_PROBES]
    if not cands:
        return None
    reqs = [lit(s) for s in cands]
    outs = core.run_lines([hbin], reqs, jobs=4)
    for r, o in zip(reqs, outs):
        f = oracle(r, o)
        if f and not classify(r, o, None, f):
            return {"request": r, "impl": o, "failure": f, "stream": "violation-search"}
    return None
