"""C15 — position primitives: line index, newline iteration, range algebra."""
import itertools
import re

from core import Stream, hexs, unhex

ID = "C15"
DESIGN_REF = "DESIGN.md section 5, C15"
LEAN_TARGETS = ["PV.C15.Thm"]
DRIVER = "drv_c15"
HARNESS = {"bin": "pvh_c15", "features": "default"}
THEOREMS = [
    "PV.C15.splitLines_flatten",
    "PV.C15.indexLines_partition",
    "PV.C15.rowOf_contains",
    "PV.C15.lineStarts_spec",
    "PV.C15.lineCount_eq_breaks_succ",
    "PV.C15.lineIndex_spec",
    "PV.C15.sourceLocation_row",
    "PV.C15.sourceLocation_column",
    "PV.C15.next_spec",
    "PV.C15.nextBack_spec",
    "PV.C15.iter_any_interleaving",
    "PV.C15.asStr_spec",
    "PV.C15.contains_iff_mem",
    "PV.C15.containsRange_iff_subset",
    "PV.C15.intersect_set",
    "PV.C15.intersect_none",
    "PV.C15.cover_hull",
    "PV.C15.checkedAdd_shift",
    "PV.C15.checkedSub_shift",
    "PV.C15.ordering_spec",
    "PV.C15.addStart_spec",
    "PV.C15.subStart_spec",
    "PV.C15.addEnd_spec",
    "PV.C15.subEnd_spec",
    "PV.C15.shiftOps_spec",
    "PV.C15.boundsContains_iff_mem",
    "PV.C15.coverOffset_hull",
    "PV.C15.constructors_spec",
    "PV.C15.index_spec",
    "PV.C15.indexMut_spec",
    "PV.C15.upTo_after_partition",
    "PV.C15.sum_spec",
    "PV.C15.lineEnding_spec",
    "PV.C15.line_queries_spec",
    "PV.C15.line_queries_overflow",
    "PV.C15.line_offsets_spec",
    "PV.C15.line_form",
    "PV.C15.last_spec",
    "PV.C15.trailingLines_spec",
    "PV.C15.oneIndexed_conversions",
    "PV.C15.oneIndexed_tryFrom_none",
    "PV.C15.oneIndexed_saturating",
]
TRUSTED = [
    "Lean 4.33.0 kernel; axioms limited to propext, Classical.choice, Quot.sound",
    "hand-written model lean/PV/C15/Model.lean of vendored/src/source_location/{line_index,newlines,mod}.rs and "
    "vendored/src/text_size/{range,size,traits}.rs, tied to the code by the correspondence streams of this run",
    "contract of [T]::binary_search on a strictly increasing slice (modelled by a linear search)",
    "memchr2/memrchr2 modelled as first/last index of LF or CR",
    "str::chars().count() on valid UTF-8 = number of non-continuation bytes",
    "str indexing by a usize range: panics exactly when start > end, end > len or an end is not a char boundary",
    "u32 arithmetic with overflow checks on (the harness profile): +/- panic outside 0..=u32::MAX; NonZeroU32 "
    "saturating_add, u32::saturating_add/sub",
    "the &TextSize / &TextRange operator impls and AddAssign/SubAssign forward to the by-value operator (modelled "
    "as the same value; each variant is executed and compared on every request)",
    "Deref for LineIndex / Line / LineEnding are plain forwarding (executed by the harness, no theorem of their own)",
    "tools/props/c15.py (generator, independent Python oracle), harness/src/bin/pvh_c15.rs, lean/Drv/C15.lean",
]
PARTIAL = []
READY = True
TECHNIQUE = "Lean 4 theorems over a hand-written byte-level model + exhaustive/random correspondence with the real crate"
LEVEL_TEXT = ("Machine-checked Lean 4 theorems, for texts of every length: the modelled line-start table equals the "
              "prefix sums of the reference line split, row/column lookups return the containing line and character "
              "column, every next/next_back interleaving of the newline iterator yields a front/back decomposition of "
              "the reference split with the true offsets (start/end/full_end/range/full_range of every line, last(), the "
              "trailing-empty-line variant, find_newline's LineEnding), and TextRange algebra agrees with the set reading: "
              "containment, intersection, cover, cover_offset, shifting (checked and operator forms), moving one end "
              "(add/sub_start/end), ordering, RangeBounds, slicing and mutable slicing by a range (exactly the bytes at "
              "the offsets of the set; panics exactly when reversed, out of range or off a character boundary), "
              "SourceCode::up_to/after/slice, TextSize sums, OneIndexed conversions and saturating arithmetic, each with "
              "its exact panic condition. The model is tied to the Rust code on every run by exhaustive small-scope plus "
              "random differential correspondence, and the real code is additionally judged by an independent Python "
              "reference.")
LEVEL_NOTE = ("Trusted: Lean kernel (axioms propext/Classical.choice/Quot.sound only), the hand-written model's "
              "fidelity as sampled by correspondence (exhaustive to length 5/6 over a 6-symbol alphabet; all boundary "
              "endpoint tuples incl. 0, 1, 2^32-2, 2^32-1), Rust std binary_search/memchr/str-indexing contracts, u32 "
              "overflow checks being on in the harness build, the harness and generator.")
RULE = ("request lines (text x query family) sent to both the real vendored crate and the Lean model; "
        "distinct = distinct request line; non-trivial = text is non-empty")

ALPHABET = [b"\n", b"\r", b"a", "é".encode(), "﻿".encode(), "😀".encode()]


def _split_lines(b):
    """independent reference: lines with terminators, CRLF counted once"""
    out = []
    i = 0
    start = 0
    n = len(b)
    while i < n:
        c = b[i]
        if c == 13 and i + 1 < n and b[i + 1] == 10:
            i += 2
            out.append(b[start:i])
            start = i
        elif c in (10, 13):
            i += 1
            out.append(b[start:i])
            start = i
        else:
            i += 1
    if start < n:
        out.append(b[start:])
    return out


def _strip_nl(l):
    if l.endswith(b"\r\n"):
        return l[:-2]
    if l.endswith(b"\n") or l.endswith(b"\r"):
        return l[:-1]
    return l


M32 = 2**32 - 1


def _boundary(b, o):
    """o is a character boundary of the UTF-8 text b (0 <= o <= len)"""
    return 0 <= o <= len(b) and (o == len(b) or (b[o] & 0xC0) != 0x80)


def _slice(b, lo, hi):
    """what text[lo..hi] must give: the bytes, or None where Rust's str indexing panics"""
    if lo <= hi <= len(b) and _boundary(b, lo) and _boundary(b, hi):
        return b[lo:hi]
    return None


def _h(x):
    return "none" if x is None else hexs(x)


def _n(x):
    return "none" if x is None else str(x)


def _rng(s, e):
    return "none" if s is None or e is None else f"{s}..{e}"


def _fit(x):
    return x if 0 <= x <= M32 else None


def _line_str(start, full):
    """offset:full:stripped:end:full_end:range:full_range:full_text_len, from the property text"""
    body = _strip_nl(full)
    end = _fit(start + len(body))
    fend = _fit(start + len(full))
    return (f"{start}:{hexs(full)}:{hexs(body)}:{_n(end)}:{_n(fend)}:{_rng(start, end)}:"
            f"{_rng(start, fend)}:{len(full)}")


def _upper(bs):
    return bytes(x - 32 if 97 <= x <= 122 else x for x in bs)


def _utf8_len(ch):
    o = ord(ch)
    return 1 if o < 0x80 else 2 if o < 0x800 else 3 if o < 0x10000 else 4


def oracle(req, out):
    """Judge the implementation's answer against the property, independently of the Lean model."""
    ws = req.split()
    if out in ("(panic)", "(abort)", "(timeout)"):
        return "implementation " + out
    if ws[0] == "lineidx":
        b = unhex(ws[1])
        text = b.decode("utf-8")
        lines = _split_lines(b)
        idx_lines = lines + [b""] if (not b or b[-1:] in (b"\n", b"\r")) else lines
        m = re.match(r"starts=\[(.*?)\] count=(\d+) locs=(\S*) lines=(\S*) cuts=(\S*) text=(\S*) dlen=(\d+) "
                     r"file=(\S*)$", out)
        if not m:
            return "unparsable answer"
        starts = [int(x) for x in m.group(1).split(",")] if m.group(1).strip() else []
        exp_starts, o = [], 0
        for l in idx_lines:
            exp_starts.append(o)
            o += len(l)
        if starts != exp_starts:
            return f"line starts {starts} != {exp_starts}"
        if int(m.group(2)) != len(idx_lines):
            return f"line count {m.group(2)} != breaks+1 = {len(idx_lines)}"
        for item in m.group(3).split(";"):
            off, rest = item.split("=")
            off = int(off)
            loc, li = rest.split("/")
            # expected row: the line whose span contains the offset (last line takes the end offset)
            row = 0
            for k, st in enumerate(exp_starts):
                if st <= off:
                    row = k
            ls = exp_starts[row]
            seg = b[ls:off].decode("utf-8")
            if ls == 0 and text.startswith("﻿") and off >= 3:
                seg = seg[1:]
            col = len(seg)
            if loc != f"{row},{col}":
                return f"source_location({off}) = {loc}, expected {row},{col}"
            if li != str(row):
                return f"line_index({off}) = {li}, expected {row}"
        items = m.group(4).split(";")
        for r, l in enumerate(idx_lines):
            st, en = exp_starts[r], exp_starts[r] + len(l)
            exp = f"{st},{en},{st},{en},{hexs(l)}"
            if items[r] != exp:
                return f"line {r}: {items[r]} != {exp}"
        cuts = m.group(5).split(";")
        if len(cuts) != len(b) + 2:
            return f"{len(cuts)} up_to/after answers for {len(b) + 2} offsets"
        for o, c in enumerate(cuts):
            ok = _boundary(b, o)
            exp = f"{_h(b[:o] if ok else None)}/{_h(b[o:] if ok else None)}"
            if c != exp:
                return f"up_to/after({o}) = {c}, expected {exp} (the two pieces of the text cut at the offset)"
        if m.group(6) != hexs(b):
            return "SourceCode::text() is not the text"
        if int(m.group(7)) != len(idx_lines):
            return f"LineIndex as a slice has {m.group(7)} entries, expected {len(idx_lines)}"
        first = idx_lines[0]
        expf = f"{len(idx_lines)}:{','.join(map(str, exp_starts))}:{hexs(first)}:{hexs(b)}:{hexs(b'f.py')}"
        fs = m.group(8).split("|")
        if len(fs) != 4 or fs[3] != "true":
            return f"SourceFile values built from the same name/text/index are not equal: {m.group(8)}"
        for k, f in enumerate(fs[:3]):
            if f != expf:
                return f"SourceFile #{k}: {f} != {expf}"
        return None
    if ws[0] == "nliter":
        b = unhex(ws[1])
        off = int(ws[2])
        ops = "" if ws[3] == "-" else ws[3]
        if off + len(b) > M32:
            return None if out == "overflow" else "with_offset past u32::MAX did not panic"
        m = re.match(r"(\S*) last=(\S*) trailing=(\S*) ext=(\S*) from=(\S*) find=(\S*)$", out)
        if not m:
            return "unparsable answer"
        lines = _split_lines(b)
        starts, o = [], off
        for l in lines:
            starts.append(o)
            o += len(l)
        got = m.group(1).split(";") if ops else []
        lo, hi = 0, len(lines)
        for op, g in zip(ops, got):
            if lo >= hi:
                exp = "none"
            elif op == "f":
                exp = _line_str(starts[lo], lines[lo])
                lo += 1
            else:
                hi -= 1
                exp = _line_str(starts[hi], lines[hi])
            if g != exp:
                return f"op {op}: got {g}, expected {exp}"
        exp = _line_str(starts[hi - 1], lines[hi - 1]) if lo < hi else "none"
        if m.group(2) != exp:
            return f"last() = {m.group(2)}, expected {exp} (the last remaining line)"
        tl = [_line_str(starts[k], l) for k, l in enumerate(lines)]
        nl_end = bool(b) and b[-1:] in (b"\n", b"\r")
        if nl_end:
            tl.append(_line_str(off + len(b), b""))
        if m.group(3) != ";".join(tl):
            return f"trailing-newline variant: {m.group(3)} != {';'.join(tl)}"
        el = [_line_str(starts[k] - off, l) for k, l in enumerate(lines)]
        if m.group(4) != ";".join(el):
            return f"str.universal_newlines(): {m.group(4)} != {';'.join(el)}"
        if nl_end:
            el.append(_line_str(len(b), b""))
        if m.group(5) != ";".join(el):
            return f"NewlineWithTrailingNewline::from: {m.group(5)} != {';'.join(el)}"
        pos = next((i for i, c in enumerate(b) if c in (10, 13)), None)
        if pos is None:
            exp = "none"
        else:
            if b[pos] == 10:
                name, e = "Lf", b"\n"
            elif b[pos + 1:pos + 2] == b"\n":
                name, e = "CrLf", b"\r\n"
            else:
                name, e = "Cr", b"\r"
            exp = f"{pos},{name},{hexs(e)},{len(e)},{len(e)},{hexs(e)}"
        if m.group(6) != exp:
            return f"find_newline = {m.group(6)}, expected {exp}"
        return None
    if ws[0] == "line":
        t = unhex(ws[1])
        off = int(ws[2])
        cmp_ = unhex(ws[3])
        body = _strip_nl(t)
        e = str(body == cmp_).lower()
        exp = (f"{_line_str(off, t)} deref={hexs(body)} eq={e},{e},{str(body == t).lower()},true same=true")
        return None if out == exp else f"Line::new queries: {out} != {exp}"
    if ws[0] == "range":
        a, b_, c, d = (int(x) for x in ws[1:5])
        t = unhex(ws[5])
        M = M32
        if a > b_:
            return None if out == "new=none" else "TextRange::new(start > end) did not panic"
        if c > d:
            return None if out == "other=none" else "TextRange::new(start > end) did not panic"
        f = dict(kv.split("=", 1) for kv in out.split())

        def rng(s, e):
            return f"{s}..{e}"
        shifted_up = rng(a + c, b_ + c) if b_ + c <= M else "none"
        shifted_down = rng(a - c, b_ - c) if c <= a else "none"
        sl = _slice(t, a, b_)
        mut = None if sl is None else t[:a] + _upper(sl) + t[b_:]
        exp = {
            "len": str(b_ - a), "empty": str(a == b_).lower(),
            "contains": str(a <= c < b_).lower(), "containsI": str(a <= c <= b_).lower(),
            "containsR": str(a <= c and d <= b_).lower(),
            "intersect": rng(max(a, c), min(b_, d)) if max(a, c) <= min(b_, d) else "none",
            "cover": rng(min(a, c), max(b_, d)),
            "coverOff": rng(min(a, c), max(b_, c)),
            "add": shifted_up,
            "sub": shifted_down,
            "ord": "-1" if b_ <= c else ("1" if d <= a else "0"),
            "at": rng(a, a + c) if a + c <= M else "none",
            "upto": rng(0, b_),
            # moving one end: the set grows/shrinks at that end; a panic exactly when the new end leaves
            # u32 or crosses the other end
            "substart": rng(a - c, b_) if c <= a else "none",
            "addstart": rng(a + c, b_) if a + c <= b_ else "none",
            "subend": rng(a, b_ - c) if c <= b_ and a <= b_ - c else "none",
            "addend": rng(a, b_ + c) if b_ + c <= M else "none",
            "addop": "|".join([shifted_up] * 4),
            "subop": "|".join([shifted_down] * 4),
            "bounds": f"I{a},E{b_}",
            "rbcontains": str(a <= c < b_).lower(),
            "index": _h(sl), "sindex": _h(sl),
            "imut": _h(mut), "simut": _h(mut),
        }
        for k, v in exp.items():
            if f.get(k) != v:
                return f"{k}: got {f.get(k)}, expected {v} (set reading of ranges)"
        return None
    if ws[0] == "size":
        a, b_ = int(ws[1]), int(ws[2])
        t = unhex(ws[3])
        chars = t.decode("utf-8")
        add = _n(_fit(a + b_))
        sub = _n(_fit(a - b_))
        sums = [_fit(a + b_), _fit(2 * a + b_), _fit(len(t)), 0]
        exp = (f"add={'|'.join([add] * 6)} sub={'|'.join([sub] * 6)} cadd={add} csub={sub} "
               f"of={len(t)},{len(t)},{len(t)} ofc={','.join(str(_utf8_len(ch)) for ch in chars) or '-'} "
               f"sum={'|'.join(_n(x) for x in sums)} u32={a},{a} try={add}")
        return None if out == exp else f"TextSize arithmetic: {out} != {exp}"
    if ws[0] == "oneidx":
        v, rhs = int(ws[1]), int(ws[2])
        head = f"try={min(v + 1, M32) if v <= M32 else 'err' + str(v)} min=1 max={M32} dflt=1,1"
        if v > M32:
            exp = head
        else:
            fzi = min(v + 1, M32)
            one = "none" if v == 0 else f"{v - 1},{v - 1},{v},{min(v + rhs, M32)},{max(1, v - rhs)},{v}"
            exp = f"{head} new={v if v else 'none'} fzi={fzi} back={fzi - 1} one={one}"
        return None if out == exp else f"OneIndexed: {out} != {exp}"
    if ws[0] == "slices":
        t = unhex(ws[1])
        n = len(t) + 1
        got = out.split(";")
        if len(got) != (n + 1) ** 2:
            return "wrong number of slices"
        k = 0
        for a in range(n + 1):
            for b_ in range(n + 1):
                exp = _h(_slice(t, a, b_))
                if got[k] != exp:
                    return f"slice({a}..{b_}) = {got[k]}, expected {exp} (the bytes at the offsets of the range)"
                k += 1
        return None
    return None


def _texts(maxlen):
    for n in range(maxlen + 1):
        for tup in itertools.product(ALPHABET, repeat=n):
            yield b"".join(tup)


def streams(ctx):
    out = []
    corpus = [b"", b"\r\n", b"a\r\nb", b"\r\r\n", b"\n\r", "﻿é\r\n😀".encode(), b"x\r", b"\r\n\n",
              "﻿".encode(), "é\n﻿a".encode()]
    reqs = []
    for t in corpus:
        reqs.append(f"lineidx {hexs(t)}")
        n = len(_split_lines(t))
        for ops in itertools.product("fb", repeat=min(n + 1, 4)):
            reqs.append(f"nliter {hexs(t)} 7 {''.join(ops)}")
        reqs.append(f"slices {hexs(t)}")
        reqs.append(f"line {hexs(t)} 5 {hexs(_strip_nl(t))}")
    reqs += ["range 5 10 3 4 -", "range 5 10 6 6 -", f"range 1 3 1 2 {hexs('aé😀b'.encode())}",
             f"size 4294967295 1 {hexs('é😀'.encode())}", "size 5 7 -", "oneidx 0 1", "oneidx 1 1", "oneidx 4294967295 1",
             "oneidx 4294967296 0", "oneidx 3 5", "nliter 61 4294967295 f", "line 610a620a 4294967292 61"]
    out.append(Stream("corpus", reqs, kind="corpus"))

    L = 5 if ctx.quick else 6
    out.append(Stream(f"lineidx-exhaustive-len<={L}", [f"lineidx {hexs(t)}" for t in _texts(L)],
                      kind="exhaustive", exhaustive=True,
                      note="all texts over {LF, CR, a, e-acute, BOM, emoji}; every boundary offset and every line query",
                      nontrivial=lambda r: r.split()[1] != "-"))
    Li = 4 if ctx.quick else 5
    reqs = []
    for t in _texts(Li):
        n = len(_split_lines(t))
        for k in range(n + 2):
            for ops in itertools.product("fb", repeat=k):
                reqs.append(f"nliter {hexs(t)} 0 {''.join(ops) or '-'}")
    out.append(Stream(f"nliter-all-interleavings-len<={Li}", reqs, kind="exhaustive", exhaustive=True,
                      note="every next/next_back interleaving of every length up to lines+1 (one call past "
                           "exhaustion), then last() on what is left",
                      nontrivial=lambda r: r.split()[1] != "-"))
    # the iterator / Line::new next to u32::MAX: exact fit, one past, far past
    Lb = 3 if ctx.quick else 4
    reqs = []
    for t in _texts(Lb):
        n = len(_split_lines(t))
        for off in (M32 - len(t) - 1, M32 - len(t), M32 - len(t) + 1, M32):
            if not 0 <= off <= M32:
                continue
            for ops in ("f" * (n + 1), "b" * (n + 1), ("fb" * (n + 1))[:n + 1]):
                reqs.append(f"nliter {hexs(t)} {off} {ops}")
    out.append(Stream(f"nliter-offset-near-u32-max-len<={Lb}", sorted(set(reqs)), kind="exhaustive", exhaustive=True,
                      note="offset + len = u32::MAX - 1, u32::MAX, u32::MAX + 1 (with_offset panics), offset = u32::MAX",
                      nontrivial=lambda r: r.split()[1] != "-"))
    Ll = 3 if ctx.quick else 4
    reqs = []
    for t in _texts(Ll):
        body = _strip_nl(t)
        offs = {0, 7, M32 - len(t) - 1, M32 - len(t), M32 - len(t) + 1, M32 - len(body), M32 - len(body) + 1, M32}
        for off in sorted(o for o in offs if 0 <= o <= M32):
            for c in {body, t, body.decode()[:-1].encode()}:
                reqs.append(f"line {hexs(t)} {off} {hexs(c)}")
    out.append(Stream(f"line-new-queries-len<={Ll}", reqs, kind="exhaustive", exhaustive=True,
                      note="Line::new on every text (also with breaks in the middle) x offsets 0, 7 and around the u32 "
                           "overflow of end / full_end; start/end/full_end/range/full_range/full_text_len/Deref/PartialEq",
                      nontrivial=lambda r: r.split()[1] != "-"))
    # ranges: endpoints small (every offset of the text and one past it) and near 2^32
    text = "abé😀c".encode()
    pts_ab = [0, 1, 2, 3, 4, 8, 9, 10, 2**32 - 2, 2**32 - 1]
    pts = [0, 1, 2, 3, 4, 2**32 - 2, 2**32 - 1]
    reqs = [f"range {a} {b} {c} {d} {hexs(text)}" for a in pts_ab for b in pts_ab for c in pts for d in pts]
    out.append(Stream("range-algebra-endpoints", reqs, kind="exhaustive", exhaustive=True,
                      note="ranges over {0..4, 8, 9, 10, 2^32-2, 2^32-1} (every kind of offset of the 9-byte text: "
                           "boundary, inside a 2-byte and a 4-byte character, the end, past the end) x second range / "
                           "amount over {0..4, 2^32-2, 2^32-1}"))
    sp = [0, 1, 2, 3, 2**31 - 1, 2**31, 2**31 + 1, 2**32 - 3, 2**32 - 2, 2**32 - 1]
    reqs = [f"size {a} {b} {hexs(t)}" for a in sp for b in sp for t in (b"", "aé".encode(), "﻿😀\x7f߿ࠀ".encode())]
    out.append(Stream("textsize-boundary-pairs", reqs, kind="exhaustive", exhaustive=True,
                      note="TextSize +, - (by value, by reference, assign), checked_add/sub, Sum, of(str/String/char)"))
    vs = [0, 1, 2, 3, 2**31, M32 - 2, M32 - 1, M32, M32 + 1, M32 + 2, 2**63, 2**64 - 1]
    rs = [0, 1, 2, 3, 2**31, M32 - 2, M32 - 1, M32]
    out.append(Stream("oneindexed-boundary-pairs", [f"oneidx {v} {r}" for v in vs for r in rs], kind="exhaustive",
                      exhaustive=True, note="OneIndexed new/from_zero_indexed/try_from_zero_indexed/to_*/saturating_* at "
                                            "0, 1, u32::MAX and past it (usize)"))
    Ls = 4 if ctx.quick else 5
    out.append(Stream(f"slices-exhaustive-len<={Ls}", [f"slices {hexs(t)}" for t in _texts(Ls)], kind="exhaustive",
                      exhaustive=True, note="SourceCode::slice / SourceFile::slice for EVERY pair of offsets 0..len+1",
                      nontrivial=lambda r: r.split()[1] != "-"))
    # random longer texts
    rng = ctx.rng("random")
    n = 1500 if ctx.quick else 40000
    reqs = []
    alpha = ALPHABET + [b"\r\n", b" ", b"xyz", "日本".encode()]
    for _ in range(n):
        k = rng.randrange(0, 40)
        t = b"".join(rng.choice(alpha) for _ in range(k))
        reqs.append(f"lineidx {hexs(t)}")
        nl = len(_split_lines(t))
        ops = "".join(rng.choice("fb") for _ in range(rng.randrange(0, nl + 3))) or "-"
        reqs.append(f"nliter {hexs(t)} {rng.choice([0, 1, 400, 2**31])} {ops}")
        if k <= 12:
            n = len(t)
            pick = lambda: rng.choice([rng.randrange(0, n + 2), rng.randrange(0, n + 2), M32 - rng.randrange(0, 3)])
            a, b = sorted((pick(), pick()))
            c, d = sorted((pick(), pick()))
            reqs.append(f"range {a} {b} {c} {d} {hexs(t)}")
            reqs.append(f"line {hexs(t)} {min(M32, rng.choice([0, 3, M32 - n, M32 - n + 1]))} {hexs(_strip_nl(t))}")
        if k <= 5:
            reqs.append(f"slices {hexs(t)}")
    out.append(Stream("random-longer", reqs, kind="random"))
    return out
