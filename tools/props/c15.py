"""C15 — position primitives: line index, newline iteration, range algebra."""
import itertools
import re

from core import Stream, hexs, unhex

ID = "C15"
DESIGN_REF = "DESIGN.md section 5, C15"
LEAN_TARGETS = ["PV.C15.Thm"]
DRIVER = "drv_c15"
HARNESS = {"bin": "pvh_c15", "features": "default"}
THEOREMS = [
    "PV.C15.splitLines_flatten",
    "PV.C15.indexLines_partition",
    "PV.C15.rowOf_contains",
    "PV.C15.lineStarts_spec",
    "PV.C15.lineCount_eq_breaks_succ",
    "PV.C15.lineIndex_spec",
    "PV.C15.sourceLocation_row",
    "PV.C15.sourceLocation_column",
    "PV.C15.next_spec",
    "PV.C15.nextBack_spec",
    "PV.C15.iter_any_interleaving",
    "PV.C15.asStr_spec",
    "PV.C15.contains_iff_mem",
    "PV.C15.containsRange_iff_subset",
    "PV.C15.intersect_set",
    "PV.C15.intersect_none",
    "PV.C15.cover_hull",
    "PV.C15.checkedAdd_shift",
    "PV.C15.checkedSub_shift",
    "PV.C15.ordering_spec",
]
TRUSTED = [
    "Lean 4.33.0 kernel; axioms limited to propext, Classical.choice, Quot.sound",
    "hand-written model lean/PV/C15/Model.lean of vendored/src/source_location/{line_index,newlines}.rs and "
    "vendored/src/text_size/{range,size}.rs, tied to the code by the correspondence streams of this run",
    "contract of [T]::binary_search on a strictly increasing slice (modelled by a linear search)",
    "memchr2/memrchr2 modelled as first/last index of LF or CR",
    "str::chars().count() on valid UTF-8 = number of non-continuation bytes",
    "tools/props/c15.py (generator, independent Python oracle), harness/src/bin/pvh_c15.rs, lean/Drv/C15.lean",
]
PARTIAL = []
READY = True
TECHNIQUE = "Lean 4 theorems over a hand-written byte-level model + exhaustive/random correspondence with the real crate"
LEVEL_TEXT = ("Machine-checked Lean 4 theorems, for texts of every length: the modelled line-start table equals the "
              "prefix sums of the reference line split, row/column lookups return the containing line and character "
              "column, every next/next_back interleaving of the newline iterator yields a front/back decomposition of "
              "the reference split, and TextRange algebra agrees with the set reading. The model is tied to the Rust "
              "code on every run by exhaustive small-scope plus random differential correspondence, and the real "
              "code is additionally judged by an independent Python reference.")
LEVEL_NOTE = ("Trusted: Lean kernel (axioms propext/Classical.choice/Quot.sound only), the hand-written model's "
              "fidelity as sampled by correspondence (exhaustive to length 5/6 over a 6-symbol alphabet), Rust std "
              "binary_search/memchr contracts, the harness and generator.")
RULE = ("request lines (text x query family) sent to both the real vendored crate and the Lean model; "
        "distinct = distinct request line; non-trivial = text is non-empty")

ALPHABET = [b"\n", b"\r", b"a", "é".encode(), "﻿".encode(), "😀".encode()]


def _split_lines(b):
    """independent reference: lines with terminators, CRLF counted once"""
    out = []
    i = 0
    start = 0
    n = len(b)
    while i < n:
        c = b[i]
        if c == 13 and i + 1 < n and b[i + 1] == 10:
            i += 2
            out.append(b[start:i])
            start = i
        elif c in (10, 13):
            i += 1
            out.append(b[start:i])
            start = i
        else:
            i += 1
    if start < n:
        out.append(b[start:])
    return out


def _strip_nl(l):
    if l.endswith(b"\r\n"):
        return l[:-2]
    if l.endswith(b"\n") or l.endswith(b"\r"):
        return l[:-1]
    return l


def _parse_line_item(s):
    if s == "none":
        return None
    o, full, txt = s.split(":")
    return int(o), unhex(full), unhex(txt)


def oracle(req, out):
    """Judge the implementation's answer against the property, independently of the Lean model."""
    ws = req.split()
    if out in ("(panic)", "(abort)", "(timeout)"):
        return "implementation " + out
    if ws[0] == "lineidx":
        b = unhex(ws[1])
        text = b.decode("utf-8")
        lines = _split_lines(b)
        idx_lines = lines + [b""] if (not b or b[-1:] in (b"\n", b"\r")) else lines
        m = re.match(r"starts=\[(.*?)\] count=(\d+) locs=(\S*) lines=(\S*)$", out)
        if not m:
            return "unparsable answer"
        starts = [int(x) for x in m.group(1).split(",")] if m.group(1).strip() else []
        exp_starts, o = [], 0
        for l in idx_lines:
            exp_starts.append(o)
            o += len(l)
        if starts != exp_starts:
            return f"line starts {starts} != {exp_starts}"
        if int(m.group(2)) != len(idx_lines):
            return f"line count {m.group(2)} != breaks+1 = {len(idx_lines)}"
        for item in m.group(3).split(";"):
            off, rest = item.split("=")
            off = int(off)
            loc, li = rest.split("/")
            # expected row: the line whose span contains the offset (last line takes the end offset)
            row = 0
            for k, st in enumerate(exp_starts):
                if st <= off:
                    row = k
            ls = exp_starts[row]
            seg = b[ls:off].decode("utf-8")
            if ls == 0 and text.startswith("﻿") and off >= 3:
                seg = seg[1:]
            col = len(seg)
            if loc != f"{row},{col}":
                return f"source_location({off}) = {loc}, expected {row},{col}"
            if li != str(row):
                return f"line_index({off}) = {li}, expected {row}"
        items = m.group(4).split(";")
        for r, l in enumerate(idx_lines):
            st, en = exp_starts[r], exp_starts[r] + len(l)
            exp = f"{st},{en},{st},{en},{hexs(l)}"
            if items[r] != exp:
                return f"line {r}: {items[r]} != {exp}"
        return None
    if ws[0] == "nliter":
        b = unhex(ws[1])
        off = int(ws[2])
        ops = "" if ws[3] == "-" else ws[3]
        lines = _split_lines(b)
        starts, o = [], off
        for l in lines:
            starts.append(o)
            o += len(l)
        body, trailing = out.split(" trailing=")
        got = body.split(";") if ops else []
        lo, hi = 0, len(lines)
        for op, g in zip(ops, got):
            if lo >= hi:
                exp = "none"
            elif op == "f":
                exp = f"{starts[lo]}:{hexs(lines[lo])}:{hexs(_strip_nl(lines[lo]))}"
                lo += 1
            else:
                hi -= 1
                exp = f"{starts[hi]}:{hexs(lines[hi])}:{hexs(_strip_nl(lines[hi]))}"
            if g != exp:
                return f"op {op}: got {g}, expected {exp}"
        tl = [f"{starts[k]}:{hexs(l)}:{hexs(_strip_nl(l))}" for k, l in enumerate(lines)]
        if b and b[-1:] in (b"\n", b"\r"):
            tl.append(f"{off + len(b)}:-:-")
        if trailing != ";".join(tl):
            return f"trailing-newline variant: {trailing} != {';'.join(tl)}"
        return None
    if ws[0] == "range":
        a, b_, c, d = (int(x) for x in ws[1:5])
        t = unhex(ws[5])
        M = 2**32 - 1
        if a > b_:
            return None if out == "new=none" else "TextRange::new(start > end) did not panic"
        if c > d:
            return None if out == "other=none" else "TextRange::new(start > end) did not panic"
        f = dict(kv.split("=", 1) for kv in out.split())
        R = range(a, b_)
        O = range(c, d)

        def rng(s, e):
            return f"{s}..{e}"
        exp = {
            "len": str(b_ - a), "empty": str(a == b_).lower(),
            "contains": str(a <= c < b_).lower(), "containsI": str(a <= c <= b_).lower(),
            "containsR": str(a <= c and d <= b_).lower(),
            "intersect": rng(max(a, c), min(b_, d)) if max(a, c) <= min(b_, d) else "none",
            "cover": rng(min(a, c), max(b_, d)),
            "coverOff": rng(min(a, c), max(b_, c)),
            "add": rng(a + c, b_ + c) if b_ + c <= M else "none",
            "sub": rng(a - c, b_ - c) if c <= a else "none",
            "ord": "-1" if b_ <= c else ("1" if d <= a else "0"),
            "at": rng(a, a + c) if a + c <= M else "none",
            "upto": rng(0, b_),
        }
        ok_slice = b_ <= len(t)
        if ok_slice:
            try:
                t[a:b_].decode("utf-8")
                t[:a].decode("utf-8")
            except UnicodeDecodeError:
                ok_slice = False
        exp["index"] = hexs(t[a:b_]) if ok_slice else "none"
        for k, v in exp.items():
            if f.get(k) != v:
                return f"{k}: got {f.get(k)}, expected {v} (set reading of ranges)"
        return None
    return None


def _texts(maxlen):
    for n in range(maxlen + 1):
        for tup in itertools.product(ALPHABET, repeat=n):
            yield b"".join(tup)


def streams(ctx):
    out = []
    corpus = [b"", b"\r\n", b"a\r\nb", b"\r\r\n", b"\n\r", "﻿é\r\n😀".encode(), b"x\r", b"\r\n\n",
              "﻿".encode(), "é\n﻿a".encode()]
    reqs = []
    for t in corpus:
        reqs.append(f"lineidx {hexs(t)}")
        n = len(_split_lines(t))
        for ops in itertools.product("fb", repeat=min(n + 1, 4)):
            reqs.append(f"nliter {hexs(t)} 7 {''.join(ops)}")
    out.append(Stream("corpus", reqs, kind="corpus"))

    L = 5 if ctx.quick else 6
    out.append(Stream(f"lineidx-exhaustive-len<={L}", [f"lineidx {hexs(t)}" for t in _texts(L)],
                      kind="exhaustive", exhaustive=True,
                      note="all texts over {LF, CR, a, e-acute, BOM, emoji}; every boundary offset and every line query",
                      nontrivial=lambda r: r.split()[1] != "-"))
    Li = 4 if ctx.quick else 5
    reqs = []
    for t in _texts(Li):
        n = len(_split_lines(t))
        for ops in itertools.product("fb", repeat=n + 1):
            reqs.append(f"nliter {hexs(t)} 0 {''.join(ops)}")
    out.append(Stream(f"nliter-all-interleavings-len<={Li}", reqs, kind="exhaustive", exhaustive=True,
                      note="every next/next_back interleaving of length lines+1 (one call past exhaustion)",
                      nontrivial=lambda r: r.split()[1] != "-"))
    # ranges: endpoints small and near 2^32
    pts = [0, 1, 2, 3, 4, 2**32 - 2, 2**32 - 1]
    text = "aé😀b".encode()
    reqs = [f"range {a} {b} {c} {d} {hexs(text)}" for a in pts for b in pts for c in pts for d in pts]
    out.append(Stream("range-algebra-endpoints", reqs, kind="exhaustive", exhaustive=True,
                      note="all 4-tuples of endpoints from {0..4, 2^32-2, 2^32-1}"))
    # random longer texts
    rng = ctx.rng("random")
    n = 1500 if ctx.quick else 40000
    reqs = []
    alpha = ALPHABET + [b"\r\n", b" ", b"xyz", "日本".encode()]
    for _ in range(n):
        k = rng.randrange(0, 40)
        t = b"".join(rng.choice(alpha) for _ in range(k))
        reqs.append(f"lineidx {hexs(t)}")
        nl = len(_split_lines(t))
        ops = "".join(rng.choice("fb") for _ in range(nl + 2))
        reqs.append(f"nliter {hexs(t)} {rng.choice([0, 1, 400, 2**31])} {ops}")
    out.append(Stream("random-longer", reqs, kind="random"))
    return out
