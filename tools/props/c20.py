"""C20 — str.format templates split into the same fields as Python's.

Request lines (hex = UTF-8 of the text, `-` = empty):
  tmpl <hex>    FormatString::from_str     -> `ok` + ` L:<hex>` / ` F:<name>:<conv|none>:<spec>` items, or `err`
  fname <hex>   FieldName::parse           -> `ok <auto|idx:n|kw:hex>` + ` A:<hex>` / ` I:<n>` / ` S:<hex>`, or `err`
Driver-only operations used by the spec-validation pre-build step:
  stmpl / ctmpl <hex>       Lean Spec.formatterParser: raw CPython tuples / canonical parts
  sfname <hex> <cp=d,...>   Lean Spec.fieldNameSplit with the non-ASCII decimal digits of the text
  fdom <hex> <tbl>          the domain predicate of fieldname_eq_partial

Oracle: CPython 3.11 `_string.formatter_parser` / `_string.formatter_field_name_split` (the API level
named by the property's observe_at; see design/C20.md).  Only acceptance/rejection and the parts are
compared, never error messages or error kinds.
"""
import itertools
import unicodedata
import _string

import core
from core import Stream, hexs, unhex

ID = "C20"
DESIGN_REF = "DESIGN.md section 5, C20; design/C20.md"
LEAN_TARGETS = ["PV.C20.Thm"]
DRIVER = "drv_c20"
HARNESS = {"bin": "pvh_c20", "features": "default"}
THEOREMS = [
    "PV.C20.template_eq",
    "PV.C20.template_regressions",
    "PV.C20.doubled_braces",
    "PV.C20.fieldname_eq_partial",
    "PV.C20.fieldname_eq_ascii",
    "PV.C20.fieldname_overflow_repaired",
    "PV.C20.fieldname_fails",
    "PV.C20.fieldname_unicode_digit_differs",
]
TRUSTED = [
    "Lean 4.33.0 kernel; axioms limited to propext, Classical.choice, Quot.sound",
    "hand-written model lean/PV/C20/Model.lean of format/src/format.rs (FormatString::parse_literal_single, "
    "parse_literal, parse_spec [one-pass, /repo commit eebce66], FromTemplate::from_str, FieldName::parse, "
    "FieldNamePart::parse_part), tied to the code by the correspondence streams of this run "
    "(exhaustive over a 10-symbol alphabet to length 5/6, plus random)",
    "contract of char::to_digit(10) (ASCII digits only) and usize::checked_mul/checked_add, "
    "str::Chars::as_str / slicing by consumed length, char_indices and Itertools::peeking_take_while as modelled",
    "lean/PV/C20/Spec.lean as the meaning of CPython's MarkupIterator_next/parse_field/field_name_split/"
    "FieldNameIterator_next/get_integer: validated on every run against python3 (CPython 3.11.7) "
    "_string.formatter_parser and _string.formatter_field_name_split (raw tuples, canonical parts, field names)",
    "Py_UNICODE_TODECIMAL is a parameter of the field-name spec (unicodedata.decimal at run time)",
    "tools/props/c20.py (generators, canonicaliser of CPython's tuples, Python copy of fieldNameInDomain "
    "validated against the Lean one), harness/src/bin/pvh_c20.rs, lean/Drv/C20.lean",
]
PARTIAL = [
    "template splitting: nothing missing (template_eq holds for every template since /repo commit eebce66).",
    "fieldname_full is false (fieldname_fails) only through non-ASCII decimal digits: fieldname_eq_partial holds for "
    "every field name without such a character (fieldname_eq_ascii: every ASCII field name); since the fix of "
    "fname-index-overflow the integer reader is CPython's get_integer on ASCII digits ('+' is no digit, too many "
    "digits are rejected left to right). The remaining deviation (a Unicode decimal digit is a number for CPython) "
    "is the listed known finding fname-unicode-digit.",
]
READY = True
TECHNIQUE = ("Lean 4 theorems relating a hand-written model of the Rust scanners to an independent Lean "
             "definition of CPython's scanners (induction over the character list, three automata in lockstep) "
             "+ exhaustive/random correspondence with the real crate + CPython as oracle and as validator of the spec")
LEVEL_TEXT = ("Machine-checked Lean 4 theorems for templates and field names of every length: for EVERY template "
              "the modelled FormatString::from_str returns exactly the canonical part sequence of CPython's "
              "formatter_parser (literal pieces with doubled braces unescaped; field name, conversion, spec with "
              "nested braces verbatim) and rejects exactly the same templates (template_eq, no domain restriction); "
              "doubled braces round-trip for every text; on the decidable domain fieldNameInDomain the modelled "
              "FieldName::parse returns CPython's head and accessor chain (the domain excludes only non-ASCII decimal "
              "digits, the one remaining deviation, proved by a concrete witness). The model is tied to the Rust code by "
              "exhaustive small-scope plus random correspondence on every run; the real code is additionally "
              "judged directly by CPython, and the Lean spec is re-validated against CPython.")
LEVEL_NOTE = ("Trusted: Lean kernel, fidelity of the hand-written model as sampled by correspondence (all strings "
              "over { } [ ] ! : . 0 a e-acute to length 5 quick / 6 thorough, both operations), CPython 3.11.7 as "
              "the reference, the Rust std contracts named in the trusted base, harness and generator.")
RULE = ("request lines (operation x text) sent to both the real rustpython-format crate and the Lean model and "
        "judged by CPython; distinct = distinct request line; non-trivial = text is non-empty")

ALPHABET = ["{", "}", "[", "]", "!", ":", ".", "0", "a", "é"]
LB, RB, LS, RS, BANG, COLON = (ord(c) for c in "{}[]!:")

# ------------------------------------------------------------------ CPython reference, canonical form


def py_tmpl(s):
    """`_string.formatter_parser` in the harness' answer format.  CPython yields
    (literal, field_name, format_spec, conversion) tuples, one per doubled brace / field; the part
    sequence of the property is: adjacent literals joined, empty literals dropped, a field for every
    tuple whose field_name is not None."""
    try:
        items = list(_string.formatter_parser(s))
    except ValueError:
        return "err"
    parts = []
    for lit, name, spec, conv in items:
        if lit:
            if parts and parts[-1][0] == "L":
                parts[-1] = ("L", parts[-1][1] + lit)
            else:
                parts.append(("L", lit))
        if name is not None:
            parts.append(("F", name, conv, spec))
    out = "ok"
    for p in parts:
        if p[0] == "L":
            out += " L:" + hexs(p[1])
        else:
            out += " F:%s:%s:%s" % (hexs(p[1]), hexs(p[2]) if p[2] is not None else "none", hexs(p[3]))
    return out


def py_raw(s):
    """raw tuples, for validating Spec.formatterParser itself"""
    try:
        items = list(_string.formatter_parser(s))
    except ValueError:
        return "err"
    out = "ok"
    for lit, name, spec, conv in items:
        if name is None:
            out += " T:%s:none" % hexs(lit)
        else:
            out += " T:%s:%s:%s:%s" % (hexs(lit), hexs(name), hexs(conv) if conv is not None else "none", hexs(spec))
    return out


def py_fname(s):
    """`_string.formatter_field_name_split`, iterator exhausted (its errors are raised lazily)."""
    try:
        first, rest = _string.formatter_field_name_split(s)
        rest = list(rest)
    except ValueError:
        return "err"
    out = "ok "
    if isinstance(first, int):
        out += "idx:%d" % first
    elif first == "":
        out += "auto"
    else:
        out += "kw:" + hexs(first)
    for is_attr, v in rest:
        if is_attr:
            out += " A:" + hexs(v)
        elif isinstance(v, int):
            out += " I:%d" % v
        else:
            out += " S:" + hexs(v)
    return out


def dec_table(s):
    """non-ASCII decimal digits of s as the `cp=d,...` argument of sfname/fdom"""
    items = sorted({(ord(c), unicodedata.decimal(c)) for c in s if ord(c) > 127 and unicodedata.decimal(c, None) is not None})
    return ",".join("%d=%d" % kv for kv in items) if items else "-"


# ------------------------------------------------------------------ field-name domain (copy of Domain.lean)

def fname_hazard(s):
    """None if the field name is in the domain of fieldname_eq_partial, else the hazard name
    (since the fix of fname-index-overflow: only non-ASCII decimal digits)."""
    for c in s:
        if ord(c) > 127 and unicodedata.decimal(c, None) is not None:
            return "unicode-digit"
    return None


KEYS = {
    "unicode-digit": "fname-unicode-digit",
}

# ------------------------------------------------------------------ oracle / classify / search


def _text(req):
    ws = req.split()
    return ws[0], unhex(ws[1]).decode("utf-8")


def oracle(req, out):
    """Judge the implementation's answer against CPython, independently of the Lean model."""
    if out in ("(panic)", "(abort)", "(timeout)"):
        return "implementation " + out
    op, s = _text(req)
    if op == "tmpl":
        exp = py_tmpl(s)
        if out != exp:
            return f"template parts differ: implementation {out!r}, CPython formatter_parser {exp!r}"
    elif op == "fname":
        exp = py_fname(s)
        if out != exp:
            return f"field name split differs: implementation {out!r}, CPython formatter_field_name_split {exp!r}"
    return None


def classify(req, impl_out, model_out, failure):
    """A failure is a listed finding only if (1) CPython disagrees with the implementation, (2) the Lean model
    predicts exactly this behaviour of the implementation, (3) it is a field-name request whose text has one of
    the integer-reading hazards that fieldname_eq_partial excludes.  Template requests are never classified:
    template_eq has no exceptions.  Anything else (in-domain input, changed behaviour) is reported."""
    if not failure or model_out is None or impl_out != model_out:
        return None
    op, s = _text(req)
    if op == "fname":
        h = fname_hazard(s)
        return KEYS.get(h)
    return None


def search(ctx, disagreements, bins):
    """Model and implementation disagree but CPython was happy with the implementation on those inputs:
    look for a concrete input near them on which the implementation fails the property."""
    hbin = bins[(HARNESS["bin"], "default")]
    seen = set()
    cands = []
    for e in disagreements[:40]:
        op, s = _text(e["request"])
        for i in range(len(s) + 1):
            for a in ALPHABET + ["r", "1", "x"]:
                for v in (s[:i] + a + s[i:], s[:i] + a + s[i + 1:]):
                    if (op, v) not in seen:
                        seen.add((op, v))
                        cands.append(f"{op} {hexs(v)}")
            if i < len(s):
                v = s[:i] + s[i + 1:]
                if (op, v) not in seen:
                    seen.add((op, v))
                    cands.append(f"{op} {hexs(v)}")
    if not cands:
        return None
    outs = core.run_lines([hbin], cands, jobs=4)
    models = core.run_lines([core.driver_path(DRIVER)], cands, jobs=4)
    for r, a, m in zip(cands, outs, models):
        f = oracle(r, a)
        if f and not classify(r, a, m, f):
            return {"request": r, "impl": a, "model": m, "failure": f, "stream": "violation-search"}
    return None


# ------------------------------------------------------------------ generators

def _all_strings(maxlen):
    for n in range(maxlen + 1):
        for tup in itertools.product(ALPHABET, repeat=n):
            yield "".join(tup)


IDENTS = ["a", "x1", "key", "é", "日本", "_", "self", "A9"]
NUMS = ["0", "1", "12", "007", "255", "256", "65536", "4294967295", "4294967296", "9223372036854775807"]
CONVS = ["r", "s", "a", "b", "x", "é", "!", "]", ".", "}", ":", "[", "{", "rs", ""]
FILLS = ["", ">", "<10", "^{w}", "{0}", ".{p}f", "0=+8,.3e", "é<4", "[]", "[^9]", "a]", ":", "!r", "x!", "{}{}",
         "[<5", "{{}}", "{a{b}}", "[", "{[}", "]>{w[}]}"]


def _rand_fname(rng):
    head = rng.choice(["", "", rng.choice(IDENTS), rng.choice(NUMS)])
    parts = []
    for _ in range(rng.choice([0, 0, 1, 1, 2, 3])):
        if rng.random() < 0.5:
            parts.append("." + rng.choice(IDENTS + NUMS))
        else:
            parts.append("[" + rng.choice(IDENTS + NUMS + ["a b", "-1", ":", "a.b", "é!", "0x", "}", "{", "!", "{}", "a}b"]) + "]")
    return head + "".join(parts)


def _rand_template(rng):
    out = []
    for _ in range(rng.randrange(0, 6)):
        k = rng.random()
        if k < 0.35:
            out.append(rng.choice(["a", "text ", "é", "{{", "}}", "{{}}", ":", "!", "[", "]", ".", "0", "日"]))
        else:
            f = "{" + _rand_fname(rng)
            if rng.random() < 0.4:
                f += "!" + rng.choice(CONVS)
            if rng.random() < 0.6:
                f += ":" + rng.choice(FILLS)
            out.append(f + "}")
    return "".join(out)


def _mutate(rng, s, alpha):
    s = list(s)
    for _ in range(rng.choice([1, 1, 2, 3])):
        k = rng.random()
        i = rng.randrange(len(s) + 1)
        if k < 0.4:
            s.insert(i, rng.choice(alpha))
        elif k < 0.7 and s:
            del s[min(i, len(s) - 1)]
        elif s:
            s[min(i, len(s) - 1)] = rng.choice(alpha)
    return "".join(s)


# deterministic probes: one per listed finding (first, so that the KNOWN-FINDING line is printed on every
# run), then the templates repaired by /repo commit eebce66 (regression), then past / suspected problem inputs
FINDING_PROBES = [
    "fname " + hexs("٣"),              # unicode digit
    "fname " + hexs("a[٣٤]"),
]
# fname-index-overflow, repaired in /repo by 7cb5b4b: ordinary requests (a recurrence is a VIOLATION)
OVERFLOW_REGRESSION = ["9223372036854775808", "a[99999999999999999999]", "9223372036854775807", "a[9223372036854775807]",
                       "a[9223372036854775808]", "18446744073709551615", "18446744073709551616", "99999999999999999999x",
                       "a[99999999999999999999x]", "a[9223372036854775808].b", "9223372036854775808.b[0]",
                       "0009223372036854775807", "00000000000000000000009223372036854775808", "a[1][99999999999999999999]",
                       "+5", "a[+5]", "+", "a[+]", "-5", "5+", "1e3", "a[0x10]", "12_3", " 1", "1 ", "a[ 1]"]
REGRESSIONS = ["{a[}", "{a[}]}", "{a[!]}", "{[{]}", "{a{b}c}", "{!}}", "{x!:}", "{![:]}", "{!{:}}", "{:{{}}}",
               "{:{a{b}}}", "{:[<5}", "{a:[b}", "{:{[}}", "{0[}]!r:[{[}]}"]
CORPUS_TMPL = ["", "a", "{}", "{{", "}}", "{", "}", "{{}", "{}}", "{{}}", "{{{key}}}ddfe", "abcd{1}:{key}",
               "{a:%ЫйЯЧ}", "{s", "{[:123]}", "{asdf[:123]asdf}", "{[1234}", "{0!r:>10}", "{!r}", "{a!rx}", "{a!}",
               "{!", "{a!r", "{:{}}", "{:{}{}}", "{:{}", "{:}}", "{:}}}", "{a!r}}}", "{![}", "{![a}", "{!!}",
               "{:!}", "{a[:]!r}", "{a:[}", "{:[a]}", "{a:b:c}", "a{{b}}c{}{}", "{0.a[1][x]!s:{w}.{p}}",
               "{a[]}", "{a.}", "{a[1]b}", "{é[é].é!é:é}", "}{", "{}{", "{:{}}}", "{a]}", "{]}", "{.}", "{:.}"]
CORPUS_FNAME = ["", "0", "key", "key.attr[0][string]", "key..", "key[]", "key[", "key[0]after", "a.b[1][x]", "a]b",
                "00", "0x", "-1", "a[-1]", "a[ 1]", "1_0", ".a", "[1]", "a[.]", "a[[]", "a[]]", "a.[", "a.b.",
                "18446744073709551615", "9223372036854775807", "a[9223372036854775807]", "4294967296", "a[4294967296]", "a[65536]", "é.é[é]", "a[0]["]


def streams(ctx):
    out = []
    reqs = list(FINDING_PROBES) + ["fname " + hexs(s) for s in OVERFLOW_REGRESSION] + ["tmpl " + hexs(s) for s in REGRESSIONS]
    reqs += ["tmpl " + hexs(s) for s in CORPUS_TMPL] + ["fname " + hexs(s) for s in CORPUS_FNAME]
    out.append(Stream("corpus", reqs, kind="corpus",
                      note="one deterministic probe per listed finding, the field names of the repaired integer overflow "
                           "finding (limits 2^63-1 / 2^63, overflow before a non-digit, '+'), the templates repaired by eebce66, the Rust "
                           "unit-test inputs, adjacency cases"))

    L = 5 if ctx.quick else 6
    nt = lambda r: r.split()[1] != "-"
    out.append(Stream(f"tmpl-exhaustive-len<={L}", ["tmpl " + hexs(s) for s in _all_strings(L)], kind="exhaustive",
                      exhaustive=True, note="every string over { } [ ] ! : . 0 a e-acute as a template: "
                      "implementation = model = CPython required", nontrivial=nt))
    out.append(Stream(f"fname-exhaustive-len<={L}", ["fname " + hexs(s) for s in _all_strings(L)], kind="exhaustive",
                      exhaustive=True, note="every string over the same alphabet as a field name", nontrivial=nt))

    # characters that are syntax only to byte-level code (same low byte as { } [ ] ! : . or a digit)
    import lexcommon
    base = CORPUS_TMPL + REGRESSIONS + list(_all_strings(3))
    al = list(dict.fromkeys(a for t in base for a in lexcommon.trunc_aliases(t, "{}[]!:.0123456789")))
    al += ["Żółw: {name}", "ŻŻ{}ŽŽ", "{a}Ż", "Ž{a}", "{Ż}", "{a:Ż}", "{a!Ž}", "{a[Ż]}", "{a.Ž}"]
    fb = CORPUS_FNAME + list(_all_strings(3))
    fal = list(dict.fromkeys(a for t in fb for a in lexcommon.trunc_aliases(t, "{}[]!:.0123456789")))
    out.append(Stream("truncation-aliases", ["tmpl " + hexs(s) for s in al] + ["fname " + hexs(s) for s in fal if fname_hazard(s) is None],
                      kind="directed", note="corpus and all strings of length <= 3 with one syntax character replaced by a letter "
                      "that has the same low byte (U+01xx / U+100xx): letters must stay letters", nontrivial=nt))

    rng = ctx.rng("random")
    n = 4000 if ctx.quick else 120000
    reqs = []
    for _ in range(n):
        reqs.append("tmpl " + hexs(_rand_template(rng)))
        f = _rand_fname(rng)
        if fname_hazard(f) is None:
            reqs.append("fname " + hexs(f))
    out.append(Stream("random-structured", reqs, kind="random",
                      note="grammar-generated templates and field names (mostly accepted); field names with a listed integer hazard filtered out",
                      nontrivial=nt))

    rng = ctx.rng("malformed")
    alpha = ALPHABET + ["r", "1", "9", " ", "_", "日", "-", "<", "+", "9223372036854775807", "9223372036854775808",
                        "999999999999999999", "18446744073709551616"]
    reqs = []
    for _ in range(n):
        if rng.random() < 0.5:
            t = _mutate(rng, _rand_template(rng), alpha)
        else:
            t = "".join(rng.choice(alpha) for _ in range(rng.randrange(0, 14)))
        reqs.append("tmpl " + hexs(t))
        f = _mutate(rng, _rand_fname(rng), alpha) if rng.random() < 0.6 else "".join(
            rng.choice(alpha) for _ in range(rng.randrange(0, 10)))
        if fname_hazard(f) is None:
            reqs.append("fname " + hexs(f))
    out.append(Stream("malformed", reqs, kind="malformed",
                      note="mutated templates / field names and random symbol soup; field names with a listed integer hazard filtered out",
                      nontrivial=nt))
    return out


# ------------------------------------------------------------------ spec validation (pre-build step)

def pre_build(ctx):
    """Build the driver and check the Lean *spec* (not the model) and the Lean field-name domain predicate against
    CPython / the Python copy: a difference here is a defect of the check, reported as a broken obligation."""
    rc, log = core.lake_build([DRIVER])
    if rc != 0:
        return [("spec validation (driver build)", False, log[-400:])]
    drv = core.driver_path(DRIVER)
    L = 4 if ctx.quick else 5
    texts = list(_all_strings(L))
    rng = ctx.rng("specval")
    alpha = ALPHABET + ["r", "1", "9", " ", "٣", "+", "日"]
    for _ in range(3000 if ctx.quick else 30000):
        k = rng.random()
        if k < 0.4:
            texts.append(_rand_template(rng))
        elif k < 0.7:
            texts.append(_mutate(rng, _rand_template(rng), alpha))
        else:
            texts.append("".join(rng.choice(alpha) for _ in range(rng.randrange(0, 12))))
    texts += CORPUS_TMPL + REGRESSIONS + [unhex(r.split()[1]).decode() for r in FINDING_PROBES]
    fnames = texts + CORPUS_FNAME + [_rand_fname(rng) for _ in range(2000)] + [
        "٣", "a[٣]", "१२", "9" * 25, "0" * 30 + "1", "9223372036854775808", "a[9223372036854775808]x", "12a", "1٣"]
    res = []

    def run(name, reqs, expect):
        outs = core.run_lines([drv], reqs, jobs=4)
        bad = [(r, o, e) for r, o, e in zip(reqs, outs, expect) if o != e]
        detail = f"{len(reqs)} inputs" if not bad else f"{len(bad)} of {len(reqs)} differ, first: {bad[0]}"
        res.append((name, not bad, detail))

    run("Spec.formatterParser = CPython formatter_parser (raw tuples)",
        ["stmpl " + hexs(s) for s in texts], [py_raw(s) for s in texts])
    run("Spec.canon . formatterParser = canonical CPython parts",
        ["ctmpl " + hexs(s) for s in texts], [py_tmpl(s) for s in texts])
    run("Spec.fieldNameSplit = CPython formatter_field_name_split",
        [f"sfname {hexs(s)} {dec_table(s)}" for s in fnames], [py_fname(s) for s in fnames])
    run("Python copy of fieldNameInDomain = Lean fieldNameInDomain",
        [f"fdom {hexs(s)} {dec_table(s)}" for s in fnames], [str(fname_hazard(s) is None).lower() for s in fnames])
    return res
