"""C02 — node ranges are the exact source extent of each construct.

Harness: pvh_c01 built with `all-nodes-with-ranges`.  Proof-level part: Lean theorems about `rangesOk`
(lean/PV/C02) + a correspondence stream in which the driver evaluates the Lean predicate on the trees the
real parser produces and must agree with the independent Python oracle's structural verdict.  The Python
oracle judges every tree of the sweep: structure, equality with CPython's positions for the kinds CPython
positions, and `source[range] == construct text` rules for the others.

Ranged PROGRAM parser model (streams `ranged-program-model-*`, harness pvh_c01, request `rprog <mode> <hex src> <tokens> <spans>`):
the Lean model `PV.C02.parseRProgram` (lean/PV/C02/RProg.lean, ranged twin of PROG's reference program parser) computes the
range of every node of a Module / Interactive / Expression parse — statements, patterns, handlers, cases, aliases,
with-items, type parameters, parameters, the Mod node — from the real token stream and its real byte spans; its canonical
ranged tree must be byte-identical with the real parser's, and the same oracle judges the real tree.

Ranged parser model (streams `ranged-parser-model-*`, harness pvh_c01, request `rexpr <hex src> <spans>`): the Lean
model `PV.C02.parseRExpression` (lean/PV/C02/RParse.lean, ranged twin of the reference expression parser) computes
the range of every node from the tokens of the source and the real lexer's token spans; its canonical ranged tree
must be byte-identical with the real parser's (Expression mode, all-ranges build), and the same oracle judges
the real tree.  Sources: C11's generators (imported) + layouts written here (parentheses / trivia everywhere,
multi-byte names, f-strings).
"""
import ast
import io
import keyword
import os
import re
import sys
import tokenize
import warnings
from concurrent.futures import ProcessPoolExecutor

sys.path.insert(0, os.path.dirname(os.path.dirname(os.path.abspath(__file__))))
import core
import pyref
import refsweep
from core import Stream, hexs, unhex
from props import c11          # generators of the expression fragment the Lean reference parser covers
from props import prog         # PROG's corpus, generators and attachment rewriting (whole programs)
import shapes

warnings.simplefilter("ignore")

ID = "C02"
DESIGN_REF = "DESIGN.md section 5, C02; design/C02.md; design/REFTOOLS.md"
LEAN_TARGETS = ["PV.C02.Thm", "PV.C02.RThm", "PV.C02.RProgThm", "PV.C02.FStrLex", "PV.C02.FStrField", "PV.C02.FStrThm", "PV.C02.FStrBody", "PV.C02.FStrThm1", "PV.C02.FStrRoot",
                "PV.C02.FSoundNodes", "PV.C02.FSoundIdx", "PV.C02.FSoundSteps", "PV.C02.FStrFull",
                "PV.C02.FProgTie", "PV.C02.FProgPlain", "PV.C02.FProgSoundBase", "PV.C02.FProgSoundSeq",
                "PV.C02.FProgSoundNodes", "PV.C02.FProgSoundItems", "PV.C02.FProgSound1", "PV.C02.FProgSound2",
                "PV.C02.FProgSound3", "PV.C02.FProgSound4", "PV.C02.FProgThm",
                "PV.C02.GLex", "PV.C02.GField", "PV.C02.GSoundNodes", "PV.C02.GSoundIdx", "PV.C02.GStrBody",
                "PV.C02.GSoundSteps", "PV.C02.GStrFull", "PV.C02.GShape", "PV.C02.GStrFullN",
                "PV.C02.GProgTie", "PV.C02.GProgPlain", "PV.C02.GProgSoundBase", "PV.C02.GProgSoundSeq",
                "PV.C02.GProgSoundNodes", "PV.C02.GProgSoundItems", "PV.C02.GProgSound1", "PV.C02.GProgSound2",
                "PV.C02.GProgSound3", "PV.C02.GProgSound4", "PV.C02.GProgThm"]
DRIVER = "drv_c02"
HARNESS = {"bin": "pvh_c01", "features": "all-ranges"}
THEOREMS = [
    # about the checker
    "PV.C02.rangesOk_node",
    "PV.C02.rangesOk_slice",
    "PV.C02.rangesOk_siblings",
    "PV.C02.viol_nil_iff",
    # about the model of range computation (ranged twin of the reference expression parser)
    "PV.C02.parseR_erase",
    "PV.C02.parseRExpression_erase",
    "PV.C02.tiled_of_lexer",
    "PV.C02.parseR_rangesOk_partial",
    "PV.C02.parseRExpression_rangesOk_partial",
    "PV.C02.argwithdefault_regression",
    "PV.C02.argwithdefault_parenthesised_default_witness",
    "PV.C02.parseR_extent",
    "PV.C02.parseR_extent_nonterminals",
    "PV.C02.parseR_extent_fails",
    "PV.C02.genexp_sole_argument_witness",
    "PV.C02.genexp_sole_argument_fails",
    "PV.C02.namedexpr_witness",
    "PV.C02.lambda_empty_arguments_witness",
    "PV.C02.fstring_piece_in_concatenation_witness",
    # f-string pieces: what is true (tied tokens), what is false (Tiled alone), and the tiling of a replacement field
    "PV.C02.fstring_rangesOk_samples",
    "PV.C02.parseR_rangesOk_fails",
    "PV.C02.fstring_crlf_folded_witness",
    "PV.C02.lexSpansGo_chain",
    "PV.C02.lex_lockstep",
    "PV.C02.lexSpans_tiles",
    "PV.C02.tiledTab_of_aligned",
    "PV.C02.scanField_cut",
    "PV.C02.fieldTab_within_field",
    "PV.C02.aligned_of_tied",
    "PV.C02.field_value_res",
    # f-string literals, one level deep: the f-string step of the induction and what follows at the string production
    "PV.C02.bodyAt",
    "PV.C02.strings_res_fstr1",
    "PV.C02.ftie_of_ftied",
    "PV.C02.parseRStrings_rangesOk_fstr1",
    "PV.C02.parseRAtom_rangesOk_fstr1",
    "PV.C02.invAt",
    "PV.C02.parseR_rangesOk_fstr1",
    "PV.C02.parseRExpression_rangesOk_fstr1",
    # f-string literals ANYWHERE in the expression (one level): the induction re-run with the tie
    "PV.C02.F.soundAt",
    "PV.C02.parseR_rangesOk_fstr",
    "PV.C02.parseRExpression_rangesOk_fstr",
    "PV.C02.fplain1_of_plain",
    # f-string literals anywhere in a PROGRAM (one level): the program-level induction re-run over F.soundAt
    "PV.C02.F.compSAt",
    "PV.C02.F.programBody_sound",
    "PV.C02.parseRProgram_rangesOk_fstr",
    "PV.C02.fplainM1_of_plainM",
    # f-string literals at EVERY depth, expression level: no hypothesis on the tree
    "PV.C02.lexString_spec",
    "PV.C02.lexBoth_toks",
    "PV.C02.lexBoth_spans",
    "PV.C02.lexBoth_texts",
    "PV.C02.inner_gtie",
    "PV.C02.gtie_of_ftie",
    "PV.C02.G.strings_resG",
    "PV.C02.G.soundAtAll",
    "PV.C02.G.shapeAt",
    "PV.C02.parseR_fwf",
    "PV.C02.parseR_rangesOk_fstrN",
    "PV.C02.parseRExpression_rangesOk_fstrN",
    "PV.C02.parseR_rangesOk_full_tied",
    # …and the program level at every depth, for trees of well-formed f-string shape
    "PV.C02.G.compSAt",
    "PV.C02.parseRProgram_rangesOk_fstrN_wf",
    # about the model of range computation for whole programs (ranged twin of the reference program parser PV.Prog)
    "PV.C02.parseRProgramFuel_erase",
    "PV.C02.parseRProgram_erase",
    "PV.C02.parseRProgramA_eq",
    "PV.C02.tiledP_of_lexer",
    "PV.C02.parseRProgram_rangesOk_partial",
    "PV.C02.parseRProgram_extent",
    "PV.C02.compound_end_semicolon_witness",
    "PV.C02.match_subject_tuple_witness",
    "PV.C02.def_argwithdefault_paren_witness",
    "PV.C02.with_items_regression",
]
TRUSTED = [
    "Lean 4.33.0 kernel; axioms limited to propext, Classical.choice, Quot.sound",
    "fidelity of the hand-written models PV.C02.parseR (lean/PV/C02/RParse.lean, expressions) and PV.C02.parseRProgram "
    "(lean/PV/C02/RProg.lean, whole programs): which cursor positions each grammar action of python.lalrpop / "
    "function.rs / string.rs takes its range from (`@L` / `@R` captures and the derived ends `body.last().end()`, "
    "`default.end()`, `subjects.first().start()` …), as sampled by the correspondence streams ranged-parser-model-* "
    "(~97k / ~400k expression sources per run) and ranged-program-model-* (~14k / ~80k programs per run: PROG's "
    "corpus, directed shapes, generated programs with layout noise in all three modes, stdlib files), byte-identical "
    "ranged trees, 0 disagreements; the LR automaton itself is not modelled, the models are recursive-descent twins of "
    "C11's parseRef and of PROG's parseProgram (to which they erase: parseR_erase, parseRProgram_erase)",
    "expression requests: the token VALUES handed to the model come from PV.C11.lex (tied to lexer.rs by the C11 and C02 "
    "streams), the token SPANS from the real lexer; program requests: token values AND spans are the real lexer's "
    "(after the soft-keyword pass, pvh_c01 `rtoks`), string tokens decoded by PV.C11.Lexer's model of string.rs, "
    "`\\N{…}` escapes rewritten like PROG's attachments; that real spans tile the source is proved for the lexer MODEL "
    "(C05) and bridged by tiled_of_lexer / tiledP_of_lexer for spans only",
    "the model ranges the empty Arguments node of a parameterless lambda at the END of the `lambda` token where the action "
    "hard-codes `location + TextSize::of(\"lambda\")`: equal because the lexer's keyword token is exactly its six bytes "
    "(sampled by the streams)",
    "f-string replacement fields in the theorems: the parser model computes their ranges and the streams compare them, the "
    "structural theorems exclude trees with f-string pieces; the field lemmas (fieldTab_within_field, field_value_res) "
    "take the tie FTied (the value of an f-string token is the source text of its span) as a hypothesis: it is what "
    "the real lexer delivers except after a CR LF inside the literal (listed finding), sampled by the streams",
    "CPython 3.11.7 lineno/col_offset/end_* converted to byte offsets (tools/pyref.py) as the reference extent of "
    "statements, expressions, patterns, parameters, keywords, aliases and handlers",
    "tools/props/c02.py (oracle: structural rules, extent rules for the kinds CPython does not position), "
    "tools/props/c11.py, tools/props/prog.py (generators, corpus, attachment rewriting), tools/shapes.py, "
    "tools/gen_program.py, tools/refsweep.py, harness/src/astdump.rs, harness/src/bin/pvh_c01.rs, lean/Drv/C02.lean, "
    "lean/Drv/C02Prog.lean, lean/PV/C02/Fwd.lean and the `ftie_tails` tactic of lean/PV/C02/FSoundSteps.lean (proof-producing "
    "tactics; their output is kernel-checked), tools/c02_gen_fsound.py / tools/c02_gen_fsteps.py / tools/c02_gen_fprog.py / tools/c02_gen_gsound.py / "
    "tools/c02_gen_gshape.py (generators of lean/PV/C02/FSound*.lean, FProg*.lean, GSound*.lean, GStrBody.lean, "
    "GShape.lean, whose output Lean checks; GSoundSteps.lean has its own copy `gtie_tails` of the tactic), "
    "tools/c02_gen_nodes.py (generator of lean/PV/C02/RProgSoundNodes.lean, whose output Lean checks)",
]
PARTIAL = [
    "proved (unbounded, for the MODEL): for the whole expression fragment except f-string pieces (`plain`): every tree "
    "parseR returns for tiled token spans satisfies all five structural clauses of the property "
    "(parseR_rangesOk_partial, parseRExpression_rangesOk_partial); the statement for EVERY tree (parseR_rangesOk_full) "
    "is REFUTED as stated (parseR_rangesOk_fails): `Tiled` constrains token spans only, the ranges inside a replacement "
    "field come from the token VALUE; the statement that can hold needs the tie FTied (decidable: the value of every "
    "f-string token is the source text of its span)",
    "f-string pieces, decided by the kernel (fstring_rangesOk_samples): with tied tokens rangesOk HOLDS of the model's "
    "f-string trees — nested format spec, conversion with multi-byte characters, self-documenting field, and an "
    "f-string inside an implicit concatenation (the listed finding fstring-piece-range-in-concatenation is an extent "
    "deviation: pieces carry the literal's or the whole concatenation's range, enclosure holds, sibling order is exempt "
    "for JoinedStr.values); with a CR LF folded in the token value the tie and rangesOk both fail "
    "(fstring_crlf_folded_witness)",
    "proved (unbounded): the reusable half of the f-string proof — lexSpans_tiles / lexSpansGo_chain / lex_lockstep "
    "(analogue of C05 for the field token loop: spans are byte images of increasing character intervals of the text, "
    "ordered, as many as the C11 lexer's tokens), scanField_cut (prefix / offset lemma: the expression text has the byte "
    "offsets of the source at every character position, a one-byte character follows, the rest is a suffix), "
    "aligned_of_tied, tiledTab_of_aligned, fieldTab_within_field (the span table of the recursive parse is a TiledTab "
    "of the source inside the window from the opening brace to the end of what the scanner consumed) and "
    "field_value_res (a plain field expression parsed over fieldTab passes all structural clauses inside that window: "
    "the induction step at fstrRField)",
    "proved (unbounded, for the MODEL of whole programs): for every mode, every tiled spanned token list and every "
    "accepted program without f-string pieces, the WHOLE tree — Mod*, all 28 statement kinds, 8 pattern kinds, "
    "handlers, match cases, aliases, with-items, type parameters, Arguments / ArgWithDefault / Arg, keywords, "
    "comprehensions, expressions — passes rangesOk: inside the input, on character boundaries, start <= end, parents "
    "enclose children (decorators exempt, as in the property), list siblings ordered and disjoint "
    "(parseRProgram_rangesOk_partial, by induction over all functions of the program parser; nothing of the grammar is "
    "left out); the statement for every tree (parseRProgram_rangesOk_full) is stated, not proved: f-string pieces",
    "proved: erasing the ranges of parseRProgram gives exactly PV.Prog.parseProgram (parseRProgram_erase), so PROG's "
    "theorems (totality, fuel monotonicity, layout freedom, printer round trip) transfer to the ranged parser's trees",
    "proved: extents — every node returned by a nonterminal of the expression chain is ranged by the tokens consumed, up to "
    "returned-through parentheses and the NamedExpr deviation (parseR_extent, parseR_extent_nonterminals; refuted "
    "without the deviation: parseR_extent_fails); every SMALL statement is ranged exactly by the tokens it consumed; "
    "every COMPOUND statement starts at the start of one of its own tokens and ends at the end of a token it consumed, "
    "as do statement lines / suites (lastEnd), handler lists and case lists (parseRProgram_extent)",
    "not proved about extents of the program level (stated in design/C02.md): that the start token of an undecorated "
    "compound statement is its FIRST token and that its end is the end of its last statement as an equation on the "
    "tree (both hold by construction of the model and are compared with the real parser and with CPython per input); "
    "exact token extents of patterns, aliases, with-items, type parameters, parameters (their WINDOWS are proved: each "
    "lies inside the tokens it was parsed from; the exact ranges are compared per input)",
    "kernel-checked witnesses that the model reproduces the listed deviations: genexp sole argument, NamedExpr, f-string "
    "pieces in a concatenation, parenthesised parameter default (lambda and def), compound end without the trailing "
    "`;`, match subject tuple; regression facts of repaired findings: ArgWithDefault includes its default, with-items "
    "of a parenthesised list, empty Arguments of a lambda",
    "proved (unbounded): f-string literals one level deep — bodyAt (mutual induction over fstrRBody / fstrRField / "
    "fstrRSpec: for an f-string token tied to the source every piece that is a constant or a FormattedValue with an "
    "f-string-free value and a format spec of such pieces, nested specs to any depth, satisfies all structural clauses "
    "below the token span; cursors stay suffixes of the token value), strings_res_fstr1 (the f-string step of the "
    "soundness induction: what parseRStrings returns at a tied cursor is fine inside the window of the tokens consumed, "
    "concatenations included), ftie_of_ftied, and parseRStrings_rangesOk_fstr1 / parseRAtom_rangesOk_fstr1: Tiled + FTied "
    "+ the string production returns e + fstrTop e -> rangesOk src e.toTree, with NO `plain` hypothesis on the f-string; and "
    "for an f-string AT THE ROOT of the expression (possibly parenthesised, possibly a concatenation): "
    "parseR_rangesOk_fstr1 / parseRExpression_rangesOk_fstr1: Tiled + FTied + parseR fuel toks = some (e, rest) + "
    "fstrTop e -> rangesOk, by inversion of the parser over 18 functions of the expression chain (invAt: a JoinedStr they "
    "return was returned by parseRStrings at a suffix cursor)",
    "proved (unbounded, for the MODEL of expressions): parseR_rangesOk_fstr / parseRExpression_rangesOk_fstr — for every "
    "source, every spanned token list that tiles it (Tiled) and is tied to it (FTied), every fuel: every tree the ranged "
    "parser returns that is `fplain1` passes rangesOk. fplain1 = `plain` with f-string literals admitted at ANY "
    "expression position (call argument, operand, element, default …): JoinedStr whose pieces are constants and "
    "FormattedValues with an f-string-free value and a format spec of such pieces (nested specs to any depth, "
    "conversions, self-documenting fields, implicit concatenations). By re-running the 48-function induction in the "
    "namespace PV.C02.F (FSoundNodes / FSoundIdx / FSoundSteps, GENERATED from SoundNodes / SoundIdx / SoundSteps by "
    "tools/c02_gen_fsound.py and tools/c02_gen_fsteps.py) with the tie FTie carried by every function (hypothesis on "
    "the cursor, conclusion on the rest); F.soundAt is the induction, strings_res_fstr1 its f-string step",
    "proved (unbounded, for the MODEL of whole programs): parseRProgram_rangesOk_fstr — for every source, mode, every "
    "spanned program token list that tiles the source (TiledP) and whose f-string tokens are tied to it (FTiedP), every "
    "accepted program that is `fplainM1` passes rangesOk (the WHOLE tree, as in parseRProgram_rangesOk_partial, plus "
    "every JoinedStr, piece, format spec and replacement-field expression). fplainM1 = plainM with fplain1 at every "
    "expression position: f-string literals anywhere in the program — parameter defaults, class keywords, decorators, "
    "match-case guards, return / assignment values … — their replacement-field expressions f-string-free. "
    "fplainM1_of_plainM: it extends plainM. By re-running RProgSound1-4 and their vocabulary in PV.C02.F over "
    "F.soundAt with the tie carried by every function (FProg*.lean GENERATED by tools/c02_gen_fprog.py; "
    "FProgTie.lean, FProgThm.lean by hand)",
    "proved (unbounded, for the MODEL of expressions): parseR_rangesOk_fstrN / parseRExpression_rangesOk_fstrN — for every "
    "source, every spanned token list that tiles it (Tiled) and is tied to it (FTied), every fuel: EVERY tree the ranged "
    "parser returns passes rangesOk, with no plain-ness or shape hypothesis: f-string literals at any position, nested "
    "to any depth inside replacement fields and format specs (`f'{f\"{x}\"}'`, `f'{x:{f\"{y}\"}}'`). So the statement "
    "parseR_rangesOk_full demanded is TRUE once the tie is among the hypotheses (parseR_rangesOk_full_tied) and FALSE "
    "without it (parseR_rangesOk_fails). Ingredients: lex_lockstep strengthened to token TEXTS (GLex: every token "
    "function of the C11 lexer returns a suffix; lexString_spec: an f-string token was read from prefix ++ quotes ++ "
    "body ++ quotes; lexBoth = lexGo and lexSpansGo in one, lexBoth_texts); inner_gtie (GField: the inner tokens of a "
    "field are ALIGNED with the source at the spans fieldTab gives them — the alignment form GTie of the tie is all "
    "the induction uses, gtie_of_ftie); the 48-function induction by STRONG induction on the fuel with the span table "
    "quantified (G.soundAtAll; GSoundNodes / GSoundIdx / GStrBody / GSoundSteps GENERATED by tools/c02_gen_gsound.py from "
    "the F files), whose f-string step uses the hypothesis at the inner table (G.strings_resG, InnerSoundAll); and "
    "G.shapeAt (GShape, GENERATED by tools/c02_gen_gshape.py: the parser only returns trees of well-formed f-string "
    "shape), which removes the last hypothesis on the tree",
    "proved (unbounded, for the MODEL of whole programs): parseRProgram_rangesOk_fstrN_wf — TiledP + FTiedP + accepted + "
    "fwfM m -> rangesOk for the whole tree with f-string literals at EVERY depth; fwfM (= PV.C02.G.plainM) is a pure "
    "SHAPE predicate (a FormattedValue only as a piece of a JoinedStr …), no plain-ness or nesting condition. The "
    "program-level induction re-run once more, over G.soundAt (GProg*.lean GENERATED by tools/c02_gen_gsound.py from the "
    "FProg files)",
    "not proved: that the PROGRAM parser only returns trees of well-formed f-string shape (the analogue of G.shapeAt "
    "for the ~60 functions of RProg.lean), i.e. dropping fwfM from parseRProgram_rangesOk_fstrN_wf; without it the "
    "unconditional program-level statement is proved one level deep only (parseRProgram_rangesOk_fstr); the listed finding fstring-field-range-after-crlf is reproduced "
    "by the program model per input (real token values) but lies outside the lexer model's domain",
    "the bridges tiled_of_lexer / tiledP_of_lexer relate token SPANS of the lexer model to `Tiled`; token values of "
    "PV.Lexer.Tok and PV.Expr.Tok are related only by correspondence streams",
]
READY = True
TECHNIQUE = ("Lean 4: executable models of the range computation of the WHOLE grammar (ranged twins of C11's reference "
             "expression parser and of PROG's reference program parser) with machine-checked theorems (erasure = reference "
             "parser; every returned tree passes rangesOk, by induction over the parser; extents = consumed token spans), "
             "tied to the real parser by byte-identical ranged trees; plus theorems about the executable range-structure "
             "predicate evaluated on the real parser's trees and an independent Python oracle against CPython positions "
             "over a whole-language sweep")
LEVEL_TEXT = ("Machine-checked Lean 4, for every input and fuel: (1) erasing the ranges computed by the models parseR / "
              "parseRProgram gives exactly the reference parsers parseRef (C11) / parseProgram (PROG), so acceptance and "
              "trees coincide; (2) for token spans that tile the source (proved of the lexer model by C05, bridged by "
              "tiled_of_lexer / tiledP_of_lexer) every tree that the models return — without f-string pieces, or "
              "WITH f-string literals anywhere in the tree when the f-string tokens are tied to the source "
              "(FTied / FTiedP): for single expressions at every depth without any condition on the tree "
              "(parseR_rangesOk_fstrN), for programs with f-string-free replacement-field expressions "
              "(parseRProgram_rangesOk_fstr) — a single "
              "expression or a whole Module / Interactive / Expression parse with all statement, pattern, handler, case, "
              "alias, with-item, type-parameter and parameter nodes — satisfies all structural clauses of the property "
              "(inside the input, on UTF-8 boundaries, start <= end, parents enclose children with the decorator "
              "exemption, list siblings ordered and disjoint); (3) the range of every expression node returned by a "
              "nonterminal is the span of the tokens consumed, up to returned-through parentheses and the listed NamedExpr "
              "deviation, small statements are ranged exactly by their tokens, compound statements from one of their "
              "tokens to the end of a token they consumed; (4) kernel-checked witnesses that the models reproduce the "
              "listed deviations from CPython's extents; (5) theorems about the checker rangesOk itself. The models are "
              "tied to the real parser (all-nodes-with-ranges build) by byte-identical ranged canonical trees on every "
              "request of the ranged-parser-model streams (expressions) and the ranged-program-model streams (programs "
              "in all three modes: PROG's corpus, directed parameter-list / with-item / rare-production shapes, generated "
              "programs with CR / CRLF / tabs / comments / BOM / continuation lines, stdlib files); the real trees are "
              "judged by an independent oracle (structure, CPython 3.11 positions, extent rules).")
LEVEL_NOTE = ("Partial: at the EXPRESSION level the structural theorem holds for EVERY tree under the tie FTied "
              "(parseR_rangesOk_fstrN: f-string literals at any position and depth; the statement with `Tiled` alone is "
              "refuted, parseR_rangesOk_fails: the token value must be tied to its span; a CR LF folded by the real lexer "
              "breaks the tie — listed finding); at the PROGRAM level f-string literals are covered at every depth for trees of well-formed "
              "f-string shape (parseRProgram_rangesOk_fstrN_wf; the shape hypothesis fwfM is not yet discharged for the "
              "program parser) and one level deep under the decidable domain fplainM1 (parseRProgram_rangesOk_fstr). Exact extents of "
              "program-level nodes "
              "other than small statements are proved as windows / token-aligned ends, not as equations with the token "
              "span (compared per input). Trusted: fidelity of the hand-written models as sampled by the correspondence "
              "streams.")
RULE = ("distinct source texts whose every node range is judged; correspondence: (source, real tree) pairs evaluated by the "
        "Lean predicate, (expression source, real token spans) and (program source, real tokens, real spans) pairs whose "
        "ranged tree the Lean parser models compute; non-trivial = the text has an operator, bracket, separator or blank / "
        "more than one token")

COMPOUND = {"StmtFunctionDef", "StmtAsyncFunctionDef", "StmtClassDef", "StmtFor", "StmtAsyncFor", "StmtWhile", "StmtIf",
            "StmtWith", "StmtAsyncWith", "StmtMatch", "StmtTry", "StmtTryStar", "ExceptHandlerExceptHandler"}

PROBES = [
    ("genexp-sole-argument-range", "m", "f(x for x in y)\n"),
    ("fstring-field-range-after-crlf", "m", "f'''\r\n{x}'''\r\n"),
    ("fstring-piece-range-in-concatenation", "m", "x = 'a' f'{b}' 'c'\n"),
    ("match-subject-tuple-range-excludes-element-parentheses", "m", "match (a), b:\n case _: pass\n"),
    ("compound-end-excludes-trailing-semicolon", "m", "if a:\n    b;\nc\n"),
    ("namedexpr-range-excludes-value-parentheses", "m", "(y := (x))\n"),
    ("argwithdefault-range-excludes-default-closing-parenthesis", "m", "def f(a=(1)): pass\n"),
]


# ------------------------------------------------------------------------------------------------ structural oracle

def _is_node(t):
    return not isinstance(t, (str, list)) and t[1] is not None


def _children(t):
    """[(slot, in_list, node)] in schema order, ranged nodes only (same rule as lean/Drv/C02.lean toTree)"""
    out = []
    for f, v in t[2]:
        if isinstance(v, list):
            for x in v:
                if _is_node(x):
                    out.append((f, True, x))
        elif _is_node(v):
            out.append((f, False, v))
    return out


def _boundary(b, o):
    if o == len(b):
        return True
    if o > len(b):
        return False
    return not (128 <= b[o] < 192)


def structural(b, tree):
    """sorted unique violation items, identical in format to PV.C02.viol"""
    out = set()

    def rec(t, par, park):
        kind, (a, e), _ = t[0], t[1], t[2]
        if not (a <= e and e <= len(b) and _boundary(b, a) and _boundary(b, e)):
            out.add("own:" + kind)
        return kind, (a, e)

    def walk(t, par, park, slot):
        kind, (a, e) = t[0], t[1]
        if not (a <= e and e <= len(b) and _boundary(b, a) and _boundary(b, e)):
            out.add("own:" + kind)
        if par is not None and slot != "decorator_list" and not (par[0] <= a and e <= par[1]):
            out.add(f"enclose:{park}:{slot}")
        cs = _children(t)
        for (s1, l1, x), (s2, l2, y) in zip(cs, cs[1:]):
            if s1 == s2 and l1 and l2 and not (kind == "ExprJoinedStr" and s1 == "values"):
                if not x[1][1] <= y[1][0]:
                    out.add(f"order:{kind}:{s1}")
        for s, _, c in cs:
            walk(c, (a, e), kind, s)
    walk(tree, None, "root", "root")
    return sorted(out)


# ------------------------------------------------------------------------------------------------ extents of unpositioned kinds

_WS = rb"(?:[\s\\]|#[^\r\n]*)"
_P_ARGS = rb"(?:" + _WS + rb"|[*/,])*"
_T_ARGS = rb"(?:" + _WS + rb"|[,/*)])*"
_P_OPEN = rb"(?:" + _WS + rb"|\()*"
_T_CLOSE = rb"(?:" + _WS + rb"|\))*"
_TRIVIA = re.compile(rb"(?:[ \t\f\r\n]|#[^\r\n]*|\\\r?\n|\\\r)*\Z")
_LEAD_TRIVIA = re.compile(rb"(?:\xef\xbb\xbf)?(?:[ \t\f\r\n]|#[^\r\n]*|\\\r?\n|\\\r)*\Z")


def _balanced(text):
    if b"'" in text or b'"' in text or b"#" in text:
        return True
    depth = 0
    for c in text:
        if c in b"([{":
            depth += 1
        elif c in b")]}":
            depth -= 1
            if depth < 0:
                return False
    return depth == 0


def _hull(nodes):
    rs = [n[1] for n in nodes if _is_node(n)]
    return (min(r[0] for r in rs), max(r[1] for r in rs)) if rs else None


def _sub_nodes(v):
    if isinstance(v, list):
        return [x for x in v if _is_node(x)]
    return [v] if _is_node(v) else []


def extents(b, tree):
    """[(item, node, parent)] for unpositioned kinds whose range is not the construct's own text"""
    out = []

    def tail_ok(s, e, pat):
        return s <= e and re.fullmatch(pat, b[s:e]) is not None

    def walk(t, parent):
        if isinstance(t, list):
            for x in t:
                walk(x, parent)
            return
        if isinstance(t, str):
            return
        kind, rng, fields = t
        fd = dict(fields)
        if rng is not None and kind in pyref.UNPOSITIONED_KINDS:
            a, e = rng
            text = b[a:e]
            bad = None
            if kind in ("ModModule", "ModInteractive", "ModExpression"):
                # "the construct's own text": nothing but trivia (BOM, blanks, comments, line breaks,
                # continuations) may lie in front of the start and behind the end
                # (a module without any token is ranged 0..0: a BOM, which is not a token either, then lies behind it)
                tail_from = e + 3 if e == 0 and b.startswith(b"\xef\xbb\xbf") else e
                if not _LEAD_TRIVIA.match(b[:a]) or not _TRIVIA.match(b, tail_from):
                    bad = "only trivia may lie in front of and behind a module's range"
            elif kind == "Arguments":
                kids = [x for f in ("posonlyargs", "args", "vararg", "kwonlyargs", "kwarg") for x in _sub_nodes(fd[f])]
                if not kids:
                    if parent and parent[0] == "ExprLambda":
                        # repaired in /repo ("the empty parameter list of a lambda is ranged as the empty text after
                        # the keyword"): the empty text right behind `lambda`
                        if a != e or b[parent[1][0]:a] != b"lambda":
                            bad = "lambda without parameters: Arguments must be the empty text behind the keyword"
                    elif not re.fullmatch(rb"\((?:[ \t\f\r\n]|#[^\r\n]*|\\\r?\n)*\)", text):
                        bad = "empty parameter list must be the parentheses"
                else:
                    inner = []
                    for k in kids:
                        inner.append(k)
                        if k[0] == "ArgWithDefault":
                            inner += _sub_nodes(dict(k[2])["def"]) + _sub_nodes(dict(k[2])["default"])
                    h = _hull(inner)
                    if not (a <= h[0] and h[1] <= e and tail_ok(a, h[0], _P_ARGS) and
                            tail_ok(h[1], e, _T_ARGS) and text.strip() == text and _balanced(text)
                            and not text.startswith(b"(")):
                        bad = "parameter list text"
            elif kind == "ArgWithDefault":
                d = _sub_nodes(fd["def"])[0]
                dv = _sub_nodes(fd["default"])
                want_end = dv[0][1][1] if dv else d[1][1]
                if a != d[1][0] or e < want_end or not tail_ok(want_end, e, _T_CLOSE) or not _balanced(text):
                    bad = "parameter with default: from the name to the end of the default"
            elif kind == "Comprehension":
                h = _hull(_sub_nodes(fd["target"]) + _sub_nodes(fd["iter"]) + _sub_nodes(fd["ifs"]))
                first = rb"async\b" if fd.get("is_async") == "true" else rb"for\b"   # the clause's own first keyword
                if not (re.match(first, text) and a <= h[0] and h[1] <= e and
                        tail_ok(h[1], e, _T_CLOSE) and _balanced(text)):
                    bad = "comprehension clause text"
            elif kind == "WithItem":
                h = _hull(_sub_nodes(fd["context_expr"]) + _sub_nodes(fd["optional_vars"]))
                if not (a <= h[0] and h[1] <= e and tail_ok(a, h[0], _P_OPEN) and tail_ok(h[1], e, _T_CLOSE)
                        and _balanced(text)):
                    bad = "with item text"
            elif kind == "MatchCase":
                body = _sub_nodes(fd["body"])
                if not (text.startswith(b"case") and body and e >= body[-1][1][1] and tail_ok(body[-1][1][1], e, rb"[\s;]*")):
                    bad = "case block text"
            elif kind.startswith("TypeParam"):
                nm = bytes.fromhex(fd["name"][2:]) if fd["name"] != "s:-" else b""
                stars = {"TypeParamTypeVar": rb"", "TypeParamTypeVarTuple": rb"\*\s*", "TypeParamParamSpec": rb"\*\*\s*"}[kind]
                bd = _sub_nodes(fd.get("bound", "None"))
                ok = re.match(stars + re.escape(nm), text) is not None
                if bd:
                    ok = ok and e >= bd[0][1][1] and tail_ok(bd[0][1][1], e, _T_CLOSE)
                else:
                    ok = ok and re.fullmatch(stars + re.escape(nm), text) is not None
                if not ok:
                    bad = "type parameter text"
            if bad:
                out.append((f"extent:{kind}", t, parent, bad))
        for f, v in fields:
            walk(v, t)
    walk(tree, None)
    return out


def _top_comma(text):
    depth = 0
    for c in text:
        if c in b"([{":
            depth += 1
        elif c in b")]}":
            depth -= 1
        elif c == 44 and depth == 0:
            return True
    return False


# ------------------------------------------------------------------------------------------------ classification

def classify_struct(item):
    return None


def classify_extent(item, node, parent, b):
    kind = node[0]
    fd = dict(node[2])
    if kind == "WithItem" and not _sub_nodes(fd["optional_vars"]):
        # an item of a parenthesised with-list is ranged like its expression NODE (/repo 14693ce): a NamedExpr whose
        # value is parenthesised ends in front of the value's closing parentheses (the listed NamedExpr finding), and
        # so does the item — the same missing parentheses, nothing else
        ce = _sub_nodes(fd["context_expr"])
        if ce and ce[0][0] == "ExprNamedExpr" and tuple(ce[0][1]) == tuple(node[1]):
            a, e = node[1]
            k = b[a:e].count(b"(") - b[a:e].count(b")")
            if k > 0 and re.match(rb"(?:" + _WS + rb"*\)){%d}" % k, b[e:]) and (b"'" not in b[a:e] and b'"' not in b[a:e] and b"#" not in b[a:e]):
                return "namedexpr-range-excludes-value-parentheses"
    if kind == "ArgWithDefault" and _sub_nodes(fd["default"]):
        # the item ends at the end of the default's NODE: for a parenthesised default the closing parentheses are
        # missing from the item's text (and nothing else)
        d = _sub_nodes(fd["def"])[0]
        dv = _sub_nodes(fd["default"])[0]
        a, e = node[1]
        if a == d[1][0] and e == dv[1][1]:
            k = b[a:e].count(b"(") - b[a:e].count(b")")
            if k > 0 and re.match(rb"(?:" + _WS + rb"*\)){%d}" % k, b[e:]) and (b"'" not in b[a:e] and b'"' not in b[a:e] and b"#" not in b[a:e]):
                return "argwithdefault-range-excludes-default-closing-parenthesis"
    return None


def classify_refdiff(d, b):
    x, y = d["impl"], d["ref"]
    kind = x[0]
    (a, e), (ra, re_) = x[1], y[1]
    path = d["path"]
    if kind == "ExprGeneratorExp" and d["pa"] and d["pa"][0] == "ExprCall":
        fd = dict(d["pa"][2])
        if len(fd["args"]) == 1 and not fd["keywords"] and ra < a and e < re_ and \
                re.fullmatch(rb"\(" + _WS + rb"*", b[ra:a]) and re.fullmatch(_WS + rb"*\)", b[e:re_]):
            return "genexp-sole-argument-range"
    if kind in ("ExprFormattedValue", "ExprConstant", "ExprJoinedStr") and ".values[" in path and ra <= a and e <= re_ \
            and (ra, re_) in (d.get("reflits") or []):
        return "fstring-piece-range-in-concatenation"
    if kind == "ExprTuple" and path.endswith(".subject.range") and ra <= a and e <= re_ and \
            re.fullmatch(_P_OPEN, b[ra:a]) and re.fullmatch(rb"(?:" + _WS + rb"|[),])*", b[e:re_]):
        return "match-subject-tuple-range-excludes-element-parentheses"
    if (kind in COMPOUND or kind == "MatchCase") and a == ra and e < re_ and re.fullmatch(rb"(?:[ \t\f]|\\\r?\n|\\\r)*;", b[e:re_]):
        return "compound-end-excludes-trailing-semicolon"
    if kind == "ExprNamedExpr" and a == ra and e < re_ and re.fullmatch(rb"(?:" + _WS + rb"|\))+", b[e:re_]):
        return "namedexpr-range-excludes-value-parentheses"
    if ".values[" in path and b"\r\n" in b:
        k = ra - a
        if k > 0 and re_ - e == k:
            # the enclosing string literal contains k CR LF pairs before the field
            lit = d.get("lit")
            if lit is not None and b[lit[0]:ra].count(b"\r\n") >= k:
                return "fstring-field-range-after-crlf"
    return None


def _attach_literal(ds, impl_tree, ref_tree=None):
    """for differences inside a JoinedStr: remember the range of the outermost enclosing JoinedStr"""
    for d in ds:
        if ".values[" not in d["path"]:
            continue
        if ref_tree is not None:
            d["reflits"] = _outer_joined(ref_tree, d["path"], every=True)
        d["lit"] = _outer_joined(impl_tree, d["path"])


def _outer_joined(tree, path, every=False):
    if True:
        if True:
            pass
        cur = tree
        lit = None
        allj = []
        d = {"path": path}
        if not isinstance(cur, (str, list)) and cur[0] == "ExprJoinedStr":
            allj.append(cur[1])         # the tree itself is the literal (bodies of Expression-mode parses)
            lit = cur[1]
        for step in re.findall(r"\.([a-z_]+)|\[(\d+)\]", d["path"].rsplit(".range", 1)[0]):
            try:
                if step[0]:
                    cur = dict(cur[2])[step[0]]
                else:
                    cur = cur[int(step[1])]
            except Exception:
                break
            if not isinstance(cur, (str, list)) and cur[0] == "ExprJoinedStr":
                allj.append(cur[1])
                if lit is None:
                    lit = cur[1]
        return allj if every else lit


_REFS = {}


def judge(src, mode, out, ref, want_ref=True):
    """failure string or None; `[known:…]` suffix when every problem is a listed shape"""
    if out.startswith("(err"):
        return None                     # not "successfully parsed": C01's business
    if out in ("(panic)", "(abort)", "(timeout)") or out.startswith("(dump-error"):
        return "implementation " + out
    b = src.encode("utf-8")
    tree = pyref.sexp(out)
    rt = pyref.sexp(ref) if want_ref and ref is not None else None
    return judge_trees(b, tree, rt)


def judge_trees(b, tree, rt):
    """structural rules + extent rules on the implementation's tree, then every positioned range against the
    reference tree `rt` (None: no reference comparison)"""
    problems = []           # (description, key or None)
    for item in structural(b, tree):
        problems.append((f"structure: {item}", classify_struct(item)))
    for item, node, parent, why in extents(b, tree):
        problems.append((f"{item} {node[1]} = {b[node[1][0]:node[1][1]][:50]!r}: {why}", classify_extent(item, node, parent, b)))
    if rt is not None:
        impl = pyref.strip_ranges(tree, pyref.UNPOSITIONED_KINDS)
        ds = [d for d in refsweep.all_diffs(impl, rt, limit=400) if d["path"].endswith(".range")]
        _attach_literal(ds, impl, rt)
        for d in ds:
            x, y = d["impl"], d["ref"]
            problems.append((f"{x[0]} at {d['path'][:-6]}: range {x[1][0]}..{x[1][1]} "
                             f"{b[x[1][0]:x[1][1]][:40]!r} but the reference extent is {y[1][0]}..{y[1][1]} "
                             f"{b[y[1][0]:y[1][1]][:40]!r}", classify_refdiff(d, b)))
    if not problems:
        return None
    unknown = [p for p, k in problems if k is None]
    if unknown:
        return unknown[0] + (f" (+{len(problems) - 1} more)" if len(problems) > 1 else "")
    keys = []
    for _, k in problems:
        if k not in keys:
            keys.append(k)
    return problems[0][0] + f" [known:{','.join(keys)}]"


def _drop_ctx(t):
    """the tree without its `ctx` fields (pvh_c01 strips them: the Lean model has no expression context)"""
    if isinstance(t, str):
        return t
    if isinstance(t, list):
        return [_drop_ctx(x) for x in t]
    return (t[0], t[1], [(f, _drop_ctx(v)) for f, v in t[2] if f != "ctx"])


_RX_VERDICT = {}        # (request, implementation answer) -> verdict; filled in parallel by pre_build (memo only)


def judge_rexpr(req, out):
    """`rexpr <hex src> <spans>`: `out` is the ranged tree of the BODY of the Expression-mode parse.  Same rules
    as `judge`: structure, extents of the kinds CPython does not position, CPython's positions for the others."""
    if out.startswith("(err") or out == "stale-tokens":
        return None                     # rejected text / an attachment that is not this build's: not the property's business
    if not out.startswith("(Expr"):
        return "implementation " + out[:60]
    src = unhex(req.split()[1]).decode("utf-8")
    tree = pyref.sexp(out)
    ref = refsweep.reference(src, "e", None, ranges=True)
    rt = None
    if ref is not None:
        rt = _drop_ctx(dict(pyref.sexp(ref)[2])["body"])
    return judge_trees(src.encode("utf-8"), tree, rt)


def _judge_chunk(pairs):
    return [judge_rexpr(r, o) for r, o in pairs]


def oracle(req, out):
    ws = req.split()
    if ws[0] == "parse" and ws[2] != "0":
        # parsed at a start offset k: the ranges must be the extents moved by k (the statement "lies inside the input /
        # equals the construct's extent" for a text that starts at k); judged as the offset-0 answer after moving back
        k = int(ws[2])
        bad = [m.group(0) for m in re.finditer(r"@(\d+)\.\.(\d+)", out) if int(m.group(1)) < k or int(m.group(2)) < k]
        if bad:
            return f"parsed at start offset {k}: range {bad[0]} lies before the input"
        out0 = re.sub(r"@(\d+)\.\.(\d+)", lambda m: "@%d..%d" % (int(m.group(1)) - k, int(m.group(2)) - k), out)
        ws0 = list(ws)
        ws0[2] = "0"
        return oracle(" ".join(ws0), out0)
    if ws[0] == "parse":
        mode, erase, src, extra = refsweep.split_request(req)
        if req in _REFS:
            ref = _REFS[req]
        else:
            ref = None if extra else refsweep.reference(src, mode, None, ranges=True)
        return judge(src, mode, out, ref, want_ref=not extra)
    if ws[0] == "rexpr":
        k = (req, out)
        if k not in _RX_VERDICT:
            _RX_VERDICT[k] = judge_rexpr(req, out)
        return _RX_VERDICT[k]
    if ws[0] == "rprog":
        k = (req, out)
        if k not in _RP_VERDICT:
            known, ref, want = _RP_REFS.get(req, (False, None, True))
            _RP_VERDICT[k] = judge_rprog(req, out, known, ref, want)
        return _RP_VERDICT[k]
    if ws[0] == "rangesok":
        # the Python side of the agreement: structural verdict on the tree carried by the request
        src = unhex(ws[2]).decode("utf-8")
        tree = pyref.sexp(unhex(ws[3]).decode("utf-8"))
        if out != "ok":
            return f"harness does not reproduce the tree of the request: {out}"
        items = structural(src.encode("utf-8"), tree)
        if items:
            keys = [classify_struct(i) for i in items]
            tag = f" [known:{','.join(dict.fromkeys(keys))}]" if all(keys) else ""
            return "structure: " + ",".join(items) + tag
        return None
    return None


def classify(req, impl_out, model_out, failure):
    ws = req.split()
    if ws[0] == "rangesok":
        # Lean and Python must report the same violated checks; then the listed shapes are known findings
        py = failure[len("structure: "):].split(" [")[0] if failure and failure.startswith("structure: ") else ""
        lean = model_out[4:] if model_out and model_out.startswith("bad ") else ""
        if py != lean:
            return None
    if ws[0] in ("rexpr", "rprog") and impl_out != model_out:
        return None     # a listed shape is only accepted when the ranged model reproduces the tree exactly
    if failure:
        m = re.search(r"\[known:([^\]]+)\]$", failure)
        if m:
            return m.group(1).split(",")[0]
    return None


# ------------------------------------------------------------------------------------------------ streams

_LEAN_ITEMS = []

# ------------------------------------------------------------------------------------------------ ranged parser model
#
# Request `rexpr <hex src> <spans>`: `<spans>` = byte spans of the real lexer's tokens (pvh_c01 `lexspans e`), the
# attachment from which the Lean model `PV.C02.parseRExpression` (ranged twin of the reference expression parser)
# computes every range.  pvh_c01 answers the ranged tree of the real parse, drv_c02 the model's: byte-identical.
# The oracle judges the real tree exactly like the sweeps (structure, extents, CPython's positions).

RX_HARNESS = HARNESS            # ops `lexspans`, `rexpr` of pvh_c01 (all-ranges build)

# the listed findings that are expressions (the model reproduces each deviation; the oracle names it)
RX_FINDING_EXPRS = ["f(x for x in y)", "f( x for x in y )", "(y := (x))", "[y := (x)]", "lambda: 1", "lambda a=1: a", "lambda a=(1): a", "lambda a=( (b) ), *c: a",
                    "'a' f'{b}' 'c'", "f'{a}' f'{b:{c}}'"]

RX_LAYOUT = r"""
été + 'ü' * ñ
f(é, ü=1)
'😀'[é]
日本.ß(Ω)['€']
'é' 'ü' "日本"
f'é{ü}日本{ñ!r:>{ß}}€'
f'{é}' 'ü' f'{ñ}'
f'😀{é}😀{ü=}'
[é for é in 日本 if ü]
lambda é, ü=ñ, *ß, Ω, **日本: é
{'é': ü, **ñ}
é if ü else ñ
(é := ü)
é.ü.ñ
é[ü:ñ, ::ß]
'¡' + é # ü
f(日本 for 日本 in é)
'é'.ü('😀', ß='€')
((a))
(a) + (b)
((a) + b) * (c)
(a)(b)
(a)[b]
(a).b
((a).b)(c)[(d)]
f((a))
f((a), (b))
f(k=(a))
f(*(a))
f(**(a))
[(a)]
[(a), (b)]
((a), (b))
((a),)
{(a): (b)}
{(a)}
{**(a)}
(a) if (b) else (c)
not (a)
-(a)
(a) < (b) < (c)
(a) and (b)
(a) or (b) or (c)
lambda: (a)
lambda a=(b): (a)
(lambda: a)
[(a) for (b) in (c) if (d)]
((a) for (b) in (c))
{(a): (b) for (c) in (d)}
x[(a):(b):(c)]
x[(a), (b)]
x[(a, b)]
(yield (a))
(yield from (a))
await (a)
(await a)
((a := b))
[*(a)]
(*a, (b))
(a) ** (b)
((a, b))
(((a), b), c)
( a )
(  (  a  )  )
(a ) + ( b)
f ( a )
x [ a ]
(())
([])
({})
('a')
('a' 'b')
('a') + (f'{b}')
(f'{(a)}')
f'{((a))}'
f'{ (a) }'
f'{(a)!r}'
f'{(a):>{(b)}}'
(a)(b)(c)
(a.b)(c)
(a[b])(c)
(a(b))[c]
(a)(b).c
((a)(b))
(a) @ (b) @ (c)
((a) if b else c)
(a), (b)
(a),
((a)), ((b))
(a) is not (b)
(a) not in (b)
lambda a: a
lambda a, b: a
lambda a,: a
lambda a, /: a
lambda a, /, b: a
lambda a, /, b, *, c: a
lambda a=1, /, b=2, *c, d, e=3, **f: a
lambda *a: a
lambda *a,: a
lambda *, a: a
lambda *, a,: a
lambda *, a=1, b: a
lambda **k: k
lambda **k,: k
lambda a, *b, **k: a
lambda a, **k: a
lambda a, *, b, **k: a
lambda a=1, *b, c=2, **k: a
lambda  a ,  b = 1 : a
lambda a, /, *, b: a
lambda a, /, **k: a
lambda a, b=(1, 2), *c: a
lambda a=lambda b=1: b: a
lambda:0
lambda : 0
lambda*a:a
lambda**k:k
lambda a, /, b=1, *, c=2, **d,: a
lambda a, b,: a
lambda a=1,: a
lambda a, /,: a
lambda a, *b,: a
lambda a, *, b,: a
lambda: lambda: lambda a: a
lambda: (yield)
lambda *a, **k: (a, k)
[a for a in b]
[a for a in b for c in d]
[a for a in b if c if d for e in f if g]
[a async for a in b]
[a for a in b async for c in d]
[a for a, in b]
[a for a, b in c]
[a for (a, b) in c]
[a for a, b, in c]
[a for [a, b] in c]
[a for *a, b in c]
[a for a.b in c]
[a for a[0] in c]
{a for a in b}
{a: b for a, b in c}
{a: b for a in b if c}
(a for a in b)
(a for a in b if c)
f(a for a in b)
f( a for a in b )
f((a for a in b))
f(a for a in b if c)
f(a async for a in b)
f(a for a, in b)
[[a for a in b] for c in d]
[a for a in [b for b in c]]
[a for a in b if [c for c in d]]
[a for a in b if c or d]
[a for a in (b if c else d)]
[(a, b) for a in c]
[a if b else c for d in e]
[lambda: a for a in b]
[a for a in b if (lambda: c)]
[a for a in b if not c]
[a for a in b if c if not d]
{a async for a, in b if c}
{a: b async for a, b, in c if d if e}
(a async for a in b async for c in d)
a[::]
a[1:2, ::3]
a[b,]
a[*b]
a[*b,]
a[*b, c]
a[:]
a[1:]
a[:2]
a[::3]
a[1:2:3]
a[1::3]
a[:2:3]
a[b:c, d]
a[b, c:d]
a[(b, c)]
a[b][c]
a[b:c][d:e]
a[ b : c ]
a[b :c: d]
a[:,:]
a[...]
a[..., :]
a[b := 1]
a[lambda: 1]
a[b if c else d]
a[b if c else d:e]
a[-1]
a[-1:]
a[b, c]
a[b, c,]
a[:, ]
a[::, ::]
[*a]
[*a, b]
(*a,)
(*a, b)
*a,
*a, b
{*a}
{*a, *b}
f(*a)
f(*a, *b)
f(a, *b, c)
f(*a, k=1)
f(k=1, *a)
f(**a, **b)
f(*a or b)
f(* a)
f(** a)
[* a]
(yield)
(yield a)
(yield a, b)
(yield a,)
(yield *a, b)
(yield from a)
( yield )
(yield(a))
((yield))
[(yield)]
f((yield))
(yield) + 1
(yield lambda: a)
(yield a if b else c)
(yield (yield))
(yield from (yield))
f'{a}'
f'{a!r}'
f'{a:b}'
f'{a!s:b}'
f'{a:{b}}'
f'{a:{b}.{c}}'
f'{a:>{b}{c}}'
f'{a=}'
f'{a = }'
f'{a=!r}'
f'{a=:>5}'
f'{ a }'
f'{a }{ b}'
f'x{a}y{b}z'
f'{{{a}}}'
f'{{a}}'
f'{a}{{'
f'{a + b}'
f'{a[b]}'
f'{a.b(c)}'
f'{a, b}'
f'{[a for a in b]}'
f'{ {a: b} }'
f'{(lambda: a)}'
f'{(a := b)}'
f'{a if b else c}'
f'{f"{a}"}'
f'{f"{a:{b}}"}'
f"{'a'}"
f"{a['b']}"
f'{a!r:{b}>{c}}'
f'{a:{b!r}}'
f'{a:{b:c}}'
f'\n{a}'
f'\x41{a}\t{b}'
f'é{a}ü{b}'
f'{a}' f'{b}'
'a' f'{b}'
f'{a}' 'b'
'a' 'b' f'{c}' 'd' f'{e}'
f'a' 'b'
f'' f''
'' f'{a}' ''
rf'{a}\d'
fr'\{a}'
Rf'{a}'
F'{a}'
fR'{a}'
rf'{a:\d}'
f'''{a}'''
f'{a}{b}{c}'
f'{a}' + f'{b}'
f(f'{a}', f'{b}')
[f'{a}' 'b', 'c' f'{d}']
f'{a:{b}}' 'c' f'{d!r:{e}}'
f'{a=}' f'{b = !s}'
f'{a:>10}' '' f'{b:<{c}}'
'a' 'b'
'a' "b" '''c'''
b'a' b'b'
'a' 'b' + 'c' 'd'
f('a' 'b', 'c')
['a' 'b']
'a' 'b'[0]
('a' 'b').c
'é' 'ü'
'😀' '日本'
u'a' 'b'
r'a' 'b' R'c'
a if b else c
a if b else c if d else e
a.b.c
a.b(c).d[e]
a(b)(c)
a()()
f()
f(a)
f(a,)
f(a, b)
f(a, k=1)
f(k=1)
f(k=1,)
f(k = 1)
f(k=a if b else c)
f(**k)
f(a, *b, k=1, **c)
f( k = 1 , **c )
f(k=1, l=2)
f(a, k=lambda: 1)
f(k=(yield))
f(k=[a for a in b])
1 if 2 else 3
a<b
a is not b
a not in b
a is  not b
a not  in b
not a
not not a
- a
~ a
a**b
a**-b
a @ b
await a
await a.b
await a(b)
await a[b]
...
None
True
1
1.5
1j
's'
b's'
()
(a,)
a,
a, b
a, b,
(a, b)
[ ]
{ }
( )
[a]
[a,]
[a, b,]
{a}
{a,}
{a: b}
{a: b,}
{a: b, c: d}
{**a}
{**a,}
{a: b, **c}
{**a, b: c}
{ a : b }
{ ** a }
""".strip("\n").split("\n")

RX_LAYOUT_ML = [
    "[\n a, # c\n b]", "f(\n x,\n y=1,\n)", "{\n 1: 2, # c\n **d}", "(a +\n b)", "(\n a\n)", "(  # c\n a,\n b,\n)",
    "[a\n for a in b\n if c\n]", "f(a\n for a in b)", "f(\n a for a in b\n)", "x[\n 1:2,\n ::3\n]",
    "(lambda\n a,\n b=1\n : a)", "{a,\n b}", "(yield\n a)", "(a if\n b else\n c)", "f(**\n k)", "(a\n .b\n .c)", "(not\n a)",
    "(a\n <\n b\n <= c)", "(a and\n b or\n c)", "(-\n a)", "(await\n a)", "(a :=\n 1)", "f(\n)", "[\n]", "{\n}", "(\n)",
    "(a)\n", "a # c", "a  \n\n", "a\n# c\n", "(a, # é\n b)", "[ # 日本\n 'ü', # 😀\n é]", "f(k # c\n =\n 1)",
    "(lambda\n a, # c\n /,\n b=1, *c,\n d, **e\n : a)", "(lambda # c\n : a)", "(lambda *, # c\n a: a)",
    "[a for a, # c\n in b]", "{a: b\n for a in c\n if d # c\n if e}", "(a\n async for a\n in b)",
    "x[a, # c\n]", "x[\n:\n:\n]", "(\n(\na\n)\n)", "(a, (\n b), c)", "f(a)(\n b)[\n c]", "(a\n)(b)", "(a)\\\n+ b", "a + \\\n b",
    "f'''\n{a}\n'''", "f'''a\n{b}\nc{d}\n'''", "f'''{a}\n''' f'{b}'", "f'''é\n{a}''' 'ü'", 'f"""\n\n{a}{b}\n"""',
    "f'''{\na\n}'''", "f'''{a:\n}'''", "f'''\n\n{a=}\n{b!r:>{c}}'''", "rf'''\\d\n{a}\\\n'''", "(f'{a}'\n f'{b}')",
    "('a'\n f'{b}'\n 'c')", "('a' # c\n 'b')", "('''a\nb''' 'c')", "'''é\nü''' + ñ", "'''a\n''' f'''{b}\n''' '''\nc'''",
    "f'''{a}''' f'''\n{b}''' f'{c}'", "[f'''\n{a}''',\n f'{b}']", "f'''\n{f'{a}'}\n'''", "f'''{a\n+ b}'''", "f'''😀\n日本{é}'''",
]


class _no_c11_finding_filter:
    """C11's generators keep C11's (unparse) finding shapes out of its streams; ranges do not depend on them"""

    def __enter__(self):
        self.saved = c11.finding_shapes
        c11.finding_shapes = lambda tree: set()

    def __exit__(self, *a):
        c11.finding_shapes = self.saved


def line_break_in_field(src):
    """a line break between the braces of a replacement field of a (triple-quoted) f-string"""
    if "\n" not in src or "{" not in src:
        return False
    try:
        toks = list(tokenize.generate_tokens(io.StringIO(src).readline))
    except (tokenize.TokenError, IndentationError, SyntaxError):
        return True
    for t in toks:
        if t.type != tokenize.STRING or "\n" not in t.string:
            continue
        pre = re.match(r"[A-Za-z]*", t.string).group(0)
        if "f" not in pre.lower():
            continue
        body = t.string[len(pre) + 3:-3]
        i, depth = 0, 0
        while i < len(body):
            ch = body[i]
            if ch == "{":
                if depth == 0 and body[i + 1:i + 2] == "{":
                    i += 2
                    continue
                depth += 1
            elif ch == "}":
                if depth == 0 and body[i + 1:i + 2] == "}":
                    i += 2
                    continue
                depth = max(0, depth - 1)
            elif ch == "\n" and depth > 0:
                return True
            i += 1
    return False


def _rx_ok(s):
    """inside the domain of the Lean tokenizer, accepted by CPython (the reference), known characters only; no line
    break inside a replacement field (CPython 3.11 positions the nodes of such a field relative to the wrong line,
    so there is no reference extent; the module-mode sweeps leave the shape out for the same reason)"""
    if not s or len(s) > 2000 or not c11.in_lexer_domain(s) or line_break_in_field(s):
        return False
    t = c11.py_tree(s)
    if t is None:
        return False
    if s.isascii() and "\\" not in s:
        return True                 # no way to write a character outside the known set
    return c11.tree_in_domain(t)


def _expr_spans(tree, b):
    starts = pyref.line_starts(b)
    spans = set()
    for n in ast.walk(tree):
        if isinstance(n, ast.expr) and getattr(n, "end_lineno", None) is not None:
            a = starts[n.lineno - 1] + n.col_offset
            e = starts[n.end_lineno - 1] + n.end_col_offset
            if a < e:
                spans.add((a, e))
    return sorted(spans, key=lambda r: (r[0], -r[1]))


def paren_variants(src, styles=(("(", ")"), ("( ", " )"), ("(\n ", " # c\n)"))):
    """`src` with one redundant pair of parentheses around one sub-expression occurrence (CPython's positions pick
    the slice), for every occurrence and style, plus one variant with every admissible occurrence wrapped at once;
    only variants CPython still reads as the same tree"""
    tree = c11.py_tree(src)
    if tree is None:
        return []
    base = ast.dump(tree)
    b = src.encode("utf-8")
    out, good = [], []

    def same(v):
        t = c11.py_tree(v)
        return t is not None and ast.dump(t) == base
    for a, e in _expr_spans(tree, b):
        ok = False
        for k, (o, c) in enumerate(styles):
            try:
                v = (b[:a] + o.encode() + b[a:e] + c.encode() + b[e:]).decode("utf-8")
            except UnicodeDecodeError:
                break
            if same(v):
                out.append(v)
                ok = ok or k == 0
        if ok:
            good.append((a, e))
    if len(good) > 1:
        ins = {}
        for a, e in good:
            ins.setdefault(a, [0, 0])[1] += 1
            ins.setdefault(e, [0, 0])[0] += 1
        parts, last = [], 0
        for p in sorted(ins):
            parts.append(b[last:p] + b")" * ins[p][0] + b"(" * ins[p][1])
            last = p
        parts.append(b[last:])
        v = b"".join(parts).decode("utf-8")
        if same(v):
            out.append(v)
    return out


def trivia_variants(src, singles=True):
    """blanks / line break / comment + line break after every `(` `[` `{` `,` and before every `)` `]` `}` that
    lies inside brackets (string tokens, hence f-string bodies, are never touched)"""
    tree = c11.py_tree(src)
    if tree is None:
        return []
    base = ast.dump(tree)
    try:
        toks = list(tokenize.generate_tokens(io.StringIO(src).readline))
    except (tokenize.TokenError, IndentationError, SyntaxError):
        return []
    lines = src.split("\n")
    ls = [0]
    for ln in lines:
        ls.append(ls[-1] + len(ln) + 1)
    depth, pos = 0, []
    for t in toks:
        if t.type != tokenize.OP:
            continue
        if t.string in "([{":
            depth += 1
            pos.append(ls[t.end[0] - 1] + t.end[1])
        elif t.string in ")]}":
            pos.append(ls[t.start[0] - 1] + t.start[1])
            depth -= 1
        elif t.string == "," and depth > 0:
            pos.append(ls[t.end[0] - 1] + t.end[1])
    pos = sorted(set(pos))
    if not pos:
        return []

    def put(where, text):
        parts, last = [], 0
        for p in where:
            parts.append(src[last:p] + text)
            last = p
        return "".join(parts) + src[last:]
    out = []
    cands = [put(pos, " "), put(pos, "\n"), put(pos, "  # c\n  "), put(pos[::2], "\n\n"), put(pos[1::2], " # é 日本\n")]
    if singles:
        cands += [put([p], "\n# é\n") for p in pos]
    for v in cands:
        t = c11.py_tree(v)
        if v != src and t is not None and ast.dump(t) == base:
            out.append(v)
    return out


_MB_NAMES = {"a": "é", "b": "ü", "c": "ñ", "x": "été", "y": "日本", "z": "ß_", "foo": "Ω", "x1": "é1", "p": "日", "q": "本ü",
             "k": "ñé", "d": "Ωß", "w": "üü"}
_MB_IN_F = re.compile(r"(?<![\w'\"\\!.])(" + "|".join(sorted(_MB_NAMES, key=len, reverse=True)) + r")(?![\w'\"(=])")


def multibyte_variant(src):
    """identifiers replaced by multi-byte names (also inside f-string bodies, where every following offset of the
    re-based field expressions moves); None when nothing changes or CPython rejects the result"""
    try:
        toks = list(tokenize.generate_tokens(io.StringIO(src).readline))
    except (tokenize.TokenError, IndentationError, SyntaxError):
        return None
    lines = src.split("\n")
    ls = [0]
    for ln in lines:
        ls.append(ls[-1] + len(ln) + 1)
    parts, last = [], 0
    for t in toks:
        a, e = ls[t.start[0] - 1] + t.start[1], ls[t.end[0] - 1] + t.end[1]
        new = None
        if t.type == tokenize.NAME and not keyword.iskeyword(t.string) and t.string in _MB_NAMES:
            new = _MB_NAMES[t.string]
        elif t.type == tokenize.STRING:
            m = re.match(r"[A-Za-z]*", t.string)
            pre = m.group(0).lower()
            if "f" in pre:
                body = t.string[len(pre):]
                new = t.string[:len(pre)] + _MB_IN_F.sub(lambda mo: _MB_NAMES[mo.group(1)], body)
            elif "b" not in pre and t.string[len(pre):len(pre) + 3] not in ("'''", '"""'):
                new = t.string[:len(pre) + 1] + "é😀" + t.string[len(pre) + 1:]
        if new is not None and new != t.string:
            parts.append(src[last:a] + new)
            last = e
    if not parts:
        return None
    v = "".join(parts) + src[last:]
    return v if _rx_ok(v) else None


def _variants_chunk(args):
    kind, srcs = args
    out = []
    for s in srcs:
        if kind == "paren":
            out += paren_variants(s)
        elif kind == "paren-all":
            out += paren_variants(s, styles=(("(", ")"),))[-1:]
        elif kind == "trivia":
            out += trivia_variants(s)
        elif kind == "trivia-all":
            out += trivia_variants(s, singles=False)[:3]
        elif kind == "mb":
            v = multibyte_variant(s)
            if v:
                out.append(v)
    return [v for v in out if _rx_ok(v)]


def _par(kind, srcs, chunk=200):
    jobs = [(kind, srcs[i:i + chunk]) for i in range(0, len(srcs), chunk)]
    if len(jobs) <= 1:
        return [x for j in jobs for x in _variants_chunk(j)]
    with ProcessPoolExecutor(refsweep.NPROC) as ex:
        return [x for r in ex.map(_variants_chunk, jobs) for x in r]


def _uniq(srcs, seen=None, check=True):
    """distinct texts inside the streams' domain (`check=False`: the producer has applied `_rx_ok` already, or is a
    C11 generator, which applies the same three filters itself; only the line-break-in-field rule is added)"""
    seen = set() if seen is None else seen
    out = []
    for s in srcs:
        if s not in seen and (_rx_ok(s) if check else not line_break_in_field(s)):
            seen.add(s)
            out.append(s)
    return out


def _fam_job(args):
    """one family of C11's generators (run in a worker process; deterministic in the Random objects passed in)"""
    what, q, rngs = args
    with _no_c11_finding_filter():
        if what == "directed":
            return c11.directed_requests(full=True)
        if what == "stdlib":
            return c11.stdlib_expressions(300 if q else 2000, rngs[0], 30 if q else 100)
        cs = c11.constant_sources(rngs[0], 600 if q else 4000)
        consts = ["0", "1", "42", "1.5", "1e100", "2j", "'s'", '"d"', "b'b'", "'it\\'s'", "0xff", "1_0", "''", "'\\n'",
                  "10 ** 20", "1e-7", "3.14j", "'é'", "u'u'", "'😀'", "'日本' 'ü'"] + cs[:200:7]
        consts = [c for c in consts if " " not in c or c.startswith(("'", '"'))]
        return cs, c11.random_sources(rngs[1], 20000 if q else 120000, consts)


def rx_families(ctx):
    """[(stream name, kind, exhaustive, note, [source])] — deterministic in ctx.rng"""
    q = ctx.quick
    fams = []
    with ProcessPoolExecutor(3) as ex:
        fut = [ex.submit(_fam_job, ("directed", q, ())),
               ex.submit(_fam_job, ("random", q, (ctx.rng("rx-constants"), ctx.rng("rx-random")))),
               ex.submit(_fam_job, ("stdlib", q, (ctx.rng("rx-stdlib"),)))]
        corpus = _uniq(RX_FINDING_EXPRS + c11.CORPUS + [s for k in c11.FINDING_PROBES for s in c11.FINDING_PROBES[k]]
                       + RX_LAYOUT + RX_LAYOUT_ML)
        pv = _uniq(_par("paren", corpus, chunk=40), check=False)
        pv += _uniq(_par("trivia", corpus, chunk=40), set(pv), check=False)
        directed, (cs, rs), hs = [f.result() for f in fut]
    fams.append(("corpus", "corpus", False,
                 "the listed findings that are expressions, C11's regression corpus and finding probes, hand-written "
                 "layouts: multi-byte names and strings, line breaks and comments inside brackets, redundant "
                 "parentheses, every lambda parameter-list shape, comprehensions, slices, starred, yield, f-strings "
                 "(nested specs, conversions, `=`, concatenation, raw, triple-quoted with line breaks)", corpus))
    fams.append(("directed-slot-x-kind", "exhaustive", True,
                 "every admissible (parent slot, child kind) pair with the child parenthesised and bare, every ordered "
                 "operator pair on both nesting sides, every comparison operator x operand kind, every slot-in-slot "
                 "nesting for six child kinds (C11's enumeration)", _uniq(directed, check=False)))
    fams.append(("parens-and-trivia-everywhere", "directed", False,
                 "every corpus text with one redundant pair of parentheses (three spacings, one with a line break and a "
                 "comment) around each sub-expression occurrence CPython positions, all of them at once, and blanks / "
                 "line breaks / comments after every opening bracket and comma and before every closing bracket", pv))
    fams.append(("constants", "random", False,
                 "number, string and bytes literals of every spelling (token spans of long and escaped literals)",
                 _uniq(cs, check=False)))
    rs = _uniq(rs, check=False)
    fams.append(("random-expressions", "random", False,
                 "grammar-directed random expressions over the whole fragment (C11's generator: lambda parameter lists, "
                 "comprehensions, slices, starred, f-strings with specs, redundant parentheses)", rs))
    sub = rs[:(6000 if q else 40000)]
    mb = _uniq(_par("mb", sub), check=False)
    fams.append(("random-expressions-multibyte", "random", False,
                 "the same with identifiers (also inside f-string fields) replaced by multi-byte names and multi-byte text "
                 "put into string literals", mb))
    sub = rs[-(4000 if q else 30000):]
    lay = _uniq(_par("paren-all", sub), check=False)
    lay += _uniq(_par("trivia-all", sub), set(lay), check=False)
    fams.append(("random-expressions-relaid", "random", False,
                 "random expressions with every sub-expression parenthesised at once / with blanks, line breaks and comments "
                 "inside every bracket", lay))
    fams.append(("cpython-stdlib-expressions", "corpus", False,
                 "expressions harvested from CPython 3.11 standard-library files (ast.unparse-normalised)",
                 _uniq(hs, check=False)))
    return fams


_RX_STREAMS = []        # (name, kind, exhaustive, note, [request]) — built by pre_build (needs the real lexer's spans)


def build_rexpr_streams(ctx):
    """sources -> `lexspans e` (real token spans) -> `rexpr` requests; texts the real lexer or parser rejects are
    dropped (the property quantifies over successfully parsed text); verdicts of the oracle are pre-computed in
    parallel (memo of `judge_rexpr`, nothing else)"""
    rc, out, hbin = core.cargo_build(RX_HARNESS["bin"], RX_HARNESS["features"])
    if rc != 0:
        return [("harness build for the ranged-parser-model streams", False, out[-300:])]
    del _RX_STREAMS[:]
    total = dropped = 0
    pairs = []
    for name, kind, exh, note, srcs in rx_families(ctx):
        sp = core.run_lines([hbin], [f"lexspans e {hexs(s)}" for s in srcs], jobs=8)
        # only a regular rejection `(err …)` removes a text; a panic / abort stays in and is judged by the oracle
        reqs = [f"rexpr {hexs(s)} {p if re.fullmatch(r'[0-9,-]+', p) else '-'}" for s, p in zip(srcs, sp)
                if not p.startswith("(err")]
        outs = core.run_lines([hbin], reqs, jobs=8)
        keep = [(r, o) for r, o in zip(reqs, outs) if not o.startswith("(err")]
        dropped += len(srcs) - len(keep)
        total += len(keep)
        pairs += keep
        _RX_STREAMS.append((name, kind, exh, note, [r for r, _ in keep]))
    todo = [p for p in dict.fromkeys(pairs) if p not in _RX_VERDICT]
    if todo:
        chunks = [todo[i:i + 500] for i in range(0, len(todo), 500)]
        with ProcessPoolExecutor(refsweep.NPROC) as ex:
            for ch, vs in zip(chunks, ex.map(_judge_chunk, chunks)):
                for p, v in zip(ch, vs):
                    _RX_VERDICT[p] = v
    return [("requests of the ranged-parser-model streams (real token spans attached)", total > 0,
             f"{total} requests; {dropped} texts rejected by the real lexer/parser left out")]


def _rx_nontrivial(r):
    try:
        s = unhex(r.split()[1]).decode("utf-8")
    except Exception:
        return False
    return any(c in s for c in "+-*/%@<>=|&^~([{.,: ")




# ------------------------------------------------------------------------------------------------ ranged PROGRAM parser model
#
# Request `rprog <mode> <hex src> <tokens> <spans>`: `<tokens> <spans>` = the real token stream after the soft-keyword
# pass (pvh_c01 `rtoks`; item syntax of `pvh_prog toks`, `\N{…}` escapes rewritten like PROG's attachments) and the
# byte spans of those tokens — the attachment from which the Lean model `PV.C02.parseRProgram` (ranged twin of the
# reference program parser `PV.Prog.parseProgram`) computes the range of EVERY node of a Module / Interactive /
# Expression parse.  pvh_c01 answers the ranged canonical tree of the real parse (ctx fields removed), drv_c02 the
# model's: byte-identical.  The oracle judges the real tree like the sweeps (structure, extents, CPython's positions).

_RP_STREAMS = []        # (name, kind, exhaustive, note, [request])
_RP_REFS = {}           # request -> (reference known?, reference tree text or None, compare with a reference?)
_RP_VERDICT = {}        # (request, implementation answer) -> verdict (memo, filled in parallel by pre_build)

RP_FINDING_PROGRAMS = [("m", s) for _, _, s in PROBES] + [
    ("m", "match x,:\n case _: pass\n"), ("m", "match a, b,:\n case _: pass\n"), ("m", "match (a), (b):\n case _: pass\n"),
    ("m", "while a: b; c;\n"), ("m", "for x in y:\n    a;\nelse:\n    b;\n"), ("m", "try:\n a;\nfinally:\n b;\n"),
    ("m", "try:\n a\nexcept E:\n b;\n"), ("m", "class C:\n    x = 1;\n"), ("m", "def f():\n    return 1;\n"),
    ("m", "with a:\n    b;\n"), ("m", "if a:\n b\nelif c:\n d;\n"), ("m", "match x:\n case 1:\n  a;\n"),
    ("m", "async def f():\n async with a: b;\n"), ("m", "def f(a=(1), *, b=((2))): pass\n"), ("i", "if a:\n    b;\n"),
    ("m", "with ((a := (b)), c): pass\n"), ("m", "with ((a := ((b) )), (c := (yield d))): pass\n"),
]

RP_LAYOUT = [
    # decorated definitions start at `def` / `class` / `async`; decorators lie in front
    "@d\ndef f(): pass\n", "@d\n@e(1)\nclass C: pass\n", "@d\nasync def f(): pass\n", "@ d . e\n\n# c\n@f()\ndef g(): pass\n",
    "@(yield)\ndef f(): pass\n", "@a if b else c\nclass C(d): pass\n", "class C:\n    @p\n    def f(self): pass\n",
    # compound statements end at the end of their last statement
    "if a:\n    b\nelif c:\n    d\nelif e:\n    f\nelse:\n    g\nh\n", "if a: b\nelif c: d\n", "if a:\n  if b:\n    c\n  else:\n    d\n",
    "while a:\n    b\nelse:\n    c\n", "for i in a: b\nelse: c\n", "async def f():\n async for x in y: pass\n else: pass\n",
    "try:\n a\nexcept E as e:\n b\nelse:\n c\nfinally:\n d\n", "try:\n a\nexcept* (E, F) as g:\n b\nexcept* H:\n c\n",
    "try:\n a\nfinally:\n b\n", "try:\n a\nexcept:\n b\n", "try:\n a\nexcept E:\n b\nelse:\n c\n", "try:\n a\nexcept E:\n b\nfinally:\n c\n",
    "def f():\n    def g():\n        pass\n    return g\n", "class C:\n    class D:\n        x = 1\n", "if a:\n    pass\n\n\n# c\n\nb\n",
    "def f(): pass  # c\n", "if a:\n    b  # c\n    # d\nc\n", "if a:\r\n    b\r\nelse:\r\n    c\r\n", "if a:\r    b\rc\r", "\ufeffif a:\n\tb\n\tc\n",
    "if a:\n    x = (1 +\n         2)\n", "if a:\n    x = 1 + \\\n        2\n", "if a:\n    \"\"\"s\n    t\"\"\"\n", "def f(): return; \n", "def f(): a; b\n",
    # with items
    "with a: pass\n", "with a as b: pass\n", "with a, b as c: pass\n", "with (a): pass\n", "with (a, b): pass\n", "with (a, b,): pass\n",
    "with (a as b): pass\n", "with (a as b, c): pass\n", "with (a, b as c, d): pass\n", "with ((a), (b) as c, (d)): pass\n", "with (a, b) as c: pass\n",
    "with (a, b) as c, (d): pass\n", "with (a), b: pass\n", "with (a).b: pass\n", "with (yield): pass\n", "with (yield a, b): pass\n",
    "with (x for x in y): pass\n", "with (): pass\n", "with (a := 1): pass\n", "with (a := 1, b): pass\n", "with (*a,): pass\n", "with (*a, b): pass\n",
    "with (a, *b): pass\n", "with (\n a ,  # c\n b as c ,\n): pass\n", "with é as ü, 'ß' as ñ: pass\n", "async def f():\n async with (a as b, c): pass\n",
    "with a as (b, c): pass\n", "with a as [b, c], d as e.f, g as h[0]: pass\n", "with (a if b else c) as d: pass\n", "with (lambda: 1): pass\n",
    # parameters
    "def f(): pass\n", "def f( ): pass\n", "def f(\n): pass\n", "def f(a): pass\n", "def f(a,): pass\n", "def f(a, /): pass\n", "def f(a, /, b): pass\n",
    "def f(a, /, b, *, c): pass\n", "def f(a: int = 1, /, b: 'é' = 2, *c: x, d, e: y = 3, **g: z): pass\n", "def f(*a): pass\n", "def f(*, a): pass\n",
    "def f(*, a=1, b): pass\n", "def f(**k): pass\n", "def f(**k,): pass\n", "def f(a, **k): pass\n", "def f(a=(1)): pass\n", "def f(a: (int) = (1)): pass\n",
    "def f(a: (int)): pass\n", "def f(*a: (int)): pass\n", "def f(*a: *b): pass\n", "def f(**k: (int)): pass\n", "def f(\n a,  # c\n b=1,\n *,\n c,\n): pass\n",
    "def f(a = 1 , b : int = 2 ,) -> (r): pass\n", "def f(a=lambda b=1: b): pass\n", "def é(ü, *ß, ñ=1, **Ω): pass\n", "def f[T](a: T) -> T: pass\n",
    "def f[T: int, *U, **V](a): pass\n", "class C[T, *U](a, k=1): pass\n", "class C(): pass\n", "class C(a, *b, k=1, **c): pass\n", "class C(a,): pass\n",
    "type X = int\n", "type X[T] = list[T]\n", "type X[T: (int), *U, **V] = T\n", "type = 1\ntype X = type\n",
    # imports, aliases
    "import a\n", "import a.b.c\n", "import a as b\n", "import a.b as c, d, e.f\n", "import a . b as c\n", "from a import b\n", "from a import b as c, d\n",
    "from a import (b)\n", "from a import (b as c, d,)\n", "from a import (\n b,  # c\n c as d,\n)\n", "from . import a\n", "from .. import a\n", "from ... import a\n",
    "from .... import a\n", "from .a import b\n", "from . a . b import c\n", "from a import *\n", "from . import *\n", "from é import ü as ñ\n",
    # simple statements
    "pass\n", "break\n", "continue\n", "return\n", "return a\n", "return a,\n", "return a, b\n", "return (a)\n", "del a\n", "del a,\n", "del a, b\n", "del (a), [b]\n",
    "raise\n", "raise a\n", "raise a from b\n", "raise (a) from (b)\n", "assert a\n", "assert a, b\n", "assert (a), (b)\n", "global a\n", "global a, b\n", "nonlocal a, b\n",
    "a\n", "a,\n", "a, b\n", "(a)\n", "a = 1\n", "a = b = 1\n", "a = b = c, = 1,\n", "(a) = (b) = (1)\n", "a, b = c\n", "a += 1\n", "a += b,\n", "a //= (b)\n", "(a) **= 1\n",
    "a: int\n", "a: int = 1\n", "(a): int = 1\n", "a.b: int\n", "a[0]: int = 1\n", "a: (int) = (1)\n", "a = yield\n", "a = yield b\n", "a += yield b\n", "a: int = yield\n",
    "yield\n", "yield a\n", "yield a, b\n", "yield from a\n", "yield (a)\n", "a = yield from (b)\n", "x = 1; y = 2\n", "x = 1; y = 2;\n", "x = 1 ;  y = 2 ; \n",
    "*a, b = c\n", "a = *b, c\n", "*a,\n", "a = b if c else d\n", "lambda: 1\n", "x = lambda: 1\n", "f(lambda : 0, lambda: (yield))\n",
    # match
    "match x:\n case 1: pass\n", "match x:\n case a: pass\n", "match x:\n case _: pass\n", "match x:\n case (a): pass\n", "match x:\n case ((a)): pass\n",
    "match x:\n case (a,): pass\n", "match x:\n case a,: pass\n", "match x:\n case a, b: pass\n", "match x:\n case a, b,: pass\n", "match x:\n case (a, b): pass\n",
    "match x:\n case [a, b]: pass\n", "match x:\n case []: pass\n", "match x:\n case (): pass\n", "match x:\n case [a, *b]: pass\n", "match x:\n case [*_]: pass\n",
    "match x:\n case *a, b: pass\n", "match x:\n case {}: pass\n", "match x:\n case {1: a}: pass\n", "match x:\n case {1: a,}: pass\n", "match x:\n case {**r}: pass\n",
    "match x:\n case {**r,}: pass\n", "match x:\n case {1: a, 'b': c, **r}: pass\n", "match x:\n case {a.b: c, None: d, True: e, -1: f, 1+2j: g}: pass\n",
    "match x:\n case C(): pass\n", "match x:\n case C(a): pass\n", "match x:\n case C(a,): pass\n", "match x:\n case C(a, b=c): pass\n", "match x:\n case C(a=b,): pass\n",
    "match x:\n case a.b.C(d, e=f, g=h): pass\n", "match x:\n case a.b: pass\n", "match x:\n case a.b.c: pass\n", "match x:\n case 1 | 2: pass\n",
    "match x:\n case 1 | (2 | 3): pass\n", "match x:\n case (1 | 2) as y: pass\n", "match x:\n case a as b: pass\n", "match x:\n case [a as b, c] as d: pass\n",
    "match x:\n case -1: pass\n", "match x:\n case 1+2j: pass\n", "match x:\n case -1-2j: pass\n", "match x:\n case 'a' 'b': pass\n", "match x:\n case b'a': pass\n",
    "match x:\n case None | True | False: pass\n", "match x:\n case a if b: pass\n", "match x:\n case a if (b := c): pass\n", "match x:\n case a, b if c: pass\n",
    "match x:\n case 1:\n  pass\n case 2:\n  pass\n", "match x, y:\n case a, b: pass\n", "match x,:\n case a,: pass\n", "match (x):\n case a: pass\n", "match (x, y):\n case a: pass\n",
    "match *x, y:\n case a: pass\n", "match x := y:\n case a: pass\n", "match [x]:\n case a: pass\n", "match x:\n case a:\n  match y:\n   case b: pass\n",
    "match x:\n case (\n  a,  # c\n  b,\n ): pass\n", "match x:\n case é | 'ü': pass\n", "match = 1\nmatch[0]\ncase = match\n",
    # module layout
    "", "\n", "\n\n", "# c\n", "# c", "  \n", "x", "x\n\n\n", "\n\n  \nx = 1\n\n\n", "\ufeff", "\ufeffx\n", "\ufeff\n# c\nx\n", "x = 1 # c", "\\\nx\n", "x = 1\\\n", "\"\"\"d\"\"\"\nx\n",
    "x\r\ny\r\n", "x\ry\r", "x\n\r\ny\r", "if a:\n  b\n\n  # c\n\n  c\nd", "if a:\n  b\n # c\nd\n", "if a:\n  b\n# c\n  c\n", "def f():\n\n  a\n\n\n  b\n",
]

RP_EXPRESSIONS = ["x", " x ".strip(), "(a,\n b)", "f(é)", "a if b else c\n\n", "[x for x in y]  # c", "a,", "a, b,", "*a, b", "lambda: 1", "f'{a}' 'b'",
                  "x\n", "x\n\n\n", "x  \n  \n", "(yield)", "\ufeffx", "a\r\n", "(\n a\n)\r\n\r\n"]


def _rp_named_escape_in_fstring(t):
    """an f-string token with a `\\N{NAME}` escape: the attachment rewriting (`\\UXXXXXXXX`, PROG's `fix_attachment`: the
    name table is a parameter of the string model) changes the length of the literal's text, from which the model
    computes the offsets of the replacement fields behind it — kept out of the ranged streams"""
    return any(it[:2] == "sf" and "5c4e7b" in it for it in t.split(","))


def _rp_req(mode, src, a):
    t, sp = a.split(" ")
    if _rp_named_escape_in_fstring(t):
        return None
    return "rprog %s %s %s %s" % (mode, hexs(src), prog.fix_attachment(t), sp)


def rp_families(ctx):
    """[(stream name, kind, exhaustive, note, [(mode, source, reference text or None, compare with a reference?)])]"""
    q = ctx.quick
    fams = []
    corpus = list(dict.fromkeys(RP_FINDING_PROGRAMS + prog.corpus_items() + [("m", s) for s in RP_LAYOUT] +
                                [("i", s) for s in RP_LAYOUT[::3]] + [("e", s) for s in RP_EXPRESSIONS]))
    fams.append(("corpus", "corpus", False,
                 "one program per listed finding that concerns statements, PROG's corpus (every statement, pattern, "
                 "parameter-list, with-item, import, type-parameter and decorator form; Module / Interactive / Expression "
                 "mode), hand-written layouts: decorated definitions, every compound statement with every clause "
                 "combination, trailing `;`, comments / blank lines / CR / CRLF / BOM / tabs / continuation lines around "
                 "blocks, every with-item alternative, every parameter-list section, imports, match subjects and "
                 "patterns, empty and comment-only modules", [(m, s, None, True) for m, s in corpus]))
    sh = shapes.all_shapes()
    fams.append(("directed-shapes", "exhaustive", True,
                 "tools/shapes.py: every combination of parameter-list sections for def / async def / lambda, with "
                 "statements over every expression kind in every item position and parenthesisation, rare productions",
                 [("m", s, None, True) for s in sh]))
    nm, ni, ne = (3000, 800, 800) if q else (40000, 10000, 8000)
    opts = {"depth": 3, "pep695": False}
    gm, _ = refsweep.generated(ctx, "rp-m", nm, "m", opts, ranges=True)
    gi, _ = refsweep.generated(ctx, "rp-i", ni, "i", opts, ranges=True)
    ge, _ = refsweep.generated(ctx, "rp-e", ne, "e", dict(opts, depth=4), ranges=True)
    fams.append(("generated-module", "random", False,
                 "tools/gen_program.py with layout noise (CR / CRLF line ends, tabs and odd indents, comments, blank "
                 "lines, BOM, continuation lines, missing final newline), finding shapes NOT excluded (the model mirrors "
                 "them, the oracle names them), Module mode, CPython positions as the reference",
                 [("m", t, r, True) for t, e, r in gm if not e]))
    fams.append(("generated-interactive", "random", False, "the same generator, Interactive mode",
                 [("i", t, r, True) for t, e, r in gi if not e]))
    fams.append(("generated-expression", "random", False, "generated expression lists, Expression mode",
                 [("e", t, r, True) for t, e, r in ge if not e]))
    gp, _ = refsweep.generated(ctx, "rp-pep695", 600 if q else 6000, "m", {"depth": 3, "pep695": True})
    fams.append(("generated-pep695", "random", False,
                 "programs with PEP 695 forms (type parameters, `type` statements): structure and extent rules only, no "
                 "CPython positions exist", [("m", t, None, False) for t, e, r in gp]))
    std = prog.stdlib_items(max_bytes=20000 if q else 60000, limit=120 if q else 600, rng=ctx.rng("rp-stdlib"))
    fams.append(("stdlib", "corpus", False, "CPython 3.11 standard-library files, Module mode",
                 [("m", s, None, True) for _, s in std]))
    return fams


def judge_rprog(req, out, ref_known, ref, want_ref):
    """the ranged tree of the whole parse (ctx fields removed): same rules as `judge`"""
    if out.startswith("(err") or out == "stale-tokens":
        return None
    if not out.startswith("(Mod"):
        return "implementation " + out[:60]
    ws = req.split()
    mode = ws[1]
    src = unhex(ws[2]).decode("utf-8")
    rt = None
    if want_ref:
        if not ref_known:
            ref = refsweep.reference(src, mode, None, ranges=True)
        if ref is None:
            return None                 # CPython rejects the text: not a valid program, outside the property's quantifier
        rt = _drop_ctx(pyref.sexp(ref))
    return judge_trees(src.encode("utf-8"), pyref.sexp(out), rt)


def _judge_rp_chunk(items):
    return [judge_rprog(*it) for it in items]


def build_rprog_streams(ctx):
    """sources -> `rtoks` (real tokens + spans) -> `rprog` requests; texts the real lexer or parser rejects are dropped
    (the property quantifies over successfully parsed text); verdicts of the oracle are pre-computed in parallel"""
    rc, out, hbin = core.cargo_build(HARNESS["bin"], HARNESS["features"])
    if rc != 0:
        return [("harness build for the ranged-program-model streams", False, out[-300:])]
    del _RP_STREAMS[:]
    total = dropped = 0
    todo = []
    for name, kind, exh, note, items in rp_families(ctx):
        pre = core.run_lines([hbin], ["rtoks %s %s" % (m, hexs(s)) for m, s, _, _ in items], jobs=8)
        reqs, meta = [], []
        for (m, s, ref, want), a in zip(items, pre):
            if a.startswith("(") or " " not in a:
                continue
            r = _rp_req(m, s, a)
            if r is None:
                continue                # named escape inside an f-string literal (see `_rp_named_escape_in_fstring`)
            reqs.append(r)
            meta.append((ref, want))
        outs = core.run_lines([hbin], reqs, jobs=8)
        keep = []
        for r, o, (ref, want) in zip(reqs, outs, meta):
            if o.startswith("(err"):
                continue
            keep.append(r)
            _RP_REFS[r] = (ref is not None, ref, want)
            if (r, o) not in _RP_VERDICT:
                todo.append((r, o, ref is not None, ref, want))
        dropped += len(items) - len(keep)
        total += len(keep)
        _RP_STREAMS.append((name, kind, exh, note, keep))
    if todo:
        chunks = [todo[i:i + 100] for i in range(0, len(todo), 100)]
        with ProcessPoolExecutor(refsweep.NPROC) as ex:
            for ch, vs in zip(chunks, ex.map(_judge_rp_chunk, chunks)):
                for it, v in zip(ch, vs):
                    _RP_VERDICT[(it[0], it[1])] = v
    return [("requests of the ranged-program-model streams (real tokens and spans attached)", total > 0,
             f"{total} requests; {dropped} texts rejected by the real lexer/parser left out")]


def _rp_nontrivial(r):
    return len(r.split()[3]) > 2


def pre_build(ctx):
    """obtain the real parser's trees (with ranges) for the Lean correspondence stream"""
    rc, out, hbin = core.cargo_build(HARNESS["bin"], HARNESS["features"])
    if rc != 0:
        return [("harness build for the rangesOk stream", False, out[-300:])]
    q = ctx.quick
    items, _ = refsweep.generated(ctx, "lean-m", 500 if q else 6000, "m", {"depth": 3, "pep695": True})
    iteme, _ = refsweep.generated(ctx, "lean-e", 200 if q else 2000, "e", {"depth": 3})
    files = refsweep.stdlib("m", limit=(60 if q else 400), rng=ctx.rng("lean-stdlib"), max_bytes=(12000 if q else 40000))
    srcs = [("m", s) for _, m, s in PROBES] + [("m", t) for t, _, _ in items] + [("e", t) for t, _, _ in iteme] + \
           [("m", s) for _, s, _ in files]
    reqs = [f"parse {m} 0 0 {hexs(s)}" for m, s in srcs]
    outs = core.run_lines([hbin], reqs, jobs=8)
    del _LEAN_ITEMS[:]
    for (m, s), o in zip(srcs, outs):
        if o.startswith("(Mod"):
            _LEAN_ITEMS.append((m, s, o))
    res = [("real trees for the rangesOk correspondence stream", len(_LEAN_ITEMS) > 0, f"{len(_LEAN_ITEMS)} trees")]
    return res + build_rexpr_streams(ctx) + build_rprog_streams(ctx)


def _sweep(name, items, mode, note, kind="random", with_ref=True):
    reqs = []
    for text, extra, ref in items:
        r = refsweep.make_request(mode, 0, text, extra)
        if with_ref and not extra:
            _REFS[r] = ref
        reqs.append(r)
    return Stream(name, reqs, kind=kind, compare=False, note=note)


def streams(ctx):
    q = ctx.quick
    out = []
    corpus = ["x = 1\n", "é = 'é'; ü = 2\n", "x = '😀' + y\n", "if a:\r\n    b\r\nelse:\r\n    c\r\n", "x = 1\ry = 2\r",
              "﻿x = 1\n", "x = (1 +\n  2)\n", "x = 1 + \\\n  2\n", "@d\ndef f(): pass\n", "@d\n@e(1)\nclass C: pass\n",
              "f'{x}' f'{y!r:>{w}}'\n", "x = 'a' 'b' \"c\"\n", "x = ('a'\n     'b')\n", "f(a, k=1, *b, **c)\n", "class C(a, k=1, *b, **c): pass\n",
              "def f(a, /, b, *c, d, **e): pass\n", "lambda a, *b: a\n", "with a as b, c: pass\n", "with (a as b, c as d): pass\n",
              # repaired (ArgWithDefault did not include its default): regressions are violations
              "def f(a=1): pass\n", "def f(a, b=1, /, c=2, *d, e=3, **g): pass\n", "def f(a: int = 1, *, b: 'é' = 'ü'): pass\n", "lambda a=1: a\n",
              "lambda a, b=2, *, c=3: a\n",
              # repaired (the empty Arguments of a parameterless lambda had the range of the whole lambda): regressions are violations
              "lambda: 1\n", "x = lambda: 1\n", "f(lambda : (yield), lambda:0)\n", "lambda\\\n : 1\n", "(lambda # c\n : 1)\n", "def f(a =\n 1): pass\n", "def f(a=b if c else d, e=lambda: 0): pass\n", "async def f(a=[1, 2], b={}): pass\n",
              # repaired (with-items of a parenthesised list without `as` shared one range): regressions are violations
              "with (a, b): pass\n", "with (a, b,): pass\n", "with ((a), b): pass\n", "with ( a ,\n  b ): pass\n", "with (a, b, c.d(e)): pass\n",
              "async def f():\n async with (a, b): pass\n", "with (é, 'ü'): pass\n", "with (a): pass\n", "with (a,): pass\n", "with (a, b) as c: pass\n",
              "[x for x in y if z]\n", "{k: v for k, v in z}\n", "match x:\n case [1, *r] if r: pass\n case {'k': v, **o}: pass\n case C(a, b=1) | D(): pass\n",
              "try:\n a\nexcept E as e:\n b\nelse:\n c\nfinally:\n d\n", "async def f():\n async for x in y: await z\n async with a as b: pass\n",
              "x: int = 1\n", "x = yield\n", "def f():\n  return (yield x)\n", "a[1:2, ::3]\n", "from . import (a as b, c)\n", "import a.b as c, d\n",
              "global a, b\n", "x = f'''\n{y}\n'''\n", "x = f'{y=}'\n", "x = f'{ y !r}'\n", "while a:\n    b\nelse:\n    c\n",
              "for i in a: b\nelse: c\n", "if a: b\nelif c: d\nelse: e\n", "x = [\n  1,\n  2,\n]\n", "x = {**a, 'b': 1}\n", "(yield)\n", "x = ...\n",
              "del a, b\n", "assert a, b\n", "raise a from b\n", "x = a if b else c\n", "x = not a\n", "x = a < b < c\n", "x = -a ** -b\n", "x = (a, )\n",
              "x = a,\n", "print(\"é\", 'ü')\n", "x = \"\"\"é\nü\"\"\"\n", "\n\n   \nx = 1\n\n\n", "x = 1 # c\n", "x=1;y=2\n", "if a:\n    b; c;\n"]
    reqs = [refsweep.make_request(m, 0, s) for _, m, s in PROBES] + [refsweep.make_request("m", 0, s) for s in corpus]
    reqs += [refsweep.make_request("i", 0, s) for s in corpus[:20]]
    reqs += [refsweep.make_request("e", 0, s) for s in ["x", " x".strip(), "(a,\n b)", "f(é)", "a if b else c\n\n", "[x for x in y]  # c"]]
    out.append(Stream("probes+corpus", reqs, kind="corpus", compare=False,
                      note="one probe per listed finding, then layouts named in the property (multi-byte, CR/CRLF, BOM, "
                           "continuations, parenthesised forms, f-string fields, concatenation)"))
    # the same extents at a start offset (the lexer adds the offset, and the BOM length, to every position)
    oreqs = []
    for s0 in corpus:
        for k in (1, 100):
            r = refsweep.make_request("m", 0, s0).split()
            r[2] = str(k)
            oreqs.append(" ".join(r))
    out.append(Stream("corpus-at-start-offset", oreqs, kind="corpus", compare=False,
                      note="the corpus (multi-byte, CR/CRLF, BOM, continuations, f-string fields, concatenations) parsed with "
                           "parse_starts_at at offsets 1 and 100: ranges moved back by the offset are judged like the offset-0 answer"))
    # Lean predicate on real trees vs the Python structural verdict
    lreqs = [f"rangesok {m} {hexs(s)} {hexs(t)}" for m, s, t in _LEAN_ITEMS]
    out.append(Stream("rangesOk-on-real-trees", lreqs, kind="directed",
                      note="driver evaluates PV.C02.viol (= [] iff rangesOk) on the tree the real parser produced; the "
                           "harness confirms the tree is current; the oracle gives the independent Python verdict"))
    # the ranged twin of the reference parser (Lean) against the real parser, every range of every node
    if not _RX_STREAMS:
        build_rexpr_streams(ctx)
    for name, kind, exh, note, rreqs in _RX_STREAMS:
        out.append(Stream("ranged-parser-model-" + name, rreqs, kind=kind, exhaustive=exh, harness=RX_HARNESS,
                          nontrivial=_rx_nontrivial, note=note))
    # the ranged twin of the reference PROGRAM parser (Lean) against the real parser, every range of every node
    if not _RP_STREAMS:
        build_rprog_streams(ctx)
    for name, kind, exh, note, rreqs in _RP_STREAMS:
        out.append(Stream("ranged-program-model-" + name, rreqs, kind=kind, exhaustive=exh, harness=HARNESS,
                          nontrivial=_rp_nontrivial, note=note))
    # sweep with CPython positions
    opts = {"depth": 3, "pep695": False, "range_clean": True}
    nm, ni, ne = (4000, 1000, 1500) if q else (30000, 8000, 12000)
    gm, _ = refsweep.generated(ctx, "c02-m", nm, "m", opts, ranges=True)
    gi, _ = refsweep.generated(ctx, "c02-i", ni, "i", opts, ranges=True)
    ge, _ = refsweep.generated(ctx, "c02-e", ne, "e", dict(opts, depth=4), ranges=True)
    gf, _ = refsweep.generated(ctx, "c02-findings", 300 if q else 4000, "m", {"depth": 3, "pep695": False}, ranges=True)
    gp, _ = refsweep.generated(ctx, "c02-pep695", 300 if q else 4000, "m", {"depth": 3, "pep695": True, "range_clean": True})
    out.append(_sweep("sweep-generated-module", gm, "m", "generated programs (known-finding shapes kept out), all-ranges build"))
    out.append(_sweep("sweep-generated-interactive", gi, "i", "Interactive mode"))
    out.append(_sweep("sweep-generated-expression", ge, "e", "Expression mode"))
    out.append(_sweep("sweep-generated-with-finding-shapes", gf, "m",
                      "generator without the range_clean restriction: every difference must be a listed shape"))
    out.append(_sweep("sweep-generated-pep695", gp, "m", "programs with PEP 695 forms: structure and extent rules only "
                      "(no CPython positions exist)", with_ref=False))
    files = refsweep.stdlib("m", ranges=True, limit=(500 if q else None), rng=ctx.rng("stdlib"))
    out.append(_sweep("sweep-stdlib-module", [(s, None, r) for _, s, r in files], "m",
                      f"{len(files)} CPython stdlib files", kind="corpus"))
    return out
