"""C02 — node ranges are the exact source extent of each construct.

Harness: pvh_c01 built with `all-nodes-with-ranges`.  Proof-level part: Lean theorems about `rangesOk`
(lean/PV/C02) + a correspondence stream in which the driver evaluates the Lean predicate on the trees the
real parser produces and must agree with the independent Python oracle's structural verdict.  The Python
oracle judges every tree of the sweep: structure, equality with CPython's positions for the kinds CPython
positions, and `source[range] == construct text` rules for the others.
"""
import os
import re
import sys

sys.path.insert(0, os.path.dirname(os.path.dirname(os.path.abspath(__file__))))
import core
import pyref
import refsweep
from core import Stream, hexs, unhex

ID = "C02"
DESIGN_REF = "DESIGN.md section 5, C02; design/C02.md; design/REFTOOLS.md"
LEAN_TARGETS = ["PV.C02.Thm"]
DRIVER = "drv_c02"
HARNESS = {"bin": "pvh_c01", "features": "all-ranges"}
THEOREMS = [
    "PV.C02.rangesOk_node",
    "PV.C02.rangesOk_slice",
    "PV.C02.rangesOk_siblings",
    "PV.C02.viol_nil_iff",
]
TRUSTED = [
    "Lean 4.33.0 kernel; axioms limited to propext, Classical.choice, Quot.sound",
    "the parser (LR automaton, @L/@R captures in the actions, lexer offsets, string.rs re-basing) is NOT modelled: "
    "its trees are inputs of the Lean predicate `rangesOk` and of the Python oracle",
    "CPython 3.11.7 lineno/col_offset/end_* converted to byte offsets (tools/pyref.py) as the reference extent of "
    "statements, expressions, patterns, parameters, keywords, aliases and handlers",
    "tools/props/c02.py (oracle: structural rules, extent rules for the kinds CPython does not position), "
    "tools/gen_program.py, tools/refsweep.py, harness/src/astdump.rs, harness/src/bin/pvh_c01.rs, lean/Drv/C02.lean",
]
PARTIAL = [
    "the theorems are about the checker `rangesOk` (what passing it guarantees for every node and slice), not about "
    "the parser: that the parser's trees pass it, and that ranges equal the reference extents, is established only "
    "for the swept inputs (generated programs over every form and layout, the CPython stdlib)",
    "no Lean model of the @L/@R range computation of the grammar actions (DESIGN.md's parseRef_ranges/parseRef_extent "
    "are not built)",
]
READY = True
TECHNIQUE = ("Lean 4 theorems about an executable range-structure predicate evaluated by the driver on the real parser's "
             "trees + independent Python oracle against CPython positions over a whole-language sweep")
LEVEL_TEXT = ("Machine-checked Lean 4 theorems about the executable predicate rangesOk over arbitrary trees and sources: "
              "passing it implies, for every node at any depth, a well-formed slice on UTF-8 boundaries, child slices that "
              "are sub-slices of the parent's at the expected offset (decorators excepted) and ordered, disjoint list "
              "siblings; the reporting variant used at run time is proved equivalent. The driver evaluates the predicate "
              "on the trees the real parser (all-nodes-with-ranges build) produces and must agree with an independent "
              "Python oracle, which also compares every positioned node with CPython 3.11's positions and checks extent "
              "rules for the other kinds, over generated programs (multi-byte text, CR/CRLF, BOM, continuations, "
              "parenthesised forms, f-string fields, concatenated strings) and the CPython stdlib.")
LEVEL_NOTE = ("Partial: the range computation inside the generated parser is not modelled; conformance of the parser's "
              "ranges is swept, not proved.")
RULE = "distinct source texts whose every node range is judged; correspondence: (source, real tree) pairs evaluated by the Lean predicate"

COMPOUND = {"StmtFunctionDef", "StmtAsyncFunctionDef", "StmtClassDef", "StmtFor", "StmtAsyncFor", "StmtWhile", "StmtIf",
            "StmtWith", "StmtAsyncWith", "StmtMatch", "StmtTry", "StmtTryStar", "ExceptHandlerExceptHandler"}

PROBES = [
    ("genexp-sole-argument-range", "m", "f(x for x in y)\n"),
    ("fstring-field-range-after-crlf", "m", "f'''\r\n{x}'''\r\n"),
    ("fstring-piece-range-in-concatenation", "m", "x = 'a' f'{b}' 'c'\n"),
    ("match-subject-tuple-range-excludes-element-parentheses", "m", "match (a), b:\n case _: pass\n"),
    ("compound-end-excludes-trailing-semicolon", "m", "if a:\n    b;\nc\n"),
    ("namedexpr-range-excludes-value-parentheses", "m", "(y := (x))\n"),
    ("argwithdefault-range-excludes-default", "m", "def f(a=1): pass\n"),
    ("with-parenthesised-items-share-range", "m", "with (a, b): pass\n"),
    ("lambda-empty-arguments-range", "m", "lambda: 1\n"),
]


# ------------------------------------------------------------------------------------------------ structural oracle

def _is_node(t):
    return not isinstance(t, (str, list)) and t[1] is not None


def _children(t):
    """[(slot, in_list, node)] in schema order, ranged nodes only (same rule as lean/Drv/C02.lean toTree)"""
    out = []
    for f, v in t[2]:
        if isinstance(v, list):
            for x in v:
                if _is_node(x):
                    out.append((f, True, x))
        elif _is_node(v):
            out.append((f, False, v))
    return out


def _boundary(b, o):
    if o == len(b):
        return True
    if o > len(b):
        return False
    return not (128 <= b[o] < 192)


def structural(b, tree):
    """sorted unique violation items, identical in format to PV.C02.viol"""
    out = set()

    def rec(t, par, park):
        kind, (a, e), _ = t[0], t[1], t[2]
        if not (a <= e and e <= len(b) and _boundary(b, a) and _boundary(b, e)):
            out.add("own:" + kind)
        return kind, (a, e)

    def walk(t, par, park, slot):
        kind, (a, e) = t[0], t[1]
        if not (a <= e and e <= len(b) and _boundary(b, a) and _boundary(b, e)):
            out.add("own:" + kind)
        if par is not None and slot != "decorator_list" and not (par[0] <= a and e <= par[1]):
            out.add(f"enclose:{park}:{slot}")
        cs = _children(t)
        for (s1, l1, x), (s2, l2, y) in zip(cs, cs[1:]):
            if s1 == s2 and l1 and l2 and not (kind == "ExprJoinedStr" and s1 == "values"):
                if not x[1][1] <= y[1][0]:
                    out.add(f"order:{kind}:{s1}")
        for s, _, c in cs:
            walk(c, (a, e), kind, s)
    walk(tree, None, "root", "root")
    return sorted(out)


# ------------------------------------------------------------------------------------------------ extents of unpositioned kinds

_WS = rb"(?:[\s\\]|#[^\r\n]*)"
_P_ARGS = rb"(?:" + _WS + rb"|[*/,])*"
_T_ARGS = rb"(?:" + _WS + rb"|[,/*)])*"
_P_OPEN = rb"(?:" + _WS + rb"|\()*"
_T_CLOSE = rb"(?:" + _WS + rb"|\))*"
_TRIVIA = re.compile(rb"(?:[ \t\f\r\n]|#[^\r\n]*|\\\r?\n|\\\r)*\Z")
_LEAD_TRIVIA = re.compile(rb"(?:\xef\xbb\xbf)?(?:[ \t\f\r\n]|#[^\r\n]*|\\\r?\n|\\\r)*\Z")


def _balanced(text):
    if b"'" in text or b'"' in text or b"#" in text:
        return True
    depth = 0
    for c in text:
        if c in b"([{":
            depth += 1
        elif c in b")]}":
            depth -= 1
            if depth < 0:
                return False
    return depth == 0


def _hull(nodes):
    rs = [n[1] for n in nodes if _is_node(n)]
    return (min(r[0] for r in rs), max(r[1] for r in rs)) if rs else None


def _sub_nodes(v):
    if isinstance(v, list):
        return [x for x in v if _is_node(x)]
    return [v] if _is_node(v) else []


def extents(b, tree):
    """[(item, node, parent)] for unpositioned kinds whose range is not the construct's own text"""
    out = []

    def tail_ok(s, e, pat):
        return s <= e and re.fullmatch(pat, b[s:e]) is not None

    def walk(t, parent):
        if isinstance(t, list):
            for x in t:
                walk(x, parent)
            return
        if isinstance(t, str):
            return
        kind, rng, fields = t
        fd = dict(fields)
        if rng is not None and kind in pyref.UNPOSITIONED_KINDS:
            a, e = rng
            text = b[a:e]
            bad = None
            if kind in ("ModModule", "ModInteractive", "ModExpression"):
                # "the construct's own text": nothing but trivia (BOM, blanks, comments, line breaks,
                # continuations) may lie in front of the start and behind the end
                if not _LEAD_TRIVIA.match(b[:a]) or not _TRIVIA.match(b, e):
                    bad = "only trivia may lie in front of and behind a module's range"
            elif kind == "Arguments":
                kids = [x for f in ("posonlyargs", "args", "vararg", "kwonlyargs", "kwarg") for x in _sub_nodes(fd[f])]
                if not kids:
                    if parent and parent[0] == "ExprLambda":
                        if a != e:
                            bad = "lambda without parameters: Arguments must be empty text"
                    elif not re.fullmatch(rb"\((?:[ \t\f\r\n]|#[^\r\n]*|\\\r?\n)*\)", text):
                        bad = "empty parameter list must be the parentheses"
                else:
                    inner = []
                    for k in kids:
                        inner.append(k)
                        if k[0] == "ArgWithDefault":
                            inner += _sub_nodes(dict(k[2])["def"]) + _sub_nodes(dict(k[2])["default"])
                    h = _hull(inner)
                    if not (a <= h[0] and h[1] <= e and tail_ok(a, h[0], _P_ARGS) and
                            tail_ok(h[1], e, _T_ARGS) and text.strip() == text and _balanced(text)
                            and not text.startswith(b"(")):
                        bad = "parameter list text"
            elif kind == "ArgWithDefault":
                d = _sub_nodes(fd["def"])[0]
                dv = _sub_nodes(fd["default"])
                want_end = dv[0][1][1] if dv else d[1][1]
                if a != d[1][0] or e < want_end or not tail_ok(want_end, e, _T_CLOSE) or not _balanced(text):
                    bad = "parameter with default: from the name to the end of the default"
            elif kind == "Comprehension":
                h = _hull(_sub_nodes(fd["target"]) + _sub_nodes(fd["iter"]) + _sub_nodes(fd["ifs"]))
                if not (re.match(rb"(async\b|for\b)", text) and a <= h[0] and h[1] <= e and
                        tail_ok(h[1], e, _T_CLOSE) and _balanced(text)):
                    bad = "comprehension clause text"
            elif kind == "WithItem":
                h = _hull(_sub_nodes(fd["context_expr"]) + _sub_nodes(fd["optional_vars"]))
                if not (a <= h[0] and h[1] <= e and tail_ok(a, h[0], _P_OPEN) and tail_ok(h[1], e, _T_CLOSE)
                        and _balanced(text)):
                    bad = "with item text"
            elif kind == "MatchCase":
                body = _sub_nodes(fd["body"])
                if not (text.startswith(b"case") and body and e >= body[-1][1][1] and tail_ok(body[-1][1][1], e, rb"[\s;]*")):
                    bad = "case block text"
            elif kind.startswith("TypeParam"):
                nm = bytes.fromhex(fd["name"][2:]) if fd["name"] != "s:-" else b""
                stars = {"TypeParamTypeVar": rb"", "TypeParamTypeVarTuple": rb"\*\s*", "TypeParamParamSpec": rb"\*\*\s*"}[kind]
                bd = _sub_nodes(fd.get("bound", "None"))
                ok = re.match(stars + re.escape(nm), text) is not None
                if bd:
                    ok = ok and e >= bd[0][1][1] and tail_ok(bd[0][1][1], e, _T_CLOSE)
                else:
                    ok = ok and re.fullmatch(stars + re.escape(nm), text) is not None
                if not ok:
                    bad = "type parameter text"
            if bad:
                out.append((f"extent:{kind}", t, parent, bad))
        for f, v in fields:
            walk(v, t)
    walk(tree, None)
    return out


def _top_comma(text):
    depth = 0
    for c in text:
        if c in b"([{":
            depth += 1
        elif c in b")]}":
            depth -= 1
        elif c == 44 and depth == 0:
            return True
    return False


# ------------------------------------------------------------------------------------------------ classification

def classify_struct(item):
    if item == "enclose:ArgWithDefault:default":
        return "argwithdefault-range-excludes-default"
    if item in ("order:StmtWith:items", "order:StmtAsyncWith:items"):
        return "with-parenthesised-items-share-range"
    return None


def classify_extent(item, node, parent, b):
    kind = node[0]
    fd = dict(node[2])
    if kind == "ArgWithDefault" and _sub_nodes(fd["default"]):
        d = _sub_nodes(fd["def"])[0]
        if node[1] == d[1]:
            return "argwithdefault-range-excludes-default"
    if kind == "WithItem" and not _sub_nodes(fd["optional_vars"]) and parent and \
            sum(1 for it in dict(parent[2])["items"] if it[1] == node[1]) > 1:
        return "with-parenthesised-items-share-range"
    if kind == "Arguments" and parent and parent[0] == "ExprLambda" and node[1] == parent[1]:
        return "lambda-empty-arguments-range"
    return None


def classify_refdiff(d, b):
    x, y = d["impl"], d["ref"]
    kind = x[0]
    (a, e), (ra, re_) = x[1], y[1]
    path = d["path"]
    if kind == "ExprGeneratorExp" and d["pa"] and d["pa"][0] == "ExprCall":
        fd = dict(d["pa"][2])
        if len(fd["args"]) == 1 and not fd["keywords"] and ra < a and e < re_ and \
                re.fullmatch(rb"\(" + _WS + rb"*", b[ra:a]) and re.fullmatch(_WS + rb"*\)", b[e:re_]):
            return "genexp-sole-argument-range"
    if kind in ("ExprFormattedValue", "ExprConstant", "ExprJoinedStr") and ".values[" in path and ra <= a and e <= re_ \
            and (ra, re_) in (d.get("reflits") or []):
        return "fstring-piece-range-in-concatenation"
    if kind == "ExprTuple" and path.endswith(".subject.range") and ra <= a and e <= re_ and \
            re.fullmatch(_P_OPEN, b[ra:a]) and re.fullmatch(rb"(?:" + _WS + rb"|[),])*", b[e:re_]):
        return "match-subject-tuple-range-excludes-element-parentheses"
    if (kind in COMPOUND or kind == "MatchCase") and a == ra and e < re_ and re.fullmatch(rb"(?:[ \t\f]|\\\r?\n|\\\r)*;", b[e:re_]):
        return "compound-end-excludes-trailing-semicolon"
    if kind == "ExprNamedExpr" and a == ra and e < re_ and re.fullmatch(rb"(?:" + _WS + rb"|\))+", b[e:re_]):
        return "namedexpr-range-excludes-value-parentheses"
    if ".values[" in path and b"\r\n" in b:
        k = ra - a
        if k > 0 and re_ - e == k:
            # the enclosing string literal contains k CR LF pairs before the field
            lit = d.get("lit")
            if lit is not None and b[lit[0]:ra].count(b"\r\n") >= k:
                return "fstring-field-range-after-crlf"
    return None


def _attach_literal(ds, impl_tree, ref_tree=None):
    """for differences inside a JoinedStr: remember the range of the outermost enclosing JoinedStr"""
    for d in ds:
        if ".values[" not in d["path"]:
            continue
        if ref_tree is not None:
            d["reflits"] = _outer_joined(ref_tree, d["path"], every=True)
        d["lit"] = _outer_joined(impl_tree, d["path"])


def _outer_joined(tree, path, every=False):
    if True:
        if True:
            pass
        cur = tree
        lit = None
        allj = []
        d = {"path": path}
        for step in re.findall(r"\.([a-z_]+)|\[(\d+)\]", d["path"].rsplit(".range", 1)[0]):
            try:
                if step[0]:
                    cur = dict(cur[2])[step[0]]
                else:
                    cur = cur[int(step[1])]
            except Exception:
                break
            if not isinstance(cur, (str, list)) and cur[0] == "ExprJoinedStr":
                allj.append(cur[1])
                if lit is None:
                    lit = cur[1]
        return allj if every else lit


_REFS = {}


def judge(src, mode, out, ref, want_ref=True):
    """failure string or None; `[known:…]` suffix when every problem is a listed shape"""
    if out.startswith("(err"):
        return None                     # not "successfully parsed": C01's business
    if out in ("(panic)", "(abort)", "(timeout)") or out.startswith("(dump-error"):
        return "implementation " + out
    b = src.encode("utf-8")
    tree = pyref.sexp(out)
    problems = []           # (description, key or None)
    for item in structural(b, tree):
        problems.append((f"structure: {item}", classify_struct(item)))
    for item, node, parent, why in extents(b, tree):
        problems.append((f"{item} {node[1]} = {b[node[1][0]:node[1][1]][:50]!r}: {why}", classify_extent(item, node, parent, b)))
    if want_ref and ref is not None:
        impl = pyref.strip_ranges(tree, pyref.UNPOSITIONED_KINDS)
        rt = pyref.sexp(ref)
        ds = [d for d in refsweep.all_diffs(impl, rt, limit=400) if d["path"].endswith(".range")]
        _attach_literal(ds, impl, rt)
        for d in ds:
            x, y = d["impl"], d["ref"]
            problems.append((f"{x[0]} at {d['path'][:-6]}: range {x[1][0]}..{x[1][1]} "
                             f"{b[x[1][0]:x[1][1]][:40]!r} but the reference extent is {y[1][0]}..{y[1][1]} "
                             f"{b[y[1][0]:y[1][1]][:40]!r}", classify_refdiff(d, b)))
    if not problems:
        return None
    unknown = [p for p, k in problems if k is None]
    if unknown:
        return unknown[0] + (f" (+{len(problems) - 1} more)" if len(problems) > 1 else "")
    keys = []
    for _, k in problems:
        if k not in keys:
            keys.append(k)
    return problems[0][0] + f" [known:{','.join(keys)}]"


def oracle(req, out):
    ws = req.split()
    if ws[0] == "parse":
        mode, erase, src, extra = refsweep.split_request(req)
        if req in _REFS:
            ref = _REFS[req]
        else:
            ref = None if extra else refsweep.reference(src, mode, None, ranges=True)
        return judge(src, mode, out, ref, want_ref=not extra)
    if ws[0] == "rangesok":
        # the Python side of the agreement: structural verdict on the tree carried by the request
        src = unhex(ws[2]).decode("utf-8")
        tree = pyref.sexp(unhex(ws[3]).decode("utf-8"))
        if out != "ok":
            return f"harness does not reproduce the tree of the request: {out}"
        items = structural(src.encode("utf-8"), tree)
        if items:
            keys = [classify_struct(i) for i in items]
            tag = f" [known:{','.join(dict.fromkeys(keys))}]" if all(keys) else ""
            return "structure: " + ",".join(items) + tag
        return None
    return None


def classify(req, impl_out, model_out, failure):
    ws = req.split()
    if ws[0] == "rangesok":
        # Lean and Python must report the same violated checks; then the listed shapes are known findings
        py = failure[len("structure: "):].split(" [")[0] if failure and failure.startswith("structure: ") else ""
        lean = model_out[4:] if model_out and model_out.startswith("bad ") else ""
        if py != lean:
            return None
    if failure:
        m = re.search(r"\[known:([^\]]+)\]$", failure)
        if m:
            return m.group(1).split(",")[0]
    return None


# ------------------------------------------------------------------------------------------------ streams

_LEAN_ITEMS = []


def pre_build(ctx):
    """obtain the real parser's trees (with ranges) for the Lean correspondence stream"""
    rc, out, hbin = core.cargo_build(HARNESS["bin"], HARNESS["features"])
    if rc != 0:
        return [("harness build for the rangesOk stream", False, out[-300:])]
    q = ctx.quick
    items, _ = refsweep.generated(ctx, "lean-m", 500 if q else 6000, "m", {"depth": 3, "pep695": True})
    iteme, _ = refsweep.generated(ctx, "lean-e", 200 if q else 2000, "e", {"depth": 3})
    files = refsweep.stdlib("m", limit=(60 if q else 400), rng=ctx.rng("lean-stdlib"), max_bytes=(12000 if q else 40000))
    srcs = [("m", s) for _, m, s in PROBES] + [("m", t) for t, _, _ in items] + [("e", t) for t, _, _ in iteme] + \
           [("m", s) for _, s, _ in files]
    reqs = [f"parse {m} 0 0 {hexs(s)}" for m, s in srcs]
    outs = core.run_lines([hbin], reqs, jobs=8)
    del _LEAN_ITEMS[:]
    for (m, s), o in zip(srcs, outs):
        if o.startswith("(Mod"):
            _LEAN_ITEMS.append((m, s, o))
    return [("real trees for the rangesOk correspondence stream", len(_LEAN_ITEMS) > 0, f"{len(_LEAN_ITEMS)} trees")]


def _sweep(name, items, mode, note, kind="random", with_ref=True):
    reqs = []
    for text, extra, ref in items:
        r = refsweep.make_request(mode, 0, text, extra)
        if with_ref and not extra:
            _REFS[r] = ref
        reqs.append(r)
    return Stream(name, reqs, kind=kind, compare=False, note=note)


def streams(ctx):
    q = ctx.quick
    out = []
    corpus = ["x = 1\n", "é = 'é'; ü = 2\n", "x = '😀' + y\n", "if a:\r\n    b\r\nelse:\r\n    c\r\n", "x = 1\ry = 2\r",
              "﻿x = 1\n", "x = (1 +\n  2)\n", "x = 1 + \\\n  2\n", "@d\ndef f(): pass\n", "@d\n@e(1)\nclass C: pass\n",
              "f'{x}' f'{y!r:>{w}}'\n", "x = 'a' 'b' \"c\"\n", "x = ('a'\n     'b')\n", "f(a, k=1, *b, **c)\n", "class C(a, k=1, *b, **c): pass\n",
              "def f(a, /, b, *c, d, **e): pass\n", "lambda a, *b: a\n", "with a as b, c: pass\n", "with (a as b, c as d): pass\n",
              "[x for x in y if z]\n", "{k: v for k, v in z}\n", "match x:\n case [1, *r] if r: pass\n case {'k': v, **o}: pass\n case C(a, b=1) | D(): pass\n",
              "try:\n a\nexcept E as e:\n b\nelse:\n c\nfinally:\n d\n", "async def f():\n async for x in y: await z\n async with a as b: pass\n",
              "x: int = 1\n", "x = yield\n", "def f():\n  return (yield x)\n", "a[1:2, ::3]\n", "from . import (a as b, c)\n", "import a.b as c, d\n",
              "global a, b\n", "x = f'''\n{y}\n'''\n", "x = f'{y=}'\n", "x = f'{ y !r}'\n", "while a:\n    b\nelse:\n    c\n",
              "for i in a: b\nelse: c\n", "if a: b\nelif c: d\nelse: e\n", "x = [\n  1,\n  2,\n]\n", "x = {**a, 'b': 1}\n", "(yield)\n", "x = ...\n",
              "del a, b\n", "assert a, b\n", "raise a from b\n", "x = a if b else c\n", "x = not a\n", "x = a < b < c\n", "x = -a ** -b\n", "x = (a, )\n",
              "x = a,\n", "print(\"é\", 'ü')\n", "x = \"\"\"é\nü\"\"\"\n", "\n\n   \nx = 1\n\n\n", "x = 1 # c\n", "x=1;y=2\n", "if a:\n    b; c;\n"]
    reqs = [refsweep.make_request(m, 0, s) for _, m, s in PROBES] + [refsweep.make_request("m", 0, s) for s in corpus]
    reqs += [refsweep.make_request("i", 0, s) for s in corpus[:20]]
    reqs += [refsweep.make_request("e", 0, s) for s in ["x", " x".strip(), "(a,\n b)", "f(é)", "a if b else c\n\n", "[x for x in y]  # c"]]
    out.append(Stream("probes+corpus", reqs, kind="corpus", compare=False,
                      note="one probe per listed finding, then layouts named in the property (multi-byte, CR/CRLF, BOM, "
                           "continuations, parenthesised forms, f-string fields, concatenation)"))
    # Lean predicate on real trees vs the Python structural verdict
    lreqs = [f"rangesok {m} {hexs(s)} {hexs(t)}" for m, s, t in _LEAN_ITEMS]
    out.append(Stream("rangesOk-on-real-trees", lreqs, kind="directed",
                      note="driver evaluates PV.C02.viol (= [] iff rangesOk) on the tree the real parser produced; the "
                           "harness confirms the tree is current; the oracle gives the independent Python verdict"))
    # sweep with CPython positions
    opts = {"depth": 3, "pep695": False, "range_clean": True}
    nm, ni, ne = (4000, 1000, 1500) if q else (30000, 8000, 12000)
    gm, _ = refsweep.generated(ctx, "c02-m", nm, "m", opts, ranges=True)
    gi, _ = refsweep.generated(ctx, "c02-i", ni, "i", opts, ranges=True)
    ge, _ = refsweep.generated(ctx, "c02-e", ne, "e", dict(opts, depth=4), ranges=True)
    gf, _ = refsweep.generated(ctx, "c02-findings", 300 if q else 4000, "m", {"depth": 3, "pep695": False}, ranges=True)
    gp, _ = refsweep.generated(ctx, "c02-pep695", 300 if q else 4000, "m", {"depth": 3, "pep695": True, "range_clean": True})
    out.append(_sweep("sweep-generated-module", gm, "m", "generated programs (known-finding shapes kept out), all-ranges build"))
    out.append(_sweep("sweep-generated-interactive", gi, "i", "Interactive mode"))
    out.append(_sweep("sweep-generated-expression", ge, "e", "Expression mode"))
    out.append(_sweep("sweep-generated-with-finding-shapes", gf, "m",
                      "generator without the range_clean restriction: every difference must be a listed shape"))
    out.append(_sweep("sweep-generated-pep695", gp, "m", "programs with PEP 695 forms: structure and extent rules only "
                      "(no CPython positions exist)", with_ref=False))
    files = refsweep.stdlib("m", ranges=True, limit=(500 if q else None), rng=ctx.rng("stdlib"))
    out.append(_sweep("sweep-stdlib-module", [(s, None, r) for _, s, r in files], "m",
                      f"{len(files)} CPython stdlib files", kind="corpus"))
    return out
