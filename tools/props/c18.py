"""C18 — format-spec parsing and formatting equal Python's format()."""
import itertools
import math
import struct

from core import Stream, hexs, unhex

ID = "C18"
DESIGN_REF = "DESIGN.md section 5, C18"
LEAN_TARGETS = ["PV.C18.Thm"]
DRIVER = "drv_c18"
HARNESS = {"bin": "pvh_c18", "features": "default"}
THEOREMS = [
    "PV.C18.parse_spec_eq",
    "PV.C18.parse_spec_complete_partial",
    "PV.C18.parse_spec_rejects",
    "PV.C18.insertSeparator_eq_groupRight",
    "PV.C18.group_spec",
    "PV.C18.group_zero_padding_spec",
    "PV.C18.align_spec",
    "PV.C18.zero_flag_spec",
    "PV.C18.format_int_eq_partial",
    "PV.C18.format_str_eq_partial",
    "PV.C18.format_bool_eq_partial",
    "PV.C18.format_float_eq_partial",
    "PV.C18.formatFloat_eq",
    "PV.C18.general_eq_layout",
    "PV.C18.genDigits_all",
    "PV.C18.repr_eq_layout",
    "PV.C18.float_assemble",
    "PV.C18.no_panic_str",
    "PV.C18.no_panic_partial",
    "PV.C18.format_eq_fails",
    "PV.C18.dev_z_flag",
    "PV.C18.dev_c_surrogate",
    "PV.C18.dev_z_flag_float",
    "PV.C18.dev_int_above_f64max",
    "PV.C18.dev_float_tie_not_in_facts",
    "PV.C18.dev_float_tie",
    "PV.C18.repaired_conv_prefix",
    "PV.C18.repaired_group_exp",
    "PV.C18.repaired_group_exp_float",
    "PV.C18.repaired_group_width",
    "PV.C18.repaired_group_nonfinite",
    "PV.C18.repaired_float_group_exponent",
    "PV.C18.repaired_str_sign",
    "PV.C18.repaired_str_alt",
    "PV.C18.repaired_str_precision_bytes",
    "PV.C18.repaired_str_precision_after_padding",
    "PV.C18.repaired_bool_default",
    "PV.C18.repaired_c_precision",
    "PV.C18.repaired_c_nonascii_width",
    "PV.C18.repaired_c_surrogate_no_panic",
    "PV.C18.repaired_width_limit",
    "PV.C18.repaired_precision_over_u16",
    "PV.C18.repaired_float_percent_overflow",
    "PV.C18.repaired_float_alt_no_point",
    "PV.C18.repaired_float_no_dot_zero",
    "PV.C18.repaired_str_eq_align",
    "PV.C18.repaired_str_zero_flag",
    "PV.C18.repaired_precision_over_i32",
]
TRUSTED = [
    "Lean 4.33.0 kernel; axioms limited to propext, Classical.choice, Quot.sound",
    "hand-written model lean/PV/C18/Model.lean of format/src/format.rs (FormatSpec::parse and helpers, validate_format, "
    "get_separator_interval, add_magnitude_separators, separate_integer, insert_separator, format_sign_and_align, "
    "format_int/float/string/bool), tied to the code by the correspondence streams of this run",
    "float text: PV.C17 model of literal/src/float.rs on top of the exact decimal arithmetic PV.Dec (contract of Rust "
    "{:.N} / {:.Ne} / {:e} / Display on f64 and of CPython's digit generation), sampled here and by C17's "
    "dec-primitives stream; FloatDigitFacts (hypothesis of format_float_eq_partial) evaluated on every sampled double",
    "contracts of malachite BigInt::to_str_radix, BigInt::to_f64 (nearest, None beyond f64::MAX), f64 * 100.0, "
    "char::from_u32, String::truncate/insert",
    "lean/PV/C18/Spec.lean as the reading of the language reference (validated against CPython 3.11.7 on every run: "
    "tools/props/c18.py py_parse_spec + CPython format() is the oracle)",
    "tools/props/c18.py (generators, classification of known findings), harness/src/bin/pvh_c18.rs (reads the parsed "
    "spec off derive(Debug)), lean/Drv/C18.lean",
]
PARTIAL = [
    "full: parse_spec_eq, parse_spec_rejects, insertSeparator_eq_groupRight, group_spec, group_zero_padding_spec, "
    "align_spec, zero_flag_spec, no_panic_str (every spec string, every text shorter than 2^30)",
    "format_int/str/bool/float_eq_partial and no_panic_partial hold on the decidable InDomain, which excludes only: "
    "the 'z' flag (PEP 682, unknown to the parser), 'c' on a surrogate code point (a Rust String cannot hold it), "
    "float presentation types on int/bool (BigInt::to_f64 contract), width >= 2^30, |n| >= 2^(2^28), a float magnitude "
    "of 2^30 or more characters; each remaining deviating shape is a listed known finding with a decide'd witness "
    "(Thm.lean section 7)",
    "format_float_eq_partial is relative to explicit, decidable digit-generation facts about PV.Dec (FloatDigitFacts): "
    "x*100 is a non-negative non-NaN double for '%', ReprDigits for the repr-style presentation (no type, no precision: "
    "CPython's and Rust's shortest digits agree - false exactly on the listed finding float-repr-tie-rounds-up -, "
    "integers have their integer digits, non-integers a fraction); NOTHING for e/E/f/F/g/G/n and precision-without-type "
    "(genDigits_all proves for every double that rounding to P significant digits and to P-1-X decimals give the same "
    "digits). The two remaining facts are evaluated by the driver on every double of the run "
    "(coverage.float_digit_facts), not proved for all doubles",
    "parse_spec_complete_partial: the 'z' flag, widths above i32::MAX and precisions above isize::MAX are rejected by "
    "the parser (the latter two also by CPython: MemoryError / 'Too many decimal digits')",
]
READY = True
TECHNIQUE = ("Lean 4 theorems over a hand-written model of format.rs + exhaustive small-scope / random differential "
             "correspondence with the real crate, real code judged by CPython format()")
LEVEL_TEXT = ("Machine-checked Lean 4 theorems about the repaired format.rs: for every spec string the modelled parser "
              "equals the reference grammar (full), separate_integer/insert_separator equal Python's grouping with zero "
              "padding for all digit strings and widths (full), format_sign_and_align equals Python's padding (full), "
              "format_string never panics on any spec (full), and format_int/format_string/format_bool/format_float equal the "
              "reference pyFormat on an explicit decidable domain that excludes only the shapes still listed as known "
              "findings (each with a witnessed deviation) and absurd sizes; the float equality covers every presentation "
              "type, precision, fill/alignment/sign/zero flag/grouping/alternate form, NaN and infinities, relative to "
              "explicit digit-generation facts about PV.Dec. The model is tied to the Rust code on every run by exhaustive (all specs of length <= 3/4 over a "
              "29-symbol alphabet x 30 values) and random correspondence, and the real code is judged by CPython.")
LEVEL_NOTE = ("Trusted: Lean kernel, model fidelity as sampled, PV.Dec/PV.C17 as the meaning of Rust float printing, "
              "bigint/char/String contracts, harness, generator, CPython 3.11.7 as the meaning of Python.")
RULE = ("request lines (one spec x a list of values) sent to the real rustpython-format crate and to the Lean model; "
        "distinct = distinct request line; non-trivial = the spec is non-empty")

ALIGN = "<>=^"
TYPES = "bcdeEfFgGnosxX%"
FLOAT_TYPES = tuple("eEfFgG%")
ALPHABET = list("<>^=+- #015,_.dboxXncefgs%!z") + ["é"]

F64_MAX_INT = (2 ** 53 - 1) * 2 ** 971
BIG = 2 ** 199 + 12345
INTS = [0, 1, -1, 7, 255, 1234567, -1234567, BIG]
STRS = ["", "a", "abc", "é", "日本語x"]
BOOLS = [False, True]
FLOATS = [0.0, -0.0, 0.5, 1.0, -1.5, 123456.789, 1e100, 1e-7, float("inf"), float("-inf"), float("nan"),
          1234567.0, 2.5, 1e16, 5e-324]


def fbits(x):
    return struct.pack(">d", x).hex()


def funbits(h):
    return struct.unpack(">d", bytes.fromhex(h))[0]


def enc_val(v):
    if isinstance(v, bool):
        return "b " + ("1" if v else "0")
    if isinstance(v, int):
        return "i %d" % v
    if isinstance(v, float):
        return "f " + fbits(v)
    return "s " + hexs(v)


def mkreq(spec, vals):
    return "fmt %s %s" % (hexs(spec), " ".join(enc_val(v) for v in vals))


_VAL_CACHE = {}


def parse_req(req):
    """-> (spec text, [(kind, value)])"""
    ws = req.split(" ")
    spec = unhex(ws[1]).decode("utf-8")
    tail = " ".join(ws[2:])
    vals = _VAL_CACHE.get(tail)
    if vals is None:
        vals = []
        for k, t in zip(ws[2::2], ws[3::2]):
            if k == "i":
                vals.append(("i", int(t)))
            elif k == "f":
                vals.append(("f", funbits(t)))
            elif k == "s":
                vals.append(("s", unhex(t).decode("utf-8")))
            else:
                vals.append(("b", t == "1"))
        if len(_VAL_CACHE) < 100000:
            _VAL_CACHE[tail] = vals
    return spec, vals


# ------------------------------------------------------------------ reference grammar (language reference 6.1.3.1)

class PySpec:
    __slots__ = ("fill", "align", "sign", "z", "alt", "zero", "width", "group", "prec", "type")

    def __repr__(self):
        return "PySpec(" + ",".join(f"{k}={getattr(self, k)!r}" for k in self.__slots__) + ")"

    @property
    def eff_fill(self):
        return self.fill if self.fill is not None else ("0" if self.zero else None)

    @property
    def zero_eq(self):
        """sign-aware zero padding: fill '0' with alignment '=' (explicitly or through the 0 flag)"""
        return self.eff_fill == "0" and (self.align == "=" or (self.align is None and self.zero))


def py_parse_spec(spec):
    """[[fill]align][sign]["z"]["#"]["0"][width][grouping]["." precision][type]; None when the text is
    not in the grammar."""
    p = PySpec()
    i = 0
    n = len(spec)
    p.fill = p.align = None
    if n >= 2 and spec[1] in ALIGN:
        p.fill, p.align, i = spec[0], spec[1], 2
    elif n >= 1 and spec[0] in ALIGN:
        p.align, i = spec[0], 1
    p.sign = None
    if i < n and spec[i] in "+- ":
        p.sign = spec[i]
        i += 1
    p.z = p.alt = p.zero = False
    if i < n and spec[i] == "z":
        p.z = True
        i += 1
    if i < n and spec[i] == "#":
        p.alt = True
        i += 1
    if i < n and spec[i] == "0":
        p.zero = True
        i += 1
    j = i
    while j < n and spec[j] in "0123456789":
        j += 1
    p.width = int(spec[i:j]) if j > i else None
    i = j
    p.group = None
    if i < n and spec[i] in ",_":
        p.group = spec[i]
        i += 1
    p.prec = None
    if i < n and spec[i] == ".":
        j = i + 1
        while j < n and spec[j] in "0123456789":
            j += 1
        if j == i + 1:
            return None
        p.prec = int(spec[i + 1:j])
        i = j
    p.type = None
    if i < n and spec[i] in TYPES:
        p.type = spec[i]
        i += 1
    if i != n:
        return None
    return p


def max_number(spec):
    """largest digit run in the spec (to keep CPython from allocating gigabytes)"""
    best = 0
    cur = ""
    for c in spec + "x":
        if c in "0123456789":
            cur += c
        else:
            if cur:
                best = max(best, int(cur))
            cur = ""
    return best


HUGE = 200000


def expected(spec, kind, value):
    """What the property demands: 'ok:<hex>' / 'err' (CPython raises); ('minlen', n) when CPython would
    have to build a padded text of n >= HUGE characters (not executed); None = no verdict (a float
    precision >= HUGE: CPython would print that many digits)."""
    m = max_number(spec)
    if m >= HUGE:
        p = py_parse_spec(spec)
        if p is None or m >= 2 ** 63:
            return "err"        # not in the grammar / CPython: "Too many decimal digits in format string"
        if p.prec is not None and p.prec >= HUGE and kind != "s":
            if kind == "f" or p.type in FLOAT_TYPES:
                # a float precision above INT_MAX: "precision too big"; below it CPython would print the digits
                return "err" if p.prec > 2 ** 31 - 1 else None
            return "err"        # "Precision not allowed in integer format specifier"
        if p.width is not None and p.width >= HUGE:
            i = spec.index(str(p.width))
            try:
                format(value, spec[:i] + "1" + spec[i + len(str(p.width)):])
            except (ValueError, OverflowError):
                return "err"
            return ("minlen", p.width)
    try:
        t = format(value, spec)
    except (ValueError, OverflowError):
        return "err"
    return "ok:" + hexs(t.encode("utf-8", "surrogatepass"))


def matches(got, exp):
    if exp is None:
        return True
    if isinstance(exp, tuple):
        if got == "err":
            return True         # running out of memory is an acceptable way to fail
        if got.startswith("ok:"):
            return len(unhex(got[3:]).decode("utf-8")) >= exp[1]
        return False
    return got == exp


# ------------------------------------------------------------------ shapes of the known findings

def nonascii(s):
    return any(ord(c) > 127 for c in s)


def shape(spec, kind, value):
    """A-priori predicate on (spec, value): the first known-finding key whose shape this input has, or
    None.  Mirrors `InDomain` of lean/PV/C18/Thm.lean (an input with no shape is inside the domain)."""
    ks = shapes(spec, kind, value)
    return ks[0] if ks else None


def shapes(spec, kind, value):
    """all known-finding shapes of (spec, value)"""
    out = []
    eff = spec
    p = py_parse_spec(eff)
    if p is not None:
        _shapes(p, eff, kind, value, out)
    return out


def _repr_tie_even(v):
    """the exact value of v has one more significant digit than repr(v), that digit is 5 and the digit
    before it is even: CPython's shortest repr rounds half to even, Rust's Display rounds it up"""
    from decimal import Decimal
    ex = Decimal(abs(v)).as_tuple().digits
    while len(ex) > 1 and ex[-1] == 0:
        ex = ex[:-1]
    sh = [int(c) for c in repr(abs(v)).split("e")[0] if c.isdigit()]
    sh = [d for d in "".join(map(str, sh)).strip("0")]
    return len(ex) == len(sh) + 1 and ex[-1] == 5 and ex[-2] % 2 == 0 and len(sh) >= 16


def _shapes(p, eff, kind, value, out):
    add = out.append
    floaty = kind == "f" or (kind in "ib" and p.type in FLOAT_TYPES)
    numeric = kind in "ibf"
    if p.z:
        if floaty:
            add("z-flag-rejected")
        return
    if kind == "s":
        if p.group or p.type not in (None, "s"):
            return
        if p.sign or p.alt:
            return                      # rejected by both
        return
    if kind in "ib" and floaty and F64_MAX_INT < abs(int(value)) < 2 ** 1024 - 2 ** 970:
        add("int-float-above-max-rejected")
    if kind in "ib" and p.type == "c":
        if p.sign or p.alt or p.group:
            return                      # rejected by both
        if p.prec is None and 0xD800 <= int(value) <= 0xDFFF:
            add("int-c-surrogate-rejected")
        return
    if kind == "f" and p.type is None and math.isfinite(value):
        v = value
        if p.prec is None and _repr_tie_even(v):
            add("float-repr-tie-rounds-up")


# which observed failures a shape explains (so that a different failure on the same input is reported)
_EXPLAINS = {
    "z-flag-rejected": lambda got, exp: got == "err" and not exp == "err",
    "int-c-surrogate-rejected": lambda got, exp: got == "err" and exp != "err",  # a Rust String cannot hold a lone surrogate
    "int-float-above-max-rejected": lambda got, exp: got == "err" and exp != "err",
    "float-repr-tie-rounds-up": lambda got, exp: got.startswith("ok:") and exp != "err",
}


def results_of(impl_out, n):
    """per-value results of an answer line: list of 'ok:..'/'err'/'panic' (length n) or None if unparsable"""
    ws = impl_out.split(" ")
    if ws[0] == "perr" and len(ws) == 1:
        return ["err"] * n
    if ws[0] == "panic" and len(ws) == 1:
        return ["panic"] * n
    if len(ws) != n + 1 or not ws[0].startswith("c="):
        return None
    return ws[1:]


def judge(req, impl_out):
    """-> list of (kind, value, got, exp, key-or-None) for every value whose result is not what CPython gives"""
    spec, vals = parse_req(req)
    res = results_of(impl_out, len(vals))
    if res is None:
        return [("?", None, impl_out, "?", None)]
    bad = []
    for (k, v), got in zip(vals, res):
        exp = expected(spec, k, v)
        if matches(got, exp):
            continue
        key = None
        for cand in shapes(spec, k, v):
            if _EXPLAINS[cand](got, exp):
                key = cand
                break
        bad.append((k, v, got, exp, key))
    return bad


def _show(x):
    if isinstance(x, tuple):
        return "text of >= %d characters" % x[1]
    if isinstance(x, str) and x.startswith("ok:"):
        return repr(unhex(x[3:]).decode("utf-8", "surrogatepass"))
    return x


def oracle(req, impl_out):
    """Judge the implementation against CPython's format(value, spec)."""
    if impl_out in ("(panic)", "(abort)", "(timeout)", "bad-request"):
        return "implementation " + impl_out
    bad = judge(req, impl_out)
    if not bad:
        return None
    spec, _ = parse_req(req)
    parts = []
    bad.sort(key=lambda b: b[4] is not None)        # deviations without a listed shape first
    for k, v, got, exp, key in bad[:6]:
        vv = v if not (isinstance(v, int) and abs(v) > 10 ** 30) else "int(%d digits)" % len(str(abs(v)))
        parts.append(f"format({vv!r}, {spec!r}): got {_show(got)}, CPython {_show(exp)}" + (f" [{key}]" if key else ""))
    return "; ".join(parts) + (f" (+{len(bad) - 6} more)" if len(bad) > 6 else "")


def classify(req, impl_out, model_out, failure):
    """A request line is a known finding only if *every* deviating value on it has a listed shape and
    the model predicts the implementation's answer."""
    if model_out is not None and model_out != impl_out:
        return None
    if not failure:
        return None
    bad = judge(req, impl_out)
    if not bad or any(b[4] is None for b in bad):
        return None
    return bad[0][4]


# ------------------------------------------------------------------ generators

PROBES = [
    # (key, spec, value)
    ("z-flag-rejected", "z.1f", -0.0),
    ("int-float-above-max-rejected", "e", F64_MAX_INT + 1),
    ("float-repr-tie-rounds-up", "", 600377706905611.2),
    ("int-c-surrogate-rejected", "c", 0xD800),
]

REGRESSION = [
    # former known-finding probes, repaired in /repo (commit in the comment): a regression is a VIOLATION
    ("!r", 1),  # conv-prefix-accepted e5c4721
    (",e", 1.0),  # group-exp-type-panic a6de50b
    ("+", "a"),  # str-sign-accepted 19885fd
    ("#", "a"),  # str-alt-accepted 19885fd
    (".1", "é"),  # str-precision-bytes 19885fd
    ("5.2", "abc"),  # str-precision-after-padding 19885fd
    ("5", True),  # bool-default-type-ignores-spec 54c4118
    (".2c", 65),  # int-c-precision-accepted b3fed62
    ("5c", 255),  # int-c-nonascii-width b3fed62
    ("c", 0xD800),  # int-c-surrogate-panic b3fed62
    ("10,", 1234),  # group-width-zero-pads a6de50b
    ("08,", float("inf")),  # group-nonfinite-zero-pad a6de50b
    (",", 1e100),  # float-group-in-exponent-text a6de50b
    ("4294967301", 1),  # width-wraps-i32 b59d482
    ("2147483648", 1), ("10,", 1234567), (">10_x", 48879), ("015,.2f", float("inf")), ("012,e", 1234.5), (",g", 1e100), ("_%", 0.5),
    ("+.3", "abc"), ("#5", "é"), ("10.2", "日本語x"), ("é<6.2", "日本語x"), ("05", True), (",", True), ("#x", True), (" ", False),
    ("6c", 233), ("06c", 0x65E5), (".0c", 65), ("c", 0xDFFF), ("c", 0xE000), ("c", 0xD7FF),
    # fixed in /repo by 5be0365 (is_integer exact) and 668a737 (format_general precision 0 -> 1); kept as regressions
    ("", 0.9999999999999999), (".0", 0.5), (".0", 0.05), (".0", 5.0), ("#.0", 0.5), (",.0", 0.5), ("", 1.0000000000000002),
    ("012,", 1234567), ("0=12,", 1234567), ("08,", -1234), ("07,", 1234), ("06,", 1234), ("05,", 1234),
    ("#010_x", 123), ("#09_b", 255), ("04,", 123), ("+#012_X", 48879), ("_b", 255), ("_o", 4095),
    ("*^+#012,.3f", 123456.789), ("'>5", -12), ("x<05", 7), ("é^7", "ab"), ("日>4", "é"),
    (".65535f", 0.5), (".65532g", 0.5), ("70000", ""), ("c", 0x10FFFF), ("c", 0x110000), ("c", -1),
    ("e", 2 ** 53 + 1), (".17e", 2 ** 53 + 3), (".17e", 2 ** 54 + 2), (".17e", 2 ** 54 + 6), ("e", F64_MAX_INT),
    ("e", 2 ** 1024), ("%", 1.7976931348623157e308), (".3%", 0.12345), ("N", 1), ("s", 1), ("d", "a"),
    ("18446744073709551615", 1), ("18446744073709551616", 1), (".2147483647", "a"), (".2147483648", 1.0), (".9223372036854775808", "a"),
    ("2147483648", 1), ("9223372036854775808", 1), (",_", 1), ("_,", 1), (",,", 1), (".", 1), ("0", 1), ("00", 1),
    ("g", True), ("e", False), ("c", True), ("s", True), ("N", True), ("n", 1234567), ("n", 1234.5),
    # precision-over-65535-panic, fixed in /repo by 1c70d07 (float.rs asks format! for at most 1100 digits):
    # precisions around format!'s u16 limit and around the digit clamp, on the doubles with the most digits
    (".65536f", 1.0), (".65534e", 1.5), (".65535e", 1.5), (".65536e", 1.5), (".65535g", 1e-5), (".65536g", 1e-5),
    (".65533g", 0.0001), (".65534g", 0.0001), (".65536G", 1.5), (".65536%", 0.125), (".65535%", 0.125),
    (".65536", 0.1), ("#.65536", 1e-7), (".65536n", 0.1), (",.65536f", 1234567.5), ("070010.70000f", -1.5),
    (".70000f", 0.1), (".70000e", 5e-324), (".70000g", 0.1), (".70000%", 0.5), (".70000", 123.456), ("_.70000E", 1e22),
    (".65536f", 3), (".65536e", True), (".65536%", 7), (".65536f", float("inf")), (".65536e", float("nan")),
    (".1073f", 5e-324), (".1074f", 5e-324), (".1075f", 5e-324), (".1099e", 5e-324), (".1100e", 5e-324), (".1101e", 5e-324),
    (".1101g", 5e-324), (".1102g", 2.225073858507201e-308), (".766e", 2.225073858507201e-308),
    (".767e", 2.225073858507201e-308), (".1100f", 2.225073858507201e-308), (".1101f", 1.7976931348623157e308),
    (".1101e", 1.7976931348623157e308), (".1100%", 5e-324), (".1101%", 5e-324), (".1102", 5e-324), ("#.1101g", 0.1),
    (".199999f", 0.1),
    # float-percent-overflow-alt, fixed by ca95121
    ("#.0%", 1.7976931348623157e308), ("#.0%", 1.7976931348623157e306), ("#.0%", 1.797693134862316e306), (".0%", 1.7976931348623157e308),
    ("#%", 1.7976931348623157e308), ("#.0%", 0.5), ("#.0%", -1.7976931348623157e308), ("#010.0%", 1e308), ("#,.0%", 1e307), ("#.0%", 10 ** 307),
    # float-default-type-alt-no-point, fixed by dabde2e
    ("#", 1e100), ("#", 1.5e100), ("#", 1e16), ("#", 1e-5), ("#", 1.0), ("#", 0.0), ("#", -1e16), ("#,", 1e16), ("#,", 12345678.0),
    ("#010", 1e22), ("#", float("inf")), ("#", float("nan")), ("+#", 2e-7), ("#", 9999999999999998.0), ("#_", 1e16), ("#", 123456789012345680.0),
    # float-default-type-precision-no-dot-zero, fixed by 6610c77
    (".5", 1.0), (".5", 100.0), (".5", 12345.0), (".5", 1234.0), ("#.5", 1.0), (".1", 1.0), ("#.1", 1.0), (".3", 0.0), (".2", 1.0), (".3", 10.0),
    ("#.3", 10.0), (",.6", 1234.0), (".1", 0.5), (".2", 9.96), (".17", 1.0), (".3", -100.0), ("08.3", 10.0), (".6", 99999.5), (".6", 999999.5),
    (".16", 1e15), (".17", 1e16), (".1", 9.5), ("_.9", 12345678.0), (".5", 1e-5), (".5", 0.0001), ("#.5", 0.0001),
    # str-eq-align-accepted / str-zero-flag-pads-left, fixed by 9bdbe36 (the 0 flag no longer implies '=' at parse time)
    ("=5", "a"), ("05", "a"), ("0=5", "a"), ("x=5", "a"), ("=", "a"), ("=5s", "a"), ("0<5", "a"), ("0>5", "a"), ("0^5", "a"),
    ("<05", "a"), (">05", "a"), ("^05", "a"), ("005", "a"), ("05.1", "abc"), ("03", "abc"), ("07s", "é日"), ("0", "a"),
    ("05", 1), ("05", -1), ("<05", -1), (">05", -1), ("^05", -1), ("=5", -1), ("x=5", -1), ("0=5", -1), ("+05", 7),
    ("05", True), ("05", 1.5), ("05", -1.5), ("06", float("-inf")), ("06", float("nan")), ("<06", -1.5), ("08,", 1234),
    ("<08,", 1234), ("08,.1f", -1234.5), ("05c", 65), ("05x", 255), ("#06x", 255), ("05%", 0.5), ("=6e", 1.0),
    # precision-over-i32-rejected, fixed by 45bc6fb (the parser's limit is isize::MAX; floats reject above i32::MAX)
    (".2147483648", "a"), (".2147483648s", "abc"), (".9223372036854775807", "a"), (".9223372036854775808", "a"),
    (".2147483648f", 1.0), (".2147483648", 1.0), (".2147483648", 1), (".2147483648d", 1), (".2147483648f", 1),
    (".2147483648e", True), (",.2147483648s", "a"), (".2147483648c", 65), (".2147483648x", 1.0), (".2147483648%", 0.5),
    (".2147483648g", float("inf")), (".2147483648", float("nan")), (".2147483647s", "é日x"), ("5.4294967296", "ab"),
    (".18446744073709551615", "a"), (".18446744073709551616", "a"),
]


def _specs(maxlen):
    for n in range(maxlen + 1):
        for tup in itertools.product(ALPHABET, repeat=n):
            yield "".join(tup)


FILLS = list("*0 x!z{}=<+-#.,_sd1") + ["é", "日", "😀", "́"]
ALL_TYPES = list(TYPES) + ["N", ""]


def _rand_spec(rng):
    s = ""
    r = rng.random()
    if r < 0.35:
        s += rng.choice(FILLS) + rng.choice(ALIGN)
    elif r < 0.55:
        s += rng.choice(ALIGN)
    if rng.random() < 0.3:
        s += rng.choice("+- ")
    if rng.random() < 0.2:
        s += "#"
    if rng.random() < 0.3:
        s += "0"
    if rng.random() < 0.7:
        s += str(rng.choice([0, 1, 2, 3, 4, 5, 6, 7, 8, 9, 10, 11, 12, 13, 15, 16, 17, 20, 25, 31, 32, 33, 40, 64, 100]))
    if rng.random() < 0.35:
        s += rng.choice(",_")
    if rng.random() < 0.4:
        s += "." + str(rng.choice([0, 1, 2, 3, 4, 5, 6, 7, 10, 15, 16, 17, 18, 20, 25, 30, 50, 100, 340]))
    s += rng.choice(ALL_TYPES)
    return s


def _mutate(rng, s):
    cs = list(s)
    for _ in range(rng.choice([1, 1, 2])):
        op = rng.randrange(4)
        pos = rng.randrange(len(cs) + 1)
        pool = ALPHABET + list("EFGN{}:9") + ["日"]
        if op == 0:
            cs.insert(pos, rng.choice(pool))
        elif op == 1 and cs:
            del cs[min(pos, len(cs) - 1)]
        elif op == 2 and cs:
            cs[min(pos, len(cs) - 1)] = rng.choice(pool)
        elif len(cs) >= 2:
            i = min(pos, len(cs) - 2)
            cs[i], cs[i + 1] = cs[i + 1], cs[i]
    return "".join(cs)


def _rand_int(rng):
    r = rng.random()
    if r < 0.25:
        return rng.randrange(-1000, 1000)
    if r < 0.5:
        k = rng.randrange(1, 70)
        return rng.choice([1, -1]) * (10 ** k + rng.choice([-1, 0, 1]))
    if r < 0.75:
        k = rng.randrange(1, 1100)
        return rng.choice([1, -1]) * (2 ** k + rng.choice([-1, 0, 1, 2 ** max(k - 53, 0), 3 * 2 ** max(k - 54, 0)]))
    return rng.choice([1, -1]) * rng.getrandbits(rng.choice([8, 16, 31, 32, 33, 63, 64, 65, 128, 400]))


def _rand_float(rng):
    r = rng.random()
    if r < 0.15:
        return rng.choice([0.0, -0.0, float("inf"), float("-inf"), float("nan"), 5e-324, 2.2250738585072014e-308,
                           1.7976931348623157e308, 1e22, 1e23, 0.1, 0.5, 1.5, 2.5, 0.125, 0.375, 1e15, 1e16, 1e17,
                           9.5, 10.5, 99.5, 0.05, 0.15, 0.25, 0.35, 1e-4, 1e-5, 9.9999e-5, 123456.789])
    if r < 0.4:
        return rng.choice([1, -1]) * rng.randrange(0, 10 ** rng.randrange(1, 18)) / 10 ** rng.randrange(0, 8)
    if r < 0.6:
        return rng.choice([1, -1]) * float("%de%d" % (rng.randrange(1, 10 ** rng.randrange(1, 17)), rng.randrange(-330, 300)))
    if r < 0.75:
        # exact decimal ties at small precision
        return rng.choice([1, -1]) * (rng.randrange(0, 4000) * 2 + 1) / 2 ** rng.randrange(1, 6)
    b = rng.getrandbits(64)
    return funbits("%016x" % b)


def _rand_str(rng):
    n = rng.choice([0, 1, 1, 2, 3, 3, 4, 5, 7, 10, 20])
    return "".join(rng.choice(list("abxyz 01_") + ["é", "日", "😀", "́", "ß"]) for _ in range(n))


def _rand_vals(rng):
    return ([_rand_int(rng) for _ in range(3)] + [_rand_float(rng) for _ in range(3)] +
            [_rand_str(rng) for _ in range(2)] + [rng.random() < 0.5])


def _kind(v):
    return "b" if isinstance(v, bool) else "i" if isinstance(v, int) else "f" if isinstance(v, float) else "s"


def _validate_spec(ctx):
    """Spec validation (DESIGN 1.1): run the Lean reference `Spec.pyFormat` (driver op `pyfmt`) and
    CPython on the same inputs.  A difference is a defect of the *spec*, never a violation of the
    property: it is recorded in the evidence (`spec_validation`) and in the notes only."""
    import core
    drv = core.driver_path(DRIVER)
    import os
    if not os.path.exists(drv):
        return
    fixed = INTS + STRS + BOOLS + FLOATS + [0.9999999999999999, 600377706905611.2, 1e22, 1e23, 0.1, 9.5, 99999.5]
    reqs = [mkreq(s, fixed) for s in _specs(3 if ctx.quick else 4)]
    rng = ctx.rng("spec-validation")
    for _ in range(5000 if ctx.quick else 100000):
        s = _rand_spec(rng)
        if rng.random() < 0.15:
            s = _mutate(rng, s)
        if max_number(s) >= 20000:
            continue
        reqs.append(mkreq(s, _rand_vals(rng)))
    for _, s, v in PROBES:
        if max_number(s) < 20000:
            reqs.append(mkreq(s, [v]))
    for s in [".2147483648f", ".2147483648", ".2147483648%", ".2147483648g", ".2147483648x", ",.2147483648e",
              ".2147483648s", ".9223372036854775807", ".2147483648n", "z.2147483648f"]:
        reqs.append(mkreq(s, [1.0, float("inf"), float("nan"), 1, True, "a"]))
    outs = core.run_lines([drv], ["py" + r for r in reqs], jobs=4 if ctx.quick else 16)
    checked = bad = 0
    examples = []
    for r, o in zip(reqs, outs):
        spec, vals = parse_req(r)
        res = o.split(" ")
        if len(res) != len(vals):
            bad += 1
            examples.append(f"{spec!r}: {o[:80]}")
            continue
        for (k, v), got in zip(vals, res):
            checked += 1
            exp = expected(spec, k, v)
            if not matches(got, exp):
                bad += 1
                if len(examples) < 5:
                    examples.append(f"pyFormat({spec!r}, {v!r}) = {_show(got)}, CPython {_show(exp)}")
    ctx.extra["spec_validation"] = {"what": "Lean Spec.pyFormat vs CPython format()", "lines": len(reqs),
                                    "values_checked": checked, "mismatches": bad, "examples": examples}
    if bad:
        ctx.notes.append(f"SPEC DEFECT: Spec.pyFormat differs from CPython on {bad} inputs, e.g. {examples[:2]}")
    # how much of the input space the theorems' domain covers, and that it avoids every listed shape
    dreqs = reqs[:25260] if len(reqs) > 25260 else reqs
    douts = core.run_lines([drv], ["dom" + r[3:] for r in dreqs], jobs=4 if ctx.quick else 16)
    fouts = core.run_lines([drv], ["ffacts" + r[3:] for r in dreqs], jobs=4 if ctx.quick else 16)
    tot = ins = clash = free_out = 0
    ftot = fin = ffalse = ffalse_unexplained = 0
    clashes = []
    fex = []
    for r, o, fo in zip(dreqs, douts, fouts):
        spec, vals = parse_req(r)
        res = o.split(" ")
        fres = fo.split(" ")
        if len(res) != len(vals) or len(fres) != len(vals):
            continue
        for (k, v), d, f in zip(vals, res, fres):
            tot += 1
            sh = shape(spec, k, v)
            if k == "f":
                ftot += 1
                if f == "0":
                    ffalse += 1
                    pp = py_parse_spec(spec)
                    if not (pp is not None and pp.type is None and pp.prec is None and math.isfinite(v) and _repr_tie_even(v)):
                        ffalse_unexplained += 1
                        if len(fex) < 5:
                            fex.append(f"{spec!r} {v!r}")
                d = "1" if (d == "1" and f == "1") else "0"
                fin += d == "1"
            if d == "1":
                ins += 1
                if sh is not None:
                    clash += 1
                    if len(clashes) < 5:
                        clashes.append(f"{spec!r} {v!r} [{sh}]")
            elif sh is None:
                free_out += 1
    ctx.extra["theorem_domain"] = {
        "what": "Lean InDomain (Thm.lean; for doubles: InDomain and FloatDigitFacts) evaluated on the exhaustive "
                "len<=3 specs x fixed values and the random spec-validation lines",
        "pairs": tot, "in_domain": ins, "in_domain_with_known_shape": clash, "examples": clashes,
        "outside_domain_without_known_shape": free_out}
    ctx.extra["float_digit_facts"] = {
        "what": "FloatDigitFacts (ReprDigits / '%' product facts of PV.Dec: the hypothesis of "
                "format_float_eq_partial) decided by the driver for every (spec, double) pair above",
        "pairs": ftot, "in_domain_and_facts_hold": fin, "facts_false": ffalse,
        "facts_false_not_explained_by_repr_tie_finding": ffalse_unexplained, "examples": fex}
    if clash:
        ctx.notes.append(f"InDomain contains {clash} inputs that have a known-finding shape, e.g. {clashes[:2]}")
    if ffalse_unexplained:
        ctx.notes.append(f"FloatDigitFacts is false on {ffalse_unexplained} (spec, double) pairs that are not repr ties, "
                         f"e.g. {fex[:2]}")


def streams(ctx):
    out = []
    try:
        _validate_spec(ctx)
    except Exception as e:  # never lets a spec-validation problem disturb the check
        ctx.notes.append(f"spec validation not run: {e!r}")
    # 1. one deterministic probe per listed known finding + regression inputs
    reqs = [mkreq(s, [v]) for _, s, v in PROBES] + [mkreq(s, [v]) for s, v in REGRESSION]
    out.append(Stream("corpus", reqs, kind="corpus",
                      note="one probe per known finding, then regression inputs (grouping boundaries, limits)"))

    # 1b. characters that are spec syntax only to byte-level code (same low byte as a spec character)
    import lexcommon
    syn = "".join(c for c in ALPHABET if ord(c) < 0x80)
    al = list(dict.fromkeys(a for t in list(_specs(2)) + [x for _, x, _ in PROBES] + [x for x, _ in REGRESSION] + ["<10d", "+#012,.3f", "*^20s", ">08.3e", "=+10_x", "10.4%"]
                            for a in lexcommon.trunc_aliases(t, syn)))
    out.append(Stream("truncation-aliases", [mkreq(a, [1234567, "abc", 1.5]) for a in al], kind="directed",
                      note="specs with one syntax character replaced by a letter that has the same low byte (U+01xx / U+100xx): "
                           "it is a fill character or an error, never the syntax character"))

    # 2. exhaustive small scope
    L = 3 if ctx.quick else 4
    fixed = INTS + STRS + BOOLS + FLOATS
    out.append(Stream(f"specs-exhaustive-len<={L}", [mkreq(s, fixed) for s in _specs(L)], kind="exhaustive",
                      exhaustive=True,
                      note=f"every spec string of length <= {L} over {''.join(ALPHABET)!r} x {len(fixed)} fixed values "
                           "(8 ints incl. a 200-bit one, 5 texts incl. multi-byte, 2 bools, 15 doubles incl. specials)",
                      nontrivial=lambda r: r.split(" ")[1] != "-"))

    # 3. grouping x width sweep (the separate_integer / insert_separator arithmetic)
    reqs = []
    gi = [0, 7, 12, 123, 1234, -1234, 12345, 123456, 1234567, 2 ** 64, 10 ** 30, BIG]
    for pre in ["0", "+0", "#0", " #0", "0=", "*=0", "-0", "", ">", "<", "x^", "0>", "0<", "+#"]:
        for w in range(0, 45 if ctx.quick else 80):
            for g in ",_":
                for t in ["", "d", "b", "o", "x", "X"]:
                    reqs.append(mkreq(f"{pre}{w}{g}{t}", gi))
    out.append(Stream("grouping-width-sweep", reqs, kind="exhaustive", exhaustive=True,
                      note="grouping with and without sign-aware zero padding: every width 0..44 (79) x separator x radix x sign/prefix forms x 12 ints"))

    # 4. structured random specs (mostly valid), values outside the listed finding shapes
    rng = ctx.rng("random")
    n = 30000 if ctx.quick else 150000
    reqs = []
    for _ in range(n):
        s = _rand_spec(rng)
        if rng.random() < 0.15:
            s = _mutate(rng, s)
        if max_number(s) >= HUGE:
            continue
        vals = [v for v in _rand_vals(rng) if shape(s, _kind(v), v) is None]
        if vals:
            reqs.append(mkreq(s, vals))
    out.append(Stream("random-structured", reqs, kind="random",
                      note="field-wise generated specs (15% mutated) x random ints/doubles/texts/bools; inputs with the "
                           "shape of a listed known finding are filtered out"))

    # 5. malformed
    rng = ctx.rng("malformed")
    n = 10000 if ctx.quick else 60000
    reqs = []
    pool = ALPHABET + list("EFGNrsa{}:;9") + ["日", "😀", "́", "18446744073709551616", "99999999999999999999",
                                              "2147483648", "00000000000000000000005"]
    for _ in range(n):
        k = rng.randrange(0, 9)
        s = "".join(rng.choice(pool) for _ in range(k))
        m = max_number(s)
        if HUGE <= m < 2 ** 64:
            continue                    # accepted widths that would allocate gigabytes: see the corpus probes
        vals = [v for v in [rng.choice(INTS), rng.choice(STRS), rng.choice(FLOATS), rng.random() < 0.5]
                if shape(s, _kind(v), v) is None]
        if vals:
            reqs.append(mkreq(s, vals))
    out.append(Stream("malformed", reqs, kind="malformed",
                      note="random symbol soup incl. multi-byte, braces, upper-case types, 20-digit numbers"))
    return out


def search(ctx, disagreements, bins):
    """Model and implementation disagree but CPython was satisfied on those lines: look for a concrete
    input near the disagreements on which the implementation differs from CPython."""
    import subprocess
    hbin = bins[(HARNESS["bin"], HARNESS["features"])]
    rng = ctx.rng("search")
    cands = []
    for e in disagreements[:50]:
        spec, vals = parse_req(e["request"])
        for _ in range(40):
            s2 = _mutate(rng, spec)
            if max_number(s2) >= HUGE:
                continue
            cands.append(mkreq(s2, [v for _, v in vals] + [rng.choice(INTS), rng.choice(FLOATS), rng.choice(STRS)]))
    if not cands:
        return None
    p = subprocess.run([hbin], input="\n".join(cands) + "\n", stdout=subprocess.PIPE, text=True)
    for r, a in zip(cands, p.stdout.split("\n")):
        bad = [b for b in judge(r, a) if b[4] is None]
        if bad:
            return {"request": r, "impl": a, "failure": oracle(r, a), "stream": "violation-search"}
    return None
