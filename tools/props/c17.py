"""C17 — float text conversions: repr, float() parsing, hex, printf-style %f/%e/%g.

Real code: rustpython_literal::float (literal/src/float.rs).  Oracle: CPython 3.11 itself
(repr, float, float.hex, float.fromhex, '%' formatting), bits <-> float through struct."""
import itertools
import re
import struct
from fractions import Fraction

import core
from core import Stream, hexs, unhex

ID = "C17"
DESIGN_REF = "DESIGN.md section 5, C17"
LEAN_TARGETS = ["PV.C17.Thm", "PV.C17.ReprRT", "PV.C17.Minimal", "PV.C17.OfRatSound"]
DRIVER = "drv_c17"
HARNESS = {"bin": "pvh_c17", "features": "default"}
THEOREMS = [
    "PV.C17.strip_underlines_spec",
    "PV.C17.parse_bytes_eq_parse_str",
    "PV.C17.repr_special",
    "PV.C17.repr_shape",
    "PV.C17.repr_integer_dot_zero",
    "PV.C17.isInteger_iff_integer",
    "PV.C17.repr_roundtrip_partial",
    "PV.C17.repr_roundtrip_integer",
    # the round trip without hypotheses (ShortestRT.lean, OfRatRT.lean, ReprRT.lean)
    "PV.C17.repr_roundtrip",
    "PV.C17.repr_shape_full",
    "PV.C17.decFacts_all",
    "PV.C17.shortest_roundtrip",
    "PV.C17.fracDigits_of_not_integer",
    "PV.Dec.shortestInt_mem",
    "PV.Dec.shortest_mem",
    "PV.Dec.ofDecimal_of_mem",
    "PV.Dec.ofRat_of_mem",
    "PV.Dec.ilog2_spec",
    "PV.Dec.ilog2_unique",
    "PV.Dec.roundHalfEven_eq",
    # minimality of the shortest digits (Minimal.lean)
    "PV.Dec.shortest_minimal",
    "PV.Dec.shortestInt_minimal",
    "PV.Dec.shortestAt_none_complete",
    "PV.Dec.shortestGo_first",
    # the parser is sound: what parses to a double lies in its rounding interval (OfRatSound.lean)
    "PV.Dec.shortest_minimal_all",
    "PV.Dec.ofDecimal_sound",
    "PV.Dec.ofDecimal_iff",
    "PV.Dec.ofRat_cases",
    "PV.Dec.roundHalfEven_sound",
    "PV.C17.hex_eq_py",
    "PV.C17.hex_roundtrip_partial",
    "PV.C17.hex_roundtrip_zero_inf",
    "PV.C17.hex_roundtrip",
    "PV.C17.exponent_two_digits",
    "PV.C17.exponent_eq_py",
    "PV.C17.exponent_reads_back",
    "PV.C17.format_fixed_eq_printf",
    "PV.C17.format_exponent_eq_printf",
    "PV.C17.general_decision_eq_printf",
    "PV.C17.fixed_digits_beyond_1074_are_zeros",
    "PV.C17.exp_digits_beyond_1100_are_zeros",
    "PV.C17.format_clamp_invisible",
    "PV.C17.from_hex_inexact_rejected",
    # facts about PV.Dec itself
    "PV.Dec.ofDigits_natDigits",
    "PV.Dec.natDigits_lt10",
    "PV.Dec.natDigits_length_of_bounds",
    "PV.Dec.roundHalfEven_half_unit",
    "PV.Dec.roundHalfEven_tie_even",
    "PV.Dec.fixedInt_half_unit",
    "PV.Dec.ilog10_spec",
    "PV.Dec.expRound_bounds",
    "PV.Dec.expDigits_length",
    "PV.Dec.ilog2_scale2",
    "PV.Dec.ofRat_pow2",
    "PV.Dec.ofRat_ten",
    "PV.C17.hexfConvert_exact",
    "PV.C17.hexFacts_all",
]
TRUSTED = [
    "Lean 4.33.0 kernel; axioms limited to propext, Classical.choice, Quot.sound",
    "hand-written model lean/PV/C17/Model.lean of literal/src/float.rs, tied to the code by the correspondence "
    "streams of this run",
    "PV.Dec (lean/PV/C17/Dec.lean) as the contract of Rust's float formatting ({:e}, {:.N}, {:.Ne}, Display), of "
    "lexical-parse-float and of hexf-parse: exact big-Nat arithmetic, sampled against the real primitives through "
    "the harness on every run (rfix/rexp/rsci/rdisp streams), not proved equal to them",
    "CPython 3.11.7 as the meaning of Python's repr / float() / float.hex / float.fromhex / % formatting; "
    "lean/PV/C17/Spec.lean is executed against it on every run (spec validation)",
    "tools/props/c17.py (generators, oracle), harness/src/bin/pvh_c17.rs, lean/Drv/C17.lean",
]
PARTIAL = [
    "repr_roundtrip (parse_str(to_string x) = x for EVERY finite double) and repr_shape_full carry no hypothesis any "
    "more: PV.C17.DecFacts is the theorem decFacts_all. Its two parts are proved for all 2^64 patterns: "
    "shortest_mem (the digits chosen by PV.Dec.shortest denote a decimal inside the rounding interval of the double; "
    "the search never runs out of fuel because at 17 significant digits a candidate always exists), "
    "ofDecimal_of_mem / ofRat_of_mem (PV.Dec.ofDecimal is correctly rounded: every decimal inside the rounding interval "
    "of a finite non-zero double, end points included iff the mantissa is even, with the narrower lower half interval "
    "at a power of two, parses to that double - subnormals, the smallest normal and f64::MAX included), and "
    "fracDigits_of_not_integer (no integer lies in the rounding interval of a non-integer double). "
    "repr_roundtrip_partial (with the hypothesis) is kept as the string-layer lemma. DecFacts is still evaluated by the "
    "driver on every sampled finite double as a cross-check of the proof (coverage.dec_facts). What this is relative to: "
    "PV.Dec.shortest / ofDecimal as the contracts of Rust's {:e} and of lexical-parse-float (sampled, see below).",
    "'is a shortest such rendering' is proved relative to PV.Dec: shortest_minimal_all - for every finite non-zero "
    "double and both tie rules, NO digit string (digits < 10, any exponent, either sign) that PV.Dec.ofDecimal parses "
    "back to the double is shorter than the digits PV.Dec.shortest returns. Built from shortest_minimal (no decimal "
    "inside the rounding interval is shorter: shortestAt_none_complete, shortestGo_first) and ofDecimal_sound (a "
    "decimal that parses to the double lies in its rounding interval, i.e. decimals outside parse to something else: "
    "ofRat_cases, roundHalfEven_sound); ofDecimal_iff states parsing-to-bits = interval membership exactly, end-point "
    "rule included. Still only sampled: that Rust's {:e}/Display (Grisu/Dragon) equals PV.Dec.shortest and "
    "lexical-parse-float equals PV.Dec.ofDecimal (the oracle also compares the digit count with CPython's repr on "
    "every sampled double).",
    "hex_roundtrip and hex_eq_py are proved for every double, relative to the model of hexf-parse's scanner and "
    "convert_hexf64 (modelled line by line incl. their u64/isize Inexact exits; tied to the crate by the from-hex "
    "streams).",
    "Acceptance-set equality of the parser with Python's float() grammar (Spec.pyFloatRe) is not proved in Lean; it is "
    "checked exhaustively for every string of length <= 5 (quick) / 6 (thorough) over 12 symbols plus structured "
    "random and malformed texts, against CPython itself; strip_underlines_spec proves the underscore rule for all texts.",
    "That Rust's formatting / lexical / hexf primitives equal PV.Dec (correctly rounded digits, shortest digits with "
    "ties upwards, correctly rounded parsing) is sampled by the dec-primitives and parse streams, not proved.",
    "One full statement still FAILS on the code, with a witnessed negation: from_hex on inexact input "
    "(from_hex_inexact_rejected; known finding fromhex-hexf-inexact). The four other former findings were repaired in "
    "/repo (5be0365, 8617a1f, 03089a4, 668a737) and their theorems are now unrestricted.",
]
READY = True
TECHNIQUE = ("Lean 4 theorems over a hand-written model built on exact big-Nat binary<->decimal arithmetic + "
             "boundary-directed and exhaustive-small-scope correspondence with the real crate, judged by CPython")
LEVEL_TEXT = ("Machine-checked Lean 4 theorems over an executable model of literal/src/float.rs built on exact big-Nat "
              "binary<->decimal arithmetic: underscore stripping accepts exactly 'underscores between digits' (all "
              "texts); repr has Python's shape and special names; parse_str(to_string x) = x for every finite double with no "
              "hypothesis (the shortest digits lie in the double's rounding interval, and the correctly rounded decimal "
              "parser maps every decimal of that interval back to the double - both proved for all bit patterns); "
              "the repr digits are minimal: no digit string that parses back to the double is shorter (shortest_minimal_all; "
              "parsing to a double = lying in its rounding interval, ofDecimal_iff); "
              "to_hex equals float.hex() for every double and from_hex(to_hex x) = x for every non-NaN double (through "
              "a line-by-line model of hexf-parse, with ofRat proved exact on representable values); the exponent "
              "suffix is sign + >= 2 digits and reads back; "
              "format_fixed / format_exponent / format_general equal ISO C %f/%e/%g (with '#') over correctly rounded "
              "digits for all doubles and all precisions 0..; rounding is within half a unit, ties to even. "
              "One remaining deviation from Python (from_hex rejects inexact input) is proved as a witnessed negation "
              "and listed as a known finding; four others were repaired in /repo and are now regression probes. The model is "
              "tied to the Rust code on every run by boundary-directed and exhaustive-small-scope correspondence, and "
              "the real code is judged directly by CPython (repr, float, float.hex, float.fromhex, %).")
LEVEL_NOTE = ("Trusted: Lean kernel (propext/Classical.choice/Quot.sound only); fidelity of the hand model and of PV.Dec "
              "to Rust's float formatting, lexical-parse-float and hexf-parse as sampled by correspondence (every "
              "binary exponent, +-2 ulp around every power of two and ten and around integers, ties at every "
              "precision 0..20, all strings of length <= 5/6 over 12 symbols); CPython 3.11 as the reference; "
              "generator, oracle, harness, driver.")
RULE = ("request lines (double bit pattern or candidate text x conversion) sent to both the real crate and the "
        "Lean model; distinct = distinct request line; non-trivial = every request")

NEAR_ONE = (0x3FEFFFFFFFFFFFFF, 0xBFEFFFFFFFFFFFFF)
SIGN = 1 << 63
EXPMASK = 0x7FF << 52


def b2f(b):
    return struct.unpack("<d", struct.pack("<Q", b))[0]


def f2b(f):
    return struct.unpack("<Q", struct.pack("<d", f))[0]


def show_f(f):
    return "nan" if f != f else str(f2b(f))


def is_finite_bits(b):
    return (b & EXPMASK) != EXPMASK


# ---------------------------------------------------------------- oracle (CPython)

_FIXED = re.compile(r"-?\d+\.\d+\Z")
_EXP = re.compile(r"-?\d(\.\d+)?e[+-]\d{2,}\Z")


def _digits(s):
    m = s.lstrip("-").split("e")[0]
    return m.replace(".", "")


def _repr_failure(bits, s):
    v = b2f(bits)
    if v != v:
        return None if s == "nan" else f"NaN rendered {s!r}"
    py = repr(v)
    if s == py:
        return None
    if v in (float("inf"), float("-inf")):
        return f"rendered {s!r}, Python {py!r}"
    try:
        back = float(s)
    except ValueError:
        return f"rendering {s!r} is not a float literal"
    if f2b(back) != bits:
        return f"rendering {s!r} parses back to {back!r}, not to {py}"
    if not (_FIXED.match(s) or _EXP.match(s)):
        return f"rendering {s!r} has neither Python's fixed nor exponent shape (Python: {py})"
    if ("e" in s) != ("e" in py):
        return f"rendering {s!r} uses the wrong notation (Python: {py})"
    if re.sub(r"\d", "d", s) != re.sub(r"\d", "d", py) or s.split("e")[1:] != py.split("e")[1:]:
        return f"rendering {s!r} is not laid out like a shortest rendering (Python: {py})"
    a, b = _digits(s), _digits(py)
    if a[:-1] != b[:-1]:
        return f"rendering {s!r} differs from the shortest digits {py} before the last digit"
    return None      # equally short, round-trips, same shape: only the last digit of an exact tie differs


_HEXRE = re.compile(r"([+-]?)(?:0[xX])?([0-9a-fA-F]*)(?:\.([0-9a-fA-F]*))?(?:[pP]([+-]?\d+))?\Z")


def _hex_exact(s):
    """exact rational value of a hex float text accepted by float.fromhex (no whitespace)"""
    m = _HEXRE.match(s)
    if not m:
        return None
    ip, fp, ex = m.group(2) or "", m.group(3) or "", int(m.group(4) or "0")
    if not ip and not fp:
        return None
    if abs(ex) > 100000:
        return None
    mant = int((ip + fp) or "0", 16)
    return Fraction(mant) * Fraction(2) ** (ex - 4 * len(fp)), (ip + fp)


def _py_fromhex(s):
    try:
        return show_f(float.fromhex(s))
    except (ValueError, OverflowError):
        return "none"


def _py_float(x):
    try:
        return show_f(float(x))
    except ValueError:
        return "none"


def _py_fmt(kind, v, p, case, alt):
    k = kind.upper() if case == "u" else kind
    return ("%" + ("#" if alt else "") + ".*" + k) % (p, v)


def oracle(req, out):
    ws = req.split()
    op = ws[0]
    if out in ("(panic)", "(abort)", "(timeout)", "panic") or "panic" in out.split(";"):
        return "implementation panicked: " + out[:60]
    if op == "ftoa":
        if not out.startswith("="):
            return "unparsable answer"
        return _repr_failure(int(ws[1]), out[1:])
    if op == "ftoart":
        b = int(ws[1])
        exp = "nan" if b2f(b) != b2f(b) else str(b)
        return None if out == exp else f"parse_str(to_string(x)) = {out}, expected {exp} ({b2f(b)!r})"
    if op == "fhex":
        v = b2f(int(ws[1]))
        return None if out == "=" + v.hex() else f"to_hex = {out[1:]!r}, float.hex() = {v.hex()!r}"
    if op == "fhexrt":
        b = int(ws[1])
        exp = "nan" if b2f(b) != b2f(b) else str(b)
        return None if out == exp else f"from_hex(to_hex(x)) = {out}, expected {exp}"
    if op == "fromhex":
        try:
            s = unhex(ws[1]).decode("ascii")
        except UnicodeDecodeError:
            return None
        exp = _py_fromhex(s)
        return None if out == exp else f"from_hex({s!r}) = {out}, float.fromhex gives {exp}"
    if op == "atof":
        try:
            s = unhex(ws[1]).decode("ascii")
        except UnicodeDecodeError:
            return None          # non-ASCII input is outside the property
        exp = _py_float(s)
        return None if out == exp else f"parse_str({s!r}) = {out}, float() gives {exp}"
    if op == "atofb":
        b = unhex(ws[1])
        if any(c >= 128 for c in b):
            return None
        exp = _py_float(b)
        return None if out == exp else f"parse_bytes({b!r}) = {out}, float() gives {exp}"
    if op in ("ffmt", "ffmts"):
        if op == "ffmt":
            kind, b, p, case, alt, asf = ws[1], int(ws[2]), int(ws[3]), ws[4], ws[5] == "1", ws[6] == "1"
            lo = hi = p
        else:
            kind, b, case, alt, asf, lo, hi = ws[1], int(ws[2]), ws[3], ws[4] == "1", ws[5] == "1", int(ws[6]), int(ws[7])
        if asf or (b & SIGN):
            # `always_shows_fract` is the no-type format() layout (C18), negative inputs are not
            # magnitudes: both outside this property, correspondence only
            return None
        v = b2f(b)
        outs = out.split(";")
        if len(outs) != hi - lo + 1:
            return "unparsable answer"
        for p, o in zip(range(lo, hi + 1), outs):
            exp = "=" + _py_fmt(kind, v, p, case, alt)
            if o != exp:
                return f"format {kind} precision {p} of {v!r}: {o[1:]!r}, Python '%{'#' if alt else ''}.{p}{kind}' gives {exp[1:]!r}"
        return None
    return None


def classify(req, impl_out, model_out, failure):
    ws = req.split()
    op = ws[0]
    if not failure:
        return None
    if op == "fromhex" and impl_out == "none":
        s = unhex(ws[1]).decode("ascii", "replace")
        ex = _hex_exact(s)
        if ex is None:
            return None
        val, digs = ex
        try:
            f = float.fromhex(s)
        except (ValueError, OverflowError):
            return None
        sig = digs.lstrip("0")
        if Fraction(f) != val or len(sig) > 16:
            return "fromhex-hexf-inexact"
        return None
    return None


# ---------------------------------------------------------------- value sets

def _dedup(xs):
    seen, out = set(), []
    for x in xs:
        if x not in seen and 0 <= x < (1 << 64):
            seen.add(x)
            out.append(x)
    return out


def _no_known(xs):
    return list(xs)      # (the former finding at +-0.9999999999999999 is repaired: nothing to keep out)


def specials():
    return [0, SIGN, 0x7FF0000000000000, 0xFFF0000000000000, 0x7FF8000000000000, 0xFFF8000000000000,
            0x7FF0000000000001, 0x7FFFFFFFFFFFFFFF, 1, 2, 3, SIGN | 1, (1 << 52) - 1, 1 << 52, (1 << 52) + 1,
            0x7FEFFFFFFFFFFFFF, 0xFFEFFFFFFFFFFFFF, 0x7FEFFFFFFFFFFFFE, 1 << 51, (1 << 51) + 1, (1 << 51) - 1]


def exponent_sweep(rng, nrand):
    out = []
    for e in range(0, 2047):
        for f in [0, 1, (1 << 52) - 1, (1 << 51)] + [rng.getrandbits(52) for _ in range(nrand)]:
            out.append((e << 52) | f)
    return out


def pow10_neighbours():
    out = []
    for k in range(-324, 309):
        b = f2b(float("1e%d" % k))
        out += [b + d for d in (-2, -1, 0, 1, 2)]
    return out


def pow2_neighbours():
    out = []
    for k in range(-1074, 1024):
        b = f2b(2.0 ** k)
        out += [b + d for d in (-2, -1, 0, 1, 2)]
    return out


def integer_neighbours(rng):
    out = []
    ints = set()
    for k in range(0, 54):
        ints.update([2 ** k - 1, 2 ** k, 2 ** k + 1])
    for k in range(0, 17):
        ints.update([10 ** k - 1, 10 ** k, 10 ** k + 1, 5 * 10 ** k, 10 ** k + 10 ** (k // 2)])
    ints.update(range(0, 40))
    ints.update([2 ** 53 - 1, 2 ** 53, 2 ** 53 + 2, 9999999999999998, 9999999999999999, 10 ** 16 + 2, 123456789012345678])
    for _ in range(60):
        ints.add(rng.randrange(0, 2 ** 53))
    for n in sorted(ints):
        b = f2b(float(n))
        out += [b + d for d in (-2, -1, 0, 1, 2)]
    return out


def ties():
    """(bits, tie precision for %f) for dyadic fractions whose decimal expansion ends in 5 at that position"""
    out = []
    for j in range(1, 22):
        for n in (0, 1, 2, 3, 7, 12, 2 ** 20 + 1, 10 ** 6 + 3):
            x = (2 * n + 1) / 2.0 ** j
            out.append(f2b(x))
            out.append(f2b(x + 3.0))
    for k in range(1, 17):       # x.5 integers + halves
        for m in (0, 1, 2, 5, 8, 9):
            out.append(f2b(m * 10.0 ** (k - 1) + 0.5))
    return out


def random_bits(rng, n):
    return [rng.getrandbits(64) for _ in range(n)]


def subnormals(rng, n):
    return [rng.getrandbits(52) for _ in range(n)] + [rng.getrandbits(k) for k in range(1, 52)]


def with_negatives(xs, every=5):
    return xs + [x | SIGN for x in xs[::every]]


# ---------------------------------------------------------------- text sets

ALPHA = ["0", "1", "_", ".", "e", "+", "-", " ", "i", "n", "f", "a"]
HEXALPHA = ["0", "1", "x", ".", "p", "+", "-", "a"]


def _all_texts(alpha, maxlen):
    for n in range(maxlen + 1):
        for t in itertools.product(alpha, repeat=n):
            yield "".join(t)


def _num_text(rng):
    """mostly valid numerals"""
    def digitpart(lo=1, hi=6):
        n = rng.randrange(lo, hi)
        s = ""
        for i in range(n):
            if i and rng.random() < 0.15:
                s += "_"
            s += rng.choice("0123456789")
        return s
    r = rng.random()
    if r < 0.08:
        body = rng.choice(["inf", "Infinity", "INFINITY", "nan", "NaN", "iNf", "infinitY", "NAN"])
    else:
        form = rng.randrange(4)
        if form == 0:
            body = digitpart()
        elif form == 1:
            body = digitpart() + "." + (digitpart() if rng.random() < 0.8 else "")
        elif form == 2:
            body = "." + digitpart()
        else:
            body = digitpart(1, 25) + "." + digitpart(1, 25)
        if rng.random() < 0.5:
            body += rng.choice("eE") + rng.choice(["", "+", "-"]) + digitpart(1, 4)
    s = rng.choice(["", "", "+", "-"]) + body
    ws = [" ", "\t", "\n", "\r", "\x0c", "\x0b", "  "]
    if rng.random() < 0.3:
        s = rng.choice(ws) + s
    if rng.random() < 0.3:
        s = s + rng.choice(ws)
    return s


def _mutate(rng, s):
    ops = rng.randrange(4)
    pos = rng.randrange(len(s) + 1)
    junk = rng.choice(["_", "__", ".", "e", "E", "+", "-", " ", "x", "f", "0", "9", "\x00", "n", "é", "\x0b", "\x1c", "٣"])
    if ops == 0:
        return s[:pos] + junk + s[pos:]
    if ops == 1 and s:
        return s[:pos] + s[pos + 1:]
    if ops == 2 and s:
        return s[:pos] + junk + s[pos + 1:]
    return s + junk


def _halfway_texts(rng, n):
    """decimal texts at, just below and just above the midpoint of two adjacent doubles"""
    out = []
    for _ in range(n):
        e = rng.choice([0, 1, 2, 1000, 1022, 1023, 1024, 1075, 1076, 1100, 2045, rng.randrange(0, 2046)])
        b = (e << 52) | rng.getrandbits(52)
        a, c = Fraction(b2f(b)), Fraction(b2f(b + 1))
        mid = (a + c) / 2
        k = mid.denominator.bit_length() - 1
        if k > 1100 or mid.numerator.bit_length() > 1100:
            continue
        num = mid.numerator * 5 ** k
        for d in (-1, 0, 1):
            digs = str(num * 10 + d)
            ex = -k - 1
            if rng.random() < 0.5 and len(digs) > 3:
                # move the point inside
                cut = rng.randrange(1, len(digs))
                out.append(f"{digs[:cut]}.{digs[cut:]}e{ex + len(digs) - cut}")
            else:
                out.append(f"{digs}e{ex}")
    return out


def _hex_text(rng):
    ip = "".join(rng.choice("0123456789abcdefABCDEF") for _ in range(rng.randrange(0, 4)))
    fp = "".join(rng.choice("0123456789abcdefABCDEF") for _ in range(rng.randrange(0, 11)))
    if not ip and not fp:
        ip = "1"
    s = rng.choice(["", "", "+", "-"]) + rng.choice(["0x", "0X", "", "0x"]) + ip
    if fp or rng.random() < 0.3:
        s += "." + fp
    if rng.random() < 0.8:
        s += rng.choice("pP") + rng.choice(["", "+", "-"]) + str(rng.randrange(0, 1100 if rng.random() < 0.2 else 60))
    return s


# ---------------------------------------------------------------- streams

def _fmt_reqs(bits, kinds="feg", cases="lu", alts=(0, 1), lo=0, hi=20):
    out = []
    for b in bits:
        for kind in kinds:
            for case in cases:
                for alt in alts:
                    out.append(f"ffmts {kind} {b} {case} {alt} 0 {lo} {hi}")
    return out


def _bits_reqs(bits):
    out = []
    for b in bits:
        out += [f"ftoa {b}", f"ftoart {b}", f"fhex {b}", f"fhexrt {b}"]
    return out


def _prim_reqs(bits, precs):
    out = []
    for b in bits:
        out += [f"rdisp {b}"]
        if is_finite_bits(b):
            out += [f"rsci {b}"]
        for p in precs:
            out.append(f"rfix {b} {p}")
            if is_finite_bits(b):
                out.append(f"rexp {b} {p}")
    return out


def _spec_validation(ctx, bits, texts):
    """Run the Spec definitions (Lean) next to CPython. A difference is a defect of Spec.lean."""
    drv = core.driver_path(DRIVER)
    reqs, exp = [], []
    for b in bits:
        v = b2f(b)
        reqs.append(f"pyrepr {b}")
        exp.append("=" + repr(v))
        reqs.append(f"pyhex {b}")
        exp.append("=" + v.hex())
        if not (b & SIGN):
            for kind in "feg":
                for p in (0, 1, 2, 6, 17, 20):
                    for case in "lu":
                        for alt in (0, 1):
                            reqs.append(f"pyfmt {kind} {b} {p} {case} {alt}")
                            exp.append("=" + _py_fmt(kind, v, p, case, bool(alt)))
    for t in texts:
        reqs.append("pyfloat " + hexs(t))
        exp.append(_py_float(t))
    got = core.run_lines([drv], reqs, jobs=4 if ctx.quick else 16)
    bad = [(r, e, g) for r, e, g in zip(reqs, exp, got) if e != g]
    ctx.extra["spec_validation"] = {"requests": len(reqs), "mismatches": len(bad),
                                    "first": [{"request": r, "cpython": e, "spec": g} for r, e, g in bad[:5]],
                                    "note": "lean/PV/C17/Spec.lean (pyRepr, pyHex, cPrintfF/E/G, pyFloat) executed "
                                            "against CPython 3.11; a mismatch is a defect of the spec file"}
    if bad:
        ctx.notes.append(f"SPEC VALIDATION: {len(bad)} mismatches between Spec.lean and CPython, first: {bad[0]}")


def streams(ctx):
    out = []
    q = ctx.quick
    rng = ctx.rng("values")

    # ---- the one remaining known finding: deterministic probes
    probes = ["fromhex " + hexs("0x1.00000000000001p0"), "fromhex " + hexs("0x1p-1075"),
              "fromhex " + hexs("0x10000000000000000p0"), "fromhex " + hexs("1.fffffffffffff8p0")]
    out.append(Stream("known-finding-probes", probes, kind="corpus",
                      note="deterministic requests for the listed known finding fromhex-hexf-inexact"))
    # ---- regression corpus: the inputs of the four findings repaired in /repo (5be0365, 8617a1f, 03089a4,
    # 668a737); ordinary requests now, so a regression is a VIOLATION
    regress = [f"ftoa {NEAR_ONE[0]}", f"ftoart {NEAR_ONE[0]}", f"ftoa {NEAR_ONE[1]}", f"ftoart {NEAR_ONE[1]}",
               "fhex 1", f"fhex {1 << 51}", f"fhex {(1 << 52) - 1}", f"fhex {SIGN | 12345}", f"fhexrt {SIGN | 12345}",
               "atofb " + hexs(b"\x0b1"), "atofb " + hexs(b"1.5\x0b"), "atofb " + hexs(b" \x0b-1e3\x0b\n"),
               f"ffmt g {f2b(5.0)} 0 l 0 0", f"ffmt g {f2b(0.0)} 0 u 1 0", f"ffmt g {f2b(123.0)} 0 l 0 0",
               f"ffmt g {f2b(0.5)} 0 l 0 1", f"ffmts g {f2b(0.00390625)} l 1 0 0 3"]
    out.append(Stream("repaired-findings-regression", regress, kind="corpus",
                      note="inputs of the repaired findings (repr near one, subnormal hex text, vertical tab, %g precision 0)"))

    # ---- corpus of boundary doubles
    corpus_vals = [f2b(x) for x in (1.0, 1e16, 1e15, 9999999999999998.0, 1e-4, 1e-5, 0.0001234, 0.00009999999999999999,
                                     5e-324, 1e22, 1e23, 123456789012345680.0, 1.5, 100.0, 1e100, 1.5e-7, 2.0 ** -25,
                                     1125899906842624.25, 0.1, 0.3, 1 / 3, 2.675, 0.5, 2.5, 0.125, 1e21, 1e-7,
                                     4503599627370495.5, 4503599627370496.0, 9007199254740992.0, 0.30000000000000004)]
    corpus_vals = with_negatives(_dedup(specials() + corpus_vals), 2)
    out.append(Stream("corpus-doubles", _bits_reqs(corpus_vals) + _fmt_reqs([b for b in corpus_vals]),
                      kind="corpus", note="specials, extremes, notation boundaries, past problem values"))

    # ---- every binary exponent
    sweep = _no_known(_dedup(exponent_sweep(rng, 1 if q else 6)))
    out.append(Stream("every-binary-exponent", _bits_reqs(with_negatives(sweep, 9)), kind="exhaustive",
                      note="all 2047 finite exponent fields x {min, 1, half, max, random} mantissas: repr, round trip, hex"))
    p10 = _no_known(_dedup(pow10_neighbours()))
    out.append(Stream("power-of-ten-neighbours", _bits_reqs(with_negatives(p10, 7)), kind="exhaustive",
                      note="0, +-1, +-2 ulp around 10^k for every k in [-324, 308]"))
    p2 = _no_known(_dedup(pow2_neighbours()))
    out.append(Stream("power-of-two-neighbours", _bits_reqs(p2 if not q else p2[::3] + p2[5 * 1074 - 300:5 * 1074 + 300]),
                      kind="exhaustive" if not q else "directed",
                      note="0, +-1, +-2 ulp around 2^k for every k in [-1074, 1023]"))
    ints = _no_known(_dedup(integer_neighbours(rng)))
    out.append(Stream("integer-neighbours", _bits_reqs(with_negatives(ints, 4)), kind="directed",
                      note="0, +-1, +-2 ulp around integers: 2^k(+-1), 10^k(+-1) up to 10^16, 0..39, random < 2^53"))
    rnd = _no_known(_dedup(random_bits(rng, 3000 if q else 400000) + subnormals(rng, 300 if q else 5000)))
    out.append(Stream("random-doubles", _bits_reqs(rnd), kind="random", note="uniform bit patterns and subnormals"))

    # ---- printf-style renderers
    fm = _dedup(specials() + ties() + p10[::(9 if q else 2)] + ints[::(5 if q else 1)] + sweep[::(40 if q else 5)] +
                random_bits(rng, 200 if q else 5000))
    fm = [b for b in fm]
    out.append(Stream("format-f-e-g-precisions-0..20", _fmt_reqs(fm, cases="l") + _fmt_reqs(fm[::3], cases="u"),
                      kind="directed",
                      note="format_fixed/exponent/general at every precision 0..20, both alternate-form "
                           "settings, ties at every precision, powers of ten and integers +-ulp; judged by CPython '%'"))
    asf = [f"ffmts g {b} l {alt} 1 0 20" for b in fm[::(7 if q else 2)] for alt in (0, 1)]
    neg = [r.replace(f" {b} ", f" {b | SIGN} ") for b in fm[::(11 if q else 3)] if is_finite_bits(b)
           for r in _fmt_reqs([b], cases="l", alts=(0,))]
    # ---- precisions around the digit clamp of float.rs (MAX_FLOAT_DIGITS = 1100) and around format!'s u16 limit;
    # the values with the most digits a double can have: 5e-324 (last non-zero decimal at position 1074),
    # the largest subnormal (767 significant digits, 1074 decimals), f64::MIN_POSITIVE, f64::MAX
    deep = [f2b(x) for x in (5e-324, 2.225073858507201e-308, 2.2250738585072014e-308, 1.7976931348623157e308,
                            0.1, 1.5, 1e-5, 0.0001, 123456789.0, 0.0, 1e22, 2.0 ** -1000 * 3)]
    precs = [340, 750, 751, 752, 766, 767, 768, 1073, 1074, 1075, 1076, 1099, 1100, 1101, 1102, 1103, 1500,
             65533, 65534, 65535, 65536, 65537, 70000]
    big = []
    for b in (deep[:4] + deep[5:6] if q else deep):
        for pr in precs:
            for kind in "feg":
                for alt in ((0,) if pr > 2000 and q else (0, 1)):
                    big.append(f"ffmt {kind} {b} {pr} l {alt} 0")
    big += [f"ffmt e {f2b(1.5)} 1200 u 0 0", f"ffmt g {f2b(1e-7)} 65536 u 1 0", f"ffmt f {f2b(float('inf'))} 70000 l 0 0",
            f"ffmt e {f2b(float('nan'))} 65536 l 0 0", f"ffmt g {f2b(float('inf'))} 65536 u 0 0",
            f"ffmt f {f2b(0.1)} 200000 l 0 0", f"ffmt e {f2b(0.1)} 200000 l 0 0", f"ffmt g {f2b(1e-9)} 200000 l 1 0"]
    if not q:
        big += [f"ffmt f {f2b(5e-324)} 1000000 l 0 0", f"ffmt e {f2b(5e-324)} 1000000 l 0 0"]
    out.append(Stream("format-precision-clamp-and-u16-limit", big, kind="directed",
                      note="format_fixed/exponent/general at precisions around the last non-zero digit a double can "
                           "have (751/767 significant, 1074 decimals), around MAX_FLOAT_DIGITS = 1100 and around "
                           "format!'s u16 limit (65535, 65536, 70000, 200000); judged by CPython '%'"))
    out.append(Stream("format-general-no-type-and-negative", asf + neg, kind="directed",
                      note="always_shows_fract=true (format() without a type, C18's domain) and negative inputs: "
                           "model correspondence only, no oracle"))

    # ---- the Rust formatting primitives PV.Dec stands for
    pv = _dedup(specials() + ties() + p10[::(5 if q else 1)] + sweep[::(10 if q else 1)] + ints[::(3 if q else 1)] +
                random_bits(rng, 500 if q else 20000))
    out.append(Stream("dec-primitives", _prim_reqs(with_negatives(pv, 6), (0, 1, 2, 5, 16, 17, 20) if q else tuple(range(0, 22)) + (30, 40)),
                      kind="directed",
                      note="PV.Dec against Rust's {:.N}, {:.Ne}, {:e}, Display (the trusted digit generation)"))

    # ---- candidate numeric strings
    L = 5 if q else 6
    texts = list(_all_texts(ALPHA, L))
    out.append(Stream(f"parse-str-exhaustive-len<={L}", ["atof " + hexs(t) for t in texts], kind="exhaustive",
                      exhaustive=True, note="every string over {0 1 _ . e + - space i n f a}; judged by CPython float()"))
    Lb = 4 if q else 5
    balpha = ["0", "1", "_", ".", "e", "-", " ", "\t", "\x0b", "n", "a"]
    out.append(Stream(f"parse-bytes-exhaustive-len<={Lb}", ["atofb " + hexs(t) for t in _all_texts(balpha, Lb)],
                      kind="exhaustive", exhaustive=True,
                      note="parse_bytes over {0 1 _ . e - space tab vertical-tab n a}; judged by CPython float(bytes)"))
    trng = ctx.rng("texts")
    n = 4000 if q else 150000
    valid = [_num_text(trng) for _ in range(n)]
    hard = _halfway_texts(trng, 300 if q else 20000)
    long_ = []
    for _ in range(60 if q else 1500):
        nd = trng.choice([17, 18, 19, 20, 21, 40, 100, 400, 770, 800])
        ds = "".join(trng.choice("0123456789") for _ in range(nd))
        long_.append(trng.choice(["", "0.", "0.000"]) + ds + trng.choice(["", "e-5", "e300", "e-330", "e-%d" % nd, "e%d" % (308 - nd)]))
    corpus_txt = ["1e400", "-1e400", "1e-400", "01.5", "0_0", "1__0", "1_.5", "1._5", "1e_5", "1e5_", "_1", "1_", "1e+_5",
                  "infinity", "INF", "iNfInItY", "nAn", "+nan", "-nan", "-inf", "infinit", "in", "nan ", "\t1\n",
                  "\x0b1\x0c", "1e", "e5", ".e5", "1.e5", ".5e-3", "+.5", "-.", "+", "1e+", "0x10", "1f", "i_nf", "1_e5",
                  "1e1_0", "1_0e1_0", "1_0.0_1", "inf_", "1e99999999999999999999", "1e-99999999999999999999",
                  "0e99999999999999999999", "0." + "0" * 400 + "1e401", "1" + "0" * 400 + "e-400",
                  "2.4703282292062327e-324", "2.4703282292062328e-324", "1.7976931348623157e308",
                  "1.7976931348623158e308", "1.7976931348623159e308", "179769313486231580793728971405303415079934132710037826936173778980444968292764750946649017977587207096330286416692887910946555547851940402630657488671505820681908902000708383676273854845817711531764475730270069855571366959622842914819860834936475292719074168444365510704342711559699508093042880177904174497791",
                  "179769313486231580793728971405303415079934132710037826936173778980444968292764750946649017977587207096330286416692887910946555547851940402630657488671505820681908902000708383676273854845817711531764475730270069855571366959622842914819860834936475292719074168444365510704342711559699508093042880177904174497792",
                  "9007199254740993", "9007199254740992.5", "9007199254740993.0000000000000000000000001", "1e23", "8.5e22",
                  " ", "", "+ 1", "1 e5", "--1", "1..", "1ee5", "1e5.", "\xa01", "1 ", "　1"]
    # every Unicode White_Space character (and look-alikes that are not) around a numeral: str::trim's table
    for cp in list(range(0x00, 0x21)) + [0x7F, 0x85, 0xA0, 0x1680, 0x180E, 0x2028, 0x2029, 0x202F, 0x205F, 0x2060,
                                          0x3000, 0xFEFF] + list(range(0x1FFF, 0x200D)):
        corpus_txt += [chr(cp) + "1.5", "1.5" + chr(cp), chr(cp) + "nan" + chr(cp)]
    out.append(Stream("parse-str-structured", ["atof " + hexs(t) for t in corpus_txt + valid + hard + long_] +
                      ["atofb " + hexs(t) for t in valid[::4]],
                      kind="random", note="grammar-generated numerals (underscores, exponents, whitespace, special names), "
                                          "decimal texts at/around midpoints of adjacent doubles, 17..800-digit mantissas"))
    mal = []
    for t in valid[: (2000 if q else 60000)]:
        m = _mutate(trng, t)
        mal.append("atof " + hexs(m))
        try:
            mal.append("atofb " + hexs(m.encode("latin-1")))
        except UnicodeEncodeError:
            pass
    out.append(Stream("parse-malformed", mal, kind="malformed", note="single edits of valid numerals"))

    # ---- hexadecimal texts
    Lh = 5 if q else 6
    out.append(Stream(f"from-hex-exhaustive-len<={Lh}", ["fromhex " + hexs(t) for t in _all_texts(HEXALPHA, Lh)],
                      kind="exhaustive", exhaustive=True,
                      note="every string over {0 1 x . p + - a}; judged by CPython float.fromhex"))
    hx = []
    hrng = ctx.rng("hex")
    for b in sweep[::(9 if q else 2)] + p2[::(25 if q else 3)]:
        h = b2f(b).hex()
        hx += [h, h.upper().replace("0X", "0x"), h.replace("0x", ""), "+" + h]
    for _ in range(2000 if q else 60000):
        t = _hex_text(hrng)
        ex = _hex_exact(t)
        if ex is not None:
            try:
                if Fraction(float.fromhex(t)) != ex[0]:
                    continue        # needs rounding: listed finding fromhex-hexf-inexact, probed once
            except (ValueError, OverflowError):
                pass
        hx.append(t)
    hx += ["inf", "-inf", "+Infinity", "nan", "-NaN", "+nan", "infinit", "0x", "0x.p0", ".", "p0", "1p", "0x1p", "1e5", "0x1e5",
           "0x1.8", "abc", "-0x0p0", "0x1p+-3", "0x0x1", "10x1p0", "1p0p0", "0x1.0000000000000p-1023", "0x0.8000000000000p-1022",
           "0x1p1023", "0x1p1024", "0x1.fffffffffffffp1023", "0x0p99999999999999999999", "1p99999999999999999999",
           "0x00000000000000000001p0", "0x.00000000000000000001p80", "0x1000000000000000p0", "0xfffffffffffff8p0"]
    out.append(Stream("from-hex-structured", ["fromhex " + hexs(t) for t in hx], kind="random",
                      note="float.hex() texts of sampled doubles in four spellings, grammar-generated hex numerals "
                           "(exactly representable), edge texts"))

    # ---- spec validation (Lean Spec vs CPython); results in evidence under coverage.spec_validation
    try:
        sv_bits = _dedup(specials() + corpus_vals + p10[::(25 if q else 3)] + sweep[::(60 if q else 6)] + ints[::(12 if q else 2)] +
                         ties()[::(4 if q else 1)] + list(NEAR_ONE))
        sv_txt = [t for t in texts if len(t) <= (4 if q else 5)] + valid[:(1500 if q else 30000)] + corpus_txt[:60] + hard[:200]
        sv_txt = [t for t in sv_txt if t.isascii()]
        _spec_validation(ctx, sv_bits, sv_txt)
    except Exception as e:       # never let the reference cross-check break the property check
        ctx.notes.append(f"spec validation could not run: {e!r}")

    # ---- DecFacts (a theorem since decFacts_all; formerly the hypothesis of repr_roundtrip_partial / repr_shape) and
    # HexFacts, still evaluated by the model on every sampled finite double as a cross-check
    try:
        fin = [b for b in _dedup(corpus_vals + sweep + p10 + p2 + ints + rnd + list(NEAR_ONE)) if is_finite_bits(b)]
        got = core.run_lines([core.driver_path(DRIVER)], [f"decfacts {b}" for b in fin], jobs=4 if q else 16)
        failing = [b for b, g in zip(fin, got) if g != "ok"]
        ctx.extra["dec_facts"] = {"doubles": len(fin), "failing": len(failing), "failing_bits": failing[:10],
                                  "note": "PV.C17.DecFacts (proved for every finite double: decFacts_all) decided by drv_c17 "
                                          "as a cross-check; it must hold on every double"}
        if failing:
            ctx.notes.append(f"DEC FACTS: PV.C17.DecFacts (a theorem) evaluates to false on doubles {failing[:5]}")
        nz = [b for b in fin if b & (SIGN - 1)]
        got = core.run_lines([core.driver_path(DRIVER)], [f"hexfacts {b}" for b in nz], jobs=4 if q else 16)
        hfail = [b for b, g in zip(nz, got) if g != "ok"]
        ctx.extra["hex_facts"] = {"doubles": len(nz), "failing": len(hfail), "failing_bits": hfail[:10],
                                  "note": "PV.C17.HexFacts (hypothesis of hex_roundtrip_partial) decided by drv_c17"}
        if hfail:
            ctx.notes.append(f"HEX FACTS: hypothesis of hex_roundtrip_partial fails on {hfail[:5]}")
    except Exception as e:
        ctx.notes.append(f"dec-facts evaluation could not run: {e!r}")
    return out


def search(ctx, disagreements, bins):
    """Model and implementation disagree but the oracle was satisfied on that request: evaluate the
    property itself (CPython oracle) on the real implementation around the disagreeing inputs."""
    hbin = bins.get((HARNESS["bin"], HARNESS["features"]))
    if not hbin:
        return None
    reqs = []
    for e in disagreements[:200]:
        ws = e["request"].split()
        op = ws[0]
        if op in ("ftoa", "ftoart", "fhex", "fhexrt", "ffmts", "ffmt", "rfix", "rexp", "rsci", "rdisp", "isint"):
            b = int(ws[2] if op in ("ffmts", "ffmt") else ws[1])
            for d in (0, 1, -1, 2, -2):
                x = b + d
                if 0 <= x < (1 << 64):
                    reqs += _bits_reqs([x])
                    if not (x & SIGN):
                        reqs += _fmt_reqs([x])
        elif op in ("atof", "atofb", "fromhex"):
            t = unhex(ws[1])
            cands = {t, t.strip(), t.replace(b"_", b""), t.lower(), t.upper(), b"-" + t, t + b"0", t[:-1], t[1:]}
            if op != "fromhex":
                cands |= {b" " + t, t + b" "}
            for c in cands:
                if op == "fromhex" and c != c.strip():
                    continue        # from_hex's callers trim; surrounding whitespace is outside the property
                reqs.append(f"{op} " + hexs(c))
                if op != "fromhex":
                    reqs.append("atof " + hexs(c) if op == "atofb" else "atofb " + hexs(c))
    seen, uniq = set(), []
    for r in reqs:
        if r not in seen:
            seen.add(r)
            uniq.append(r)
    if not uniq:
        return None
    outs = core.run_lines([hbin], uniq, jobs=4)
    for r, o in zip(uniq, outs):
        try:
            f = oracle(r, o)
        except Exception:
            f = None
        if f and not classify(r, o, None, f):
            return {"request": r, "impl": o, "failure": f, "stream": "violation-search"}
    return None
