"""C04 — the syntax rules the parser claims to enforce are enforced, with the right error.

Requests describe the rule-checked construct abstractly (parameter list, argument list, bracket
word, indentation script, ...); the harness renders the text, runs the REAL parser and prints
`ok` / `(err <Kind> <offset relative to the construct>)`; the Lean driver answers from the model.
The oracle below re-implements the Spec predicates (Python's rules) independently of both and
judges the implementation: a construct that breaks a rule must be rejected, with a kind that names
the rule and an offset inside the offending construct.  CPython validates the Spec (pre_build).
"""
import ast
import itertools
import re
import warnings

import c04_sites
from core import Stream, hexs, unhex

ID = "C04"
DESIGN_REF = "DESIGN.md section 5, C04"
LEAN_TARGETS = ["PV.C04.Thm", "PV.C04.NumComplete", "PV.C04.IndentInv", "PV.C04.ProgRules"]
DRIVER = "drv_c04"
HARNESS = {"bin": "pvh_c04", "features": "default"}
THEOREMS = [
    "PV.C04.validatePosParams_iff",
    "PV.C04.validatePosParams_err",
    "PV.C04.validateArguments_iff",
    "PV.C04.validateArguments_err",
    "PV.C04.parseArgs_iff",
    "PV.C04.parseArgs_err",
    "PV.C04.matchGo_iff_dyck",
    "PV.C04.matchGo_rejects",
    "PV.C04.matchGo_err_position",
    "PV.C04.rawGo_ok_dyck",
    "PV.C04.rawGo_rejects",
    "PV.C04.compareStrict_none_iff",
    "PV.C04.compareStrict_iff",
    "PV.C04.python_inconsistent_rejected",
    "PV.C04.stricter_than_python",
    "PV.C04.scanWs_ok_iff",
    "PV.C04.scanWs_level",
    "PV.C04.scanWs_error",
    "PV.C04.dedentGo_spec",
    "PV.C04.mixCheck_iff",
    "PV.C04.mixCheck_none_iff",
    "PV.C04.bytesCheck_spec",
    "PV.C04.asUnderscore_iff",
    "PV.C04.parenCheck_star_iff",
    "PV.C04.parenCheck_dstar_iff",
    "PV.C04.charClass_unrecognized_iff",
    "PV.C04.chrCheck_rejects",
    "PV.C04.chrCheck_bang",
    "PV.C04.lexRest_sound",
    "PV.C04.acceptsNumber_sound",
    "PV.C04.malformed_number_rejected",
    "PV.C04.lexer_float_before_else",
    # --- number lexer COMPLETE for Python's numeric grammar (PV.C04.NumComplete) ---
    "PV.C04.usDigits_radixRun",
    "PV.C04.lexRest_vs_number",
    "PV.C04.acceptsNumber_complete",
    "PV.C04.acceptsNumber_eq_isNumber",
    "PV.C04.lexRest_error_not_literal",
    "PV.C04.lexRest_longest",
    "PV.C04.lexRest_complete",
    "PV.C04.lexRest_total",
    "PV.C04.lexRest_error_iff",
    "PV.C04.numMalformed_iff_spec",
    "PV.C04.lexRest_error_iff_spec",
    "PV.C04.lexRest_no_fallback",
    "PV.C04.number_suffix",
    "PV.C04.bareStar_iff",
    "PV.C04.checkSig_none_iff",
    "PV.C04.checkSig_kind",
    "PV.C04.fstr_leading_equals_rejected",
    "PV.C04.nestGo_eq_matchGo_erased",
    "PV.C04.nestGo_iff_dyck_erased",
    "PV.C04.softkw_error_transparent_fails",
    "PV.C04.softkw_error_cuts_line_partial",
    "PV.C04.indentGo_tab_after_space",
    "PV.C04.indentGo_dedent_unknown",
    # --- reachable states of the line driver (PV.C04.IndentInv): decomposition, stack invariant, line rules at file level ---
    "PV.C04.indentGo_cons",
    "PV.C04.indentGo_append",
    "PV.C04.indentCheck_split",
    "PV.C04.compareStrict_gt_trans",
    "PV.C04.dedentGo_suffix",
    "PV.C04.indentStep_inv",
    "PV.C04.indentRun_inv",
    "PV.C04.indentRun_chain",
    "PV.C04.indentStep_need",
    "PV.C04.indentRun_pos",
    "PV.C04.indentGo_inconsistent",
    "PV.C04.indentGo_unexpected_indent",
    "PV.C04.indentGo_expected_indent",
    "PV.C04.indentGo_expected_indent_eof",
    "PV.C04.indentCheck_dedent_unknown",
    "PV.C04.indentCheck_expected_indent",
    "PV.C04.indentCheck_unexpected_indent",
    "PV.C04.indentCheck_inconsistent",
    "PV.C04.indentCheck_expected_indent_eof",
    "PV.C04.dedentGo_tabError",
    "PV.C04.dedentGo_unknown",
    "PV.C04.indentStep_error_reason",
    "PV.C04.indentGo_eq_all",
    "PV.C04.indentAll_error",
    "PV.C04.indentCheck_rejection_reason",
    "PV.C04.indentCheck_none_iff",
    "PV.C04.lexStringBody_closed_iff",
    "PV.C04.bytesLit_rejects_nonAscii",
    "PV.C04.bytesLit_nonAscii_only",
    # --- rejection BY THE WHOLE PARSER (PV.C04.ProgRules over the program-level reference parser PV.Prog) ---
    "PV.C04.PR.dup_param_rejected",
    "PV.C04.PR.dup_param_items",
    "PV.C04.PR.default_order_rejected",
    "PV.C04.PR.bare_star_rejected",
    "PV.C04.PR.bare_star_then_kwargs_accepted",
    "PV.C04.PR.positional_after_keyword_rejected",
    "PV.C04.PR.unpack_after_double_star_rejected",
    "PV.C04.PR.repeated_keyword_rejected",
    "PV.C04.PR.argsReach_remembers",
    "PV.C04.PR.paren_lone_star_rejected",
    "PV.C04.PR.as_underscore_rejected",
    "PV.C04.PR.as_underscore_nested_rejected",
    "PV.C04.PR.dup_param_only_reason",
    "PV.C04.PR.def_accepted_of_valid",
    # the context lemmas (any nesting depth) and the induction over the 89 functions of both reference parsers
    "PV.C04.PR.c11Seg",
    "PV.C04.PR.progSeg",
    "PV.C04.PR.patSeg",
    "PV.C04.PR.top_at",
    "PV.C04.PR.lambda_context",
    "PV.C04.PR.def_context",
    "PV.C04.PR.class_context",
    "PV.C04.PR.case_context",
    "PV.C04.PR.return_context",
    "PV.C04.PR.at_context",
    "PV.C04.PR.line_context",
    "PV.C04.PR.first_line_context",
    "PV.C04.PR.operandSite_rejected",
    "PV.C04.PR.argSite_rejected",
    "PV.C04.PR.exDupMethod_rejected",
    "PV.C04.PR.exAsUnderscoreNested_rejected",
]
TRUSTED = [
    "Lean 4.33.0 kernel; axioms limited to propext, Classical.choice, Quot.sound",
    "hand-written model lean/PV/C04/Model.lean of the rule-checking kernels of parser/src/function.rs, the =>? "
    "actions of python.lalrpop, and the error arms of lexer.rs / string.rs, tied to the code by the "
    "correspondence streams of this run",
    "the LALRPOP automaton (python.rs) is not modelled: which reduction runs first and how the grammar treats the "
    "small token languages of the streams (numParse, rawGo, strParse, indentGo's block rule) is sampled by "
    "correspondence, not proved",
    "f64::from_str / BigInt::from_str_radix modelled by their documented grammar (fail exactly on a missing "
    "exponent digit / the empty digit string)",
    "CPython 3.11.7 (ast.parse / compile) as the meaning of 'Python rejects' for spec validation",
    "tools/props/c04.py (generators, independent Python oracle), harness/src/bin/pvh_c04.rs, lean/Drv/C04.lean",
    "for the whole-parser theorems (PV.C04.ProgRules): the program-level reference parser PV.Prog.parseProgram / "
    "PV.C11.Spec, hand-written from python.lalrpop and tied to rustpython_parser::parse by C01's prog-* / PROG's "
    "correspondence streams (same trees or both reject, on the real token stream), not by this check; its fuel "
    "monotonicity (PV.Prog.Mono / MonoC11, generated proofs) is what turns 'rejected' into 'rejected with every fuel'",
]
PARTIAL = [
    "whole-parser rejection (PV.C04.ProgRules) is proved for the grammar-level rules at these sites: parameter lists at "
    "every def token (async, decorated, methods, nested: any depth) and every lambda token (any expression depth); "
    "argument lists of every class statement (any depth) and of calls NAME(.NAME)*( … ) standing at the HEAD of an "
    "expression statement after any line break (any suite depth), of an assignment value on such a line, of a return "
    "value (any depth), of a decorator / right operand of '@' (any depth); parenthesised lone * / ** at the same "
    "operand positions; 'as _' directly after case and anywhere inside the pattern as long as no ':' / 'if' token "
    "precedes it in the pattern. NOT covered by a theorem (sampled by the site catalogue only): calls and parenthesised "
    "stars that are not the first operand of the expression (x + f(a=1, b), g(1, h(a=1, b)), f(…)(y), subscripts, "
    "with-items, for-iterables, if/while conditions, defaults, lambda bodies, class keyword values), callees other "
    "than dotted names, 'as _' after a mapping-pattern ':' (case {0: x as _}); the violating list itself is described "
    "through the parser's own item loops (parseTypedParams / parseParams without validation, TypedReach / LamReach / "
    "ArgsReach) — token-level only for lists printed from items (dup_param_items); error kind and offset are not part "
    "of these theorems (the reference parser has no error values); lexer-level rules are the lex_rejects family, not redone",
    "number lexer: both inclusions are theorems for texts of every length (lexRest_sound; PV.C04.NumComplete: "
    "acceptsNumber_eq_isNumber with no exclusion; lexRest_longest / lexRest_complete / lexRest_total: off the malformed "
    "shapes the token is THE longest numeric literal at the start of the text; lexRest_error_iff_spec: the lexer fails on "
    "exactly three shapes written with the grammar's nonterminals — radix prefix without a digit, digitpart '.' '_', "
    "leading-zero digit string with a nonzero digit not followed by '.', exponent or 'j'). On those shapes the lexer "
    "reports an error and does not fall back to the shorter literal (lexRest_no_fallback: 09, 1._, 0x); that CPython "
    "also rejects exactly those texts is judged by the oracle on the num streams, not proved (CPython's tokenizer is not "
    "modelled). Where lex_number is entered and what may follow the token is the numParse correspondence, not a theorem",
    "string / f-string scanners: lex_string is characterised for single-quoted literals (lexStringBody_closed_iff), "
    "triple-quoted ones only by correspondence; parse_fstring / parse_formatted_value / parse_spec are modelled and tied "
    "by exhaustive correspondence (all bodies of <=6 symbols) with one theorem (fstr_leading_equals_rejected: a field "
    "beginning with '=' is always rejected, the finding fixed by /repo d717a96); f-string malformedness in general has no "
    "Lean Spec, the oracle uses CPython",
    "whole-parameter-list glue: checkSig_none_iff / checkSig_kind / bareStar_iff relate the three checks to the "
    "reference predicates on what the grammar assembles (ast::Arguments); that the assembly keeps source order within "
    "each group is sampled by correspondence, not proved",
    "which reduction of the LR automaton runs first, and the grammar's treatment of the tiny token languages of the "
    "streams (numParse, rawGo trailers, strParse, indentGo block rule), are part of the tie, not of the theorems",
    "indentation: compare_strict, eat_indentation, the dedent search and the line driver indentGo are characterised for "
    "all inputs (PV.C04.IndentInv: the Chain invariant of the stack holds in every state reachable from the start of a "
    "file, so the file-level rules indentCheck_dedent_unknown / _expected_indent / _unexpected_indent / _inconsistent / "
    "_expected_indent_eof carry no hypothesis on the stack; indentCheck_rejection_reason: every rejection has one of "
    "these reasons). What stays outside the theorems: the abstraction of a physical line to (leading whitespace, "
    "opener | simple | blank | comment) and the parser's Indent/Dedent block rule that indentGo's `need` flag stands "
    "for (the LALRPOP automaton is not modelled) are tied by the exhaustive indent-script correspondence; no "
    "independent Spec of a 'well-indented file' (Python's tokenizer algorithm) is related to indentCheck as a whole, "
    "only rule by rule",
]
READY = True
TECHNIQUE = ("Lean 4 theorems (validate_iff per rule, bracket matcher = Dyck language, compare_strict = agreement for "
             "all tab widths, number lexer = Python's numeric grammar) over hand-written kernels + exhaustive "
             "small-scope correspondence with the real parser at every syntactic site + independent Python oracle")
LEVEL_TEXT = ("Machine-checked Lean 4 theorems, for inputs of every size, about executable models of the rule-checking "
              "kernels: validate_pos_params / validate_arguments / parse_args reject exactly the constructs the reference "
              "predicates call invalid, with the kind naming the rule and the location of the FIRST offending element; the "
              "bracket matcher accepts exactly the Dyck language and stops at the first non-completable symbol; "
              "compare_strict answers o iff o is the order for every positive tab and space width (so every CPython "
              "TabError is reported, witnessed stricter); the dedent search fails iff the level is not on the stack; the "
              "indentation line driver keeps its stack strictly ordered in every reachable state, so for whole files of any "
              "length a dedent to an unknown level, a missing indent after an opener (also at end of file), an unexpected "
              "indent and a tab/space inconsistency are rejected with the stated kind and offset, and every rejection has "
              "one of these reasons; the "
              "number lexer takes a text as one numeric token iff it is a numeric literal of the Language Reference, always "
              "takes the longest literal (maximal munch) and fails on exactly three malformed shapes. The models are tied to the Rust code on every "
              "run by exhaustive small-scope correspondence (quick/thorough: parameter lists <=4/5, argument lists <=4/5, "
              "bracket words <=5/7, indentation scripts <=3-4 lines, numerals <=4/6, strings <=6/8, f-string bodies "
              "<=5/7) at every syntactic site, and the "
              "real parser is judged by an independent Python oracle validated against CPython; 23 kinds of single "
              "rule-violating edits are applied at every site of template programs. For the grammar-level rules (duplicate "
              "/ mis-ordered parameters, bare *, positional after keyword, * after **, repeated keyword, parenthesised lone "
              "* / **, 'as _') rejection BY THE WHOLE PARSER is a theorem over the program-level Lean reference parser "
              "(PV.C04.ProgRules): in every mode and with every fuel, at every def / lambda / class / case token of the "
              "input whatever its nesting depth, and for calls / parenthesised atoms heading an expression statement, an "
              "assignment value, a return value or a decorator; lifted by context lemmas proved by one generated induction "
              "over all 89 functions of the reference parsers.")
LEVEL_NOTE = ("Trusted: Lean kernel (axioms propext/Classical.choice/Quot.sound only); fidelity of the hand-written kernels as "
              "sampled by correspondence; the LALRPOP automaton (not modelled: order of reductions and the small token "
              "grammars are sampled); f64::from_str / BigInt::from_str_radix contracts; CPython 3.11.7 as reference; the "
              "harness, driver and generators; for the whole-parser theorems the tie of PV.Prog.parseProgram to the real "
              "parser (C01 / PROG prog-* correspondence). One known finding (soft-keyword look-ahead masks errors on match/case "
              "lines); the f-string finding ('=' followed by a delimiter accepted) is fixed in /repo by d717a96.")
RULE = ("request lines (abstract construct x syntactic context) sent to both the real parser and the Lean model; "
        "distinct = distinct request line; non-trivial = the construct breaks at least one catalogue rule")

warnings.simplefilter("ignore")

NAMES = "abcdefghij"

# ------------------------------------------------------------------ rendering (mirrors pvh_c04.rs)


def name_of(c):
    return "_" if c == "_" else NAMES[int(c)]


def sig_items(enc):
    """[(kind, name, dflt)]"""
    if enc == "-":
        return []
    return [(it[0], name_of(it[1]), it[2] == "1") for it in enc.split(".")]


def render_sig(items):
    """text and, per item, (start, end) of the rendered item"""
    parts, owner = [], []
    last = " "
    for idx, (k, n, d) in enumerate(items):
        if last == "p" and k != "p":
            parts.append("/")
            owner.append(None)
        parts.append({"p": n + ("=0" if d else ""), "n": n + ("=0" if d else ""), "k": n + ("=0" if d else ""),
                      "v": "*" + n, "s": "*", "w": "**" + n}[k])
        owner.append(idx)
        last = k
    if last == "p":
        parts.append("/")
        owner.append(None)
    spans = {}
    off = 0
    for part, o in zip(parts, owner):
        if o is not None:
            spans[o] = (off, off + len(part))
        off += len(part) + 2
    return ", ".join(parts), [spans[i] for i in range(len(items))]


def call_items(enc):
    return [] if enc == "-" else enc.split(".")


def render_call(items):
    parts = [{"p": "x", "s": "*x", "d": "**x"}.get(it) or (name_of(it[1]) + "=0") for it in items]
    spans, off = [], 0
    for p in parts:
        spans.append((off, off + len(p)))
        off += len(p) + 2
    return ", ".join(parts), spans


def render_paren(enc):
    cs = "" if enc == "-" else enc
    trailing = cs.endswith("c")
    body = cs[:-1] if trailing else cs
    parts = [{"e": "x", "s": "*x", "d": "**x"}[c] for c in body]
    return "(" + ", ".join(parts) + ("," if trailing else "") + ")", list(body), trailing


PATTERNS = ["x", "0", "0 | 1", "[x, y]", "A()", "_"]
TARGETS = ["_", "y", "__", "_x"]


def render_brackets(mode, word):
    out, prev = [], " "
    for c in word:
        if mode == "sep" and prev in ")]}" and c in "([{":
            out.append(",")
        out.append(c)
        prev = c
    return "".join(out)


def render_indent(enc):
    parts = enc.split(",")
    last, lines = parts[-1], parts[:-1]
    out, starts = [], []
    pos = 0
    for i, l in enumerate(lines):
        ws, kind = l.split(":")
        ws = "" if ws == "-" else ws.replace("t", "\t").replace("s", " ")
        body = {"o": "if x:", "p": "pass", "b": "", "c": "#"}[kind]
        nl = "\n" if (i + 1 < len(lines) or last == "n") else ""
        starts.append(pos)
        out.append(ws + body + nl)
        pos += len(ws + body + nl)
    return "".join(out), [(l.split(":")[0], l.split(":")[1]) for l in lines], starts


BQUOTES = {"s": "'", "d": '"', "S": "'''", "D": '"""'}
STRS = {"b": "b'x'", "s": "'x'", "f": "f'x'", "u": "u'x'", "r": "r'x'", "R": "rb'x'", "F": "rf'x'",
        # empty literals (an empty f-string yields no piece at all: the mixing rule must not depend on pieces)
        "e": "''", "E": "f''", "B": "b''", "G": 'rf""', "T": "F''''''"}


def request_text(req):
    """(pre, construct, post) exactly as the harness builds it; None for ops without a text"""
    ws = req.split()
    op = ws[0]
    if op == "sig":
        return unhex(ws[2]).decode(), render_sig(sig_items(ws[1]))[0], unhex(ws[3]).decode()
    if op == "call":
        return unhex(ws[2]).decode(), render_call(call_items(ws[1]))[0], unhex(ws[3]).decode()
    if op == "paren":
        return unhex(ws[2]).decode(), render_paren(ws[1])[0], unhex(ws[3]).decode()
    if op == "aspat":
        return unhex(ws[3]).decode(), f"{PATTERNS[int(ws[1])]} as {TARGETS[int(ws[2])]}", unhex(ws[4]).decode()
    if op == "brackets":
        return "", render_brackets(ws[1], unhex(ws[2]).decode()), ""
    if op == "indent":
        return "", render_indent(ws[1])[0], ""
    if op in ("num", "parse", "strlex", "lexerr"):
        return "", unhex(ws[1]).decode(), ""
    if op == "softkw":
        return "", "match" + unhex(ws[1]).decode().replace("s", " s").replace("l", " lambda ") + "\n", ""
    if op == "chr":
        return "", "x" + chr(int(ws[1])) + ("=" if ws[2] == "1" else "") + "y", ""
    if op == "cont":
        return "", "x = 1 + \\" + unhex(ws[1]).decode(), ""
    if op == "fstr":
        return "f'", unhex(ws[1]).decode(), "'"
    if op == "strs":
        return unhex(ws[2]).decode(), " ".join(STRS[c] for c in ws[1]), unhex(ws[3]).decode()
    if op == "bytes":
        return unhex(ws[2]).decode() + "b'", unhex(ws[1]).decode(), "'" + unhex(ws[3]).decode()
    if op == "byteslit":
        qt = BQUOTES[ws[2]]
        return unhex(ws[4]).decode() + ws[1] + qt, unhex(ws[3]).decode(), qt + unhex(ws[5]).decode()
    return None


# ------------------------------------------------------------------ CPython reference

def py_rejects(text, stage="parse"):
    """True when CPython rejects the text (SyntaxError incl. IndentationError/TabError, or the
    ValueError for NUL bytes).  stage='compile' also runs the symbol-table/compiler checks (duplicate
    parameter names, repeated keyword arguments)."""
    try:
        tree = ast.parse(text)
        if stage == "compile":
            compile(tree, "<c04>", "exec")
        return False
    except (SyntaxError, ValueError):
        return True
    except (RecursionError, MemoryError):
        return None


# ------------------------------------------------------------------ Spec predicates (Python's rules)
# Each returns a list of (wire_kind, [(lo, hi) windows]) for the rules the construct breaks.

def spec_sig(items):
    """windows are half-open [start, end) of the rendered item: these errors are located at AST nodes"""
    text, spans = render_sig(items)
    spans = [(a, b - 1) for a, b in spans]
    out = []
    if items and items[-1][0] == "s":
        out.append(("Other", [spans[-1]]))
    posn = [i for i, it in enumerate(items) if it[0] in "pn"]
    bad = [j for j in posn if not items[j][2] and any(items[i][2] for i in posn if i < j)]
    if bad:
        out.append(("DefaultOrder", [spans[j] for j in bad]))
    names = [it[1] for it in items if it[0] != "s"]
    dups = [i for i, it in enumerate(items) if it[0] != "s" and names.count(it[1]) > 1]
    if dups:
        out.append(("DuplicateArgument", [spans[i] for i in dups]))
    return out


def sig_in_domain(items):
    """`*, **kw` (accepted here, rejected by CPython) is outside the catalogue (DESIGN.md section 7)."""
    kinds = [k for k, _, _ in items]
    if "s" in kinds and "k" not in kinds and "w" in kinds:
        return False
    return True


def spec_call(items):
    text, spans = render_call(items)
    spans = [(a, b - 1) for a, b in spans]
    out = []
    kwlike = lambda it: it == "d" or it[0] == "k"
    bad = [j for j, it in enumerate(items) if it == "p" and any(kwlike(x) for x in items[:j])]
    if bad:
        out.append(("PositionalAfterKeyword", [spans[j] for j in bad]))
    bad = [j for j, it in enumerate(items) if it == "s" and "d" in items[:j]]
    if bad:
        out.append(("UnpackAfterKeywordUnpack", [spans[j] for j in bad]))
    bad = [j for j, it in enumerate(items) if it[0] == "k" and items.count(it) > 1]
    if bad:
        out.append(("DuplicateKeyword", [spans[j] for j in bad]))
    return out


def spec_paren(enc):
    text, body, trailing = render_paren(enc)
    if body == ["s"] and not trailing:
        return [("Other", [(1, 3)])]
    if body == ["d"] and not trailing:
        return [("Other", [(1, 4)])]
    return []


def reduce_brackets(w):
    """independent of the stack machine: delete adjacent matching pairs until nothing changes"""
    w = w.replace("\n", "")
    while True:
        n = w.replace("()", "").replace("[]", "").replace("{}", "")
        if n == w:
            return w
        w = n


def spec_brackets(word):
    """None when balanced, else (first non-viable prefix end or None for 'unclosed')"""
    if reduce_brackets(word) == "":
        return None
    for i in range(len(word)):
        if any(c in ")]}" for c in reduce_brackets(word[:i + 1])):
            return ("closer", i)
    return ("unclosed", len(word))


def _col(ws):
    col = alt = 0
    for c in ws:
        if c == "t":
            col = (col // 8 + 1) * 8
            alt += 1
        else:
            col += 1
            alt += 1
    return col, alt


def spec_indent(lines, starts, total):
    """CPython's tokenizer/parser rules on an indentation script -> None or (kinds, lo, hi)."""
    ind, alt = [0], [0]
    need = False
    last_content = None
    for i, (ws, kind) in enumerate(lines):
        ws = "" if ws == "-" else ws
        if kind in "bc":
            continue
        lo = starts[i]
        hi = starts[i + 1] if i + 1 < len(starts) else total
        col, a = _col(ws)
        mixed = {"Indentation", "Tab"} if any("t" in (w if w != "-" else "") for w, _ in lines) else {"Indentation"}
        if col == ind[-1]:
            if a != alt[-1]:
                return ({"Tab"}, lo, hi)
            if need:
                return (mixed, lo, hi)
        elif col > ind[-1]:
            if a <= alt[-1]:
                return ({"Tab"}, lo, hi)
            if not need:
                return (mixed, lo, hi)
            ind.append(col)
            alt.append(a)
        else:
            while len(ind) > 1 and col < ind[-1]:
                ind.pop()
                alt.pop()
            if col != ind[-1]:
                return (mixed, lo, hi)
            if a != alt[-1]:
                return ({"Tab"}, lo, hi)
            if need:
                return (mixed, lo, hi)
        need = kind == "o"
        last_content = i
    if need:
        mixed = {"Indentation", "Tab"} if any("t" in w for w, _ in lines) else {"Indentation"}
        return (mixed, starts[last_content], total)
    return None


_DIGITPART = r"[0-9](?:_?[0-9])*"
_POINTFLOAT = rf"(?:(?:{_DIGITPART})?\.{_DIGITPART}|{_DIGITPART}\.)"
_EXPONENT = rf"[eE][+-]?{_DIGITPART}"
_FLOAT = rf"(?:{_POINTFLOAT}(?:{_EXPONENT})?|{_DIGITPART}{_EXPONENT})"
_INT = r"(?:[1-9](?:_?[0-9])*|0+(?:_?0)*|0[bB](?:_?[01])+|0[oO](?:_?[0-7])+|0[xX](?:_?[0-9a-fA-F])+)"
NUMBER_RE = re.compile(rf"(?:{_FLOAT}[jJ]?|{_DIGITPART}[jJ]|{_INT})")   # Python reference, 2.4.5-2.4.8


def spec_num(t):
    """first malformed numeral of the text: (lo, hi) or None.  A numeral is the longest prefix that
    is a Python numeric literal; it is malformed when an identifier character follows directly."""
    p, n = 0, len(t)
    while p < n:
        c = t[p]
        if c.isalpha() or c == "_":
            while p < n and (t[p].isalnum() or t[p] == "_"):
                p += 1
        elif c.isdigit() or (c == "." and p + 1 < n and t[p + 1].isdigit()):
            m = 0
            for L in range(n - p, 0, -1):
                if NUMBER_RE.fullmatch(t, p, p + L):
                    m = L
                    break
            q = p + m
            if q < n and (t[q].isalnum() or t[q] == "_"):
                # the offending construct: the whole run of numeral characters the malformed literal sits in
                # (`0j0.e`: the lexer reads `0j` and fails on `0.e`); an exponent marker takes its sign along
                e = q
                while e < n and (t[e].isalnum() or t[e] in "_."):
                    e += 1
                    if t[e - 1] in "eE" and e < n and t[e] in "+-":
                        e += 1
                return (p, e)
            p = q
        else:
            p += 1
    return None


_SHORT = {q: re.compile(rf"{q}(?:[^\\\n{q}]|\\.)*{q}", re.S) for q in "'\""}
_LONG = {q: re.compile(rf"{q * 3}(?:[^\\]|\\.)*?{q * 3}", re.S) for q in "'\""}


def spec_strlex(t):
    """first unterminated string literal of a text over ' " a \\ newline: (kinds, lo, hi) or None.
    Tokens per the Python reference; a backslash outside a string must be followed by a newline."""
    p, n = 0, len(t)
    while p < n:
        c = t[p]
        if c in "'\"":
            if t.startswith(c * 3, p):
                m = _LONG[c].match(t, p)
                if not m:
                    return ({"Eof"}, p, n)
            else:
                m = _SHORT[c].match(t, p)
                if not m:
                    e = t.find("\n", p)
                    # an escaped newline continues the literal: the window runs to the end of the text
                    return ({"StringError", "Other"}, p, n)
            p = m.end()
        elif c == "\\":
            if p + 1 < n and t[p + 1] == "\n":
                if p + 2 == n:
                    return ({"Eof"}, p, n)
                p += 2
            else:
                return ({"LineContinuation"}, p, min(n, p + 2))
        else:
            p += 1
    return None


UNUSED_ASCII = set("$?`")     # Python reference 2.6: "not used in Python ... unconditional error"


def spec_chr(c, eq):
    """(kind, lo, hi) when the ASCII character c cannot begin any token in `x<c>y`"""
    ch = chr(c)
    if ch in UNUSED_ASCII or (c < 32 and ch not in "\t\n\r\x0c") or c == 127:
        return ("UnrecognizedChar", 1, 2)
    if ch == "!" and not eq:
        return ("UnrecognizedChar", 1, 2)
    return None


# ------------------------------------------------------------------ oracle

_ERR = re.compile(r"\(err (\S+) (-?\d+)( comma)?\)$")


def _parse_out(out):
    if out in ("ok", "nolex"):
        return None
    m = _ERR.match(out)
    if not m:
        return "?"
    return m.group(1), int(m.group(2))


def _judge(rules, out, what):
    """rules: [(kind or set of kinds, windows)] broken by the construct"""
    if not rules:
        return None
    r = _parse_out(out)
    if r is None:
        return f"{what}: breaks {[k for k, _ in rules]} but was accepted"
    if r == "?":
        return f"unparsable answer {out!r}"
    kind, off = r
    for k, wins in rules:
        ks = k if isinstance(k, (set, frozenset)) else {k}
        if kind in ks:
            if any(lo <= off <= hi for lo, hi in wins):
                return None
            return f"{what}: {kind} reported at offset {off}, outside the offending element(s) {wins}"
    return f"{what}: rejected as {kind}, which does not name the broken rule(s) {[sorted(k) if isinstance(k, (set, frozenset)) else k for k, _ in rules]}"


def oracle(req, out):
    if out in ("(panic)", "(abort)", "(timeout)"):
        return "implementation " + out
    ws = req.split()
    op = ws[0]
    if op == "sig":
        items = sig_items(ws[1])
        if not sig_in_domain(items):
            return None
        return _judge(spec_sig(items), out, "parameter list " + render_sig(items)[0])
    if op == "call":
        items = call_items(ws[1])
        return _judge(spec_call(items), out, "argument list " + render_call(items)[0])
    if op == "paren":
        return _judge(spec_paren(ws[1]), out, render_paren(ws[1])[0])
    if op == "aspat":
        if ws[2] == "0":
            text = f"{PATTERNS[int(ws[1])]} as _"
            return _judge([("Other", [(0, len(text))])], out, text)
        return None
    if op == "brackets":
        word = unhex(ws[2]).decode()
        s = spec_brackets(word)
        if s is None:
            return None
        r = _parse_out(out)
        if r is None:
            return f"bracket word {word!r} is not balanced but was accepted"
        kind, off = r
        if kind not in ("Nesting", "Syntax", "Eof"):
            return f"bracket word {word!r}: rejected as {kind}"
        what, i = s
        if ws[1] == "sep":
            if what == "closer" and not (i <= off <= i + 1 and kind in ("Nesting", "Syntax")):
                return f"bracket word {word!r}: first unmatched closer at {i}, reported {kind} at {off}"
            if what == "unclosed" and not (off == len(word) and kind == "Eof"):
                return f"bracket word {word!r}: unclosed, reported {kind} at {off}"
        else:
            hi = i + 1 if what == "closer" else len(word)
            if off > hi:
                return f"bracket word {word!r}: error offset {off} after the unmatched bracket at {i}"
        return None
    if op == "indent":
        text, lines, starts = render_indent(ws[1])
        s = spec_indent(lines, starts, len(text))
        if s is None:
            return None
        kinds, lo, hi = s
        r = _parse_out(out)
        if r is None:
            return f"indentation script {ws[1]} breaks Python's indentation rules but was accepted"
        kind, off = r
        if kind not in ("Indentation", "Tab"):
            return f"indentation script {ws[1]}: rejected as {kind}"
        if off > hi:
            return f"indentation script {ws[1]}: offset {off} after the offending line {lo}..{hi}"
        if lo <= off and kind not in kinds:
            return f"indentation script {ws[1]}: {kind} does not name the broken rule {sorted(kinds)}"
        return None
    if op == "num":
        t = unhex(ws[1]).decode()
        s = spec_num(t)
        if s is None:
            return None
        lo, hi = s
        r = _parse_out(out)
        if r is None:
            return f"malformed numeral {t[lo:hi]!r} in {t!r} was accepted"
        kind, off = r
        if kind not in ("Other", "Syntax"):
            return f"malformed numeral in {t!r}: rejected as {kind}"
        if off > hi:
            return f"malformed numeral {t[lo:hi]!r} in {t!r}: offset {off} after it"
        if lo <= off <= hi:
            return None
        return None if off < lo else f"offset {off}"
    if op == "chr":
        s = spec_chr(int(ws[1]), ws[2] == "1")
        if s is None:
            return None
        return _judge([(s[0], [(s[1], s[2])])], out, f"character U+{int(ws[1]):04X}")
    if op == "cont":
        t = unhex(ws[1]).decode()
        # Python reference 2.1.5: a backslash outside a string joins lines only directly before the line end
        if t[:1] not in ("\n", "\r"):
            return _judge([("LineContinuation", [(8, 10)])], out, "backslash not followed by a line break")
        if t in ("\n", "\r", "\r\n"):
            return _judge([("Eof", [(9, len(t) + 9)])], out, "file ends after a line continuation")
        return None
    if op == "strlex":
        t = unhex(ws[1]).decode()
        if "\r" in t:
            # CR / CRLF spelling of a text of the LF alphabet: the rule is the same (an unterminated literal is unterminated
            # whatever the line ending); judged on rejection and kind, offsets only within the whole text
            s = spec_strlex(t.replace("\r\n", "\n").replace("\r", "\n"))
            if s is None:
                return None
            r = _parse_out(out)
            if r is None:
                return f"unterminated string in {t!r} was accepted"
            if r == "?":
                return f"unreadable answer for {t!r}"
            # start of the offending literal in the CR / CRLF text: every line break before it may be one byte longer
            norm = t.replace("\r\n", "\n").replace("\r", "\n")
            lo = s[1] + (norm[:s[1]].count("\n") if "\r\n" in t else 0)
            if r[1] >= lo and r[0] not in (s[0] | {"Eof", "LineContinuation"}):
                return f"unterminated string in {t!r}: rejected as {r}, expected one of {sorted(s[0])}"
            return None
        s = spec_strlex(t)
        if s is None:
            return None
        kinds, lo, hi = s
        r = _parse_out(out)
        if r is None:
            return f"unterminated string in {t!r} was accepted"
        kind, off = r
        if off > hi:
            return f"unterminated string in {t!r}: offset {off} beyond it"
        if off >= lo and kind not in kinds:
            return f"unterminated string in {t!r}: rejected as {kind}, expected one of {sorted(kinds)}"
        return None
    if op == "strs":
        kinds = [c in "bRB" for c in ws[1]]
        if any(kinds) and not all(kinds):
            n = len(" ".join(STRS[c] for c in ws[1]))
            return _judge([("Other", [(0, n)])], out, "bytes and text literals mixed: " + ws[1])
        return None
    if op == "bytes":
        body = unhex(ws[1]).decode()
        pos = 0
        for ch in body:
            L = len(ch.encode())
            if ord(ch) >= 128:
                return _judge([("Other", [(pos, pos + L)])], out, f"non-ASCII character in bytes literal {body!r}")
            pos += L
        return None
    if op == "byteslit":
        # "Bytes literals may only contain ASCII characters" -- wherever the character stands: plain, after a
        # backslash, after another escape, inside an escape.  Inside `\x..` the error may be the escape's own.
        body = unhex(ws[3]).decode()
        pos = 0
        for ch in body:
            L = len(ch.encode())
            if ord(ch) >= 128:
                r = _parse_out(out)
                if r is None:
                    return f"non-ASCII character in bytes literal {ws[1]}{body!r} was accepted"
                if r == "?":
                    return f"unparsable answer {out!r}"
                kind, off = r
                if kind not in ("Other", "UnicodeError", "StringError"):
                    return f"bytes literal {ws[1]}{body!r}: rejected as {kind}"
                if not (0 <= off <= pos + L):
                    return f"bytes literal {ws[1]}{body!r}: offset {off} not at or before the character at {pos}..{pos + L}"
                if kind == "Other" and off != pos + L and "\\" not in body[:body.index(ch)]:
                    return f"bytes literal {ws[1]}{body!r}: offset {off}, the character ends at {pos + L}"
                return None
            pos += L
        return None
    if op == "fstr":
        body = unhex(ws[1]).decode()
        if py_rejects("f'" + body + "'"):
            r = _parse_out(out)
            if r is None:
                return f"f-string body {body!r} is rejected by the reference but was accepted"
            kind, off = r
            if not (kind.startswith("FString.") or kind in ("StringError", "UnicodeError", "Other", "Eof")):
                return f"f-string body {body!r}: rejected as {kind}"
            if not (-2 <= off <= len(body.encode()) + 1):
                return f"f-string body {body!r}: offset {off} outside the literal"
        return None
    if op == "site":
        rule, lo, hi = ws[1], int(ws[2]), int(ws[3])
        res, _, base = out.rpartition(" base=")
        if base != "ok":
            return None         # the unedited program is not accepted: no claim about the edit (C01's business)
        kinds = SITE_KINDS[rule]
        r = _parse_out(res)
        if r is None:
            return f"{rule}: the edited program was accepted"
        if r == "?":
            return f"unparsable answer {out!r}"
        kind, off = r
        if kind not in kinds:
            return f"{rule}: rejected as {kind}, which does not name the rule ({sorted(kinds)})"
        if not lo <= off <= hi:
            return f"{rule}: {kind} reported at offset {off}, outside the offending construct {lo}..{hi}"
        return None
    if op in ("parse", "lexerr", "softkw"):
        return None
    return None


SITE_KINDS = {}
# rules whose violation is (or unbalances) a lexical matter: the ones the soft-keyword look-ahead can mask
SOFTKW_MASKABLE = {"stray-character", "bad-line-continuation", "bracket-deleted", "bracket-mismatched",
                   "malformed-number", "unterminated-string", "malformed-fstring", "bytes-text-mixed",
                   "non-ascii-bytes"}


def site_requests(ctx):
    """(2)/(3): every catalogue edit at every applicable site of the template programs; edits CPython
    does not reject are generator bugs: dropped and counted."""
    reqs, dropped = [], 0
    for t in c04_sites.TEMPLATES:
        for e in c04_sites.edits(t):
            SITE_KINDS.setdefault(e.rule, set()).update(e.kinds)
            if e.stage != "any" and not py_rejects(e.text, e.stage):
                dropped += 1
                continue
            reqs.append(f"site {e.rule} {e.lo} {e.hi} {hexs(e.text)} {hexs(t)}")
    if dropped:
        ctx.notes.append(f"site generator: {dropped} edits dropped because CPython accepts the edited text")
    return reqs


_SOFTKW_LINE = re.compile(rb"[ \t]*(match|case)[ \t]")


def _softkw_masked(text_b, pos, impl_out):
    """The edit at byte `pos` lies on a logical line that starts with the soft keyword match/case and
    the implementation answered with a plain syntax error at the keyword or at the token after it."""
    r = _parse_out(impl_out.rpartition(" base=")[0] if " base=" in impl_out else impl_out)
    if r in (None, "?") or r[0] != "Syntax":
        return False
    ls = text_b.rfind(b"\n", 0, pos) + 1
    m = _SOFTKW_LINE.match(text_b, ls)
    if not m:
        return False
    kw_lo, kw_hi = m.start(1), m.end(1)
    return kw_lo <= r[1] <= kw_hi + 1


def classify(req, impl_out, model_out, failure):
    """known findings (known_findings.d/C04.json)"""
    ws = req.split()
    if ws[0] == "site" and failure and ws[1] in SOFTKW_MASKABLE:
        if _softkw_masked(unhex(ws[4]), int(ws[2]) + 1, impl_out):
            return "softkw-lookahead-masks-error-on-match-case-line"
    return None


def search(ctx, disagreements, bins):
    """Model and implementation disagree on requests the oracle accepts: look for a concrete input on
    which the IMPLEMENTATION breaks the property, near the disagreements (same construct at every
    site, plus the construct's one-item extensions)."""
    import core
    hbin = bins.get((HARNESS["bin"], HARNESS.get("features", "default")))
    if not hbin:
        return None
    cand = []
    for e in disagreements[:200]:
        ws = e["request"].split()
        op = ws[0]
        if op == "sig":
            encs = {ws[1]} | {ws[1] + "." + x for x in ("n00", "k00", "w00") if ws[1] != "-"}
            cand += [f"sig {enc} {ctx_args(c)}" for enc in encs for c in SIG_SITES]
        elif op == "call":
            encs = {ws[1]} | {ws[1] + "." + x for x in ("p", "s", "k0", "d") if ws[1] != "-"}
            cand += [f"call {enc} {ctx_args(c)}" for enc in encs for c in CALL_SITES]
        elif op == "paren":
            cand += [f"paren {ws[1]} {ctx_args(c)}" for c in PAREN_SITES]
        elif op == "aspat":
            cand += [f"aspat {p} {ws[2]} {ctx_args(c)}" for p in range(len(PATTERNS)) for c in ASPAT_SITES]
        elif op in ("brackets", "indent", "num", "chr", "cont", "strlex", "fstr", "strs", "bytes", "byteslit"):
            cand.append(e["request"])
    cand = list(dict.fromkeys(cand))[:20000]
    if not cand:
        return None
    outs = core.run_lines([hbin], cand, jobs=4)
    for r, a in zip(cand, outs):
        f = oracle(r, a)
        if f and not classify(r, a, None, f):
            return {"request": r, "impl": a, "failure": f, "text": "".join(request_text(r) or ())}
    return None


# ------------------------------------------------------------------ spec validation against CPython

def pre_build(ctx):
    """The Spec predicates used by the oracle are validated against CPython 3.11 on the exhaustive
    abstract domains: a disagreement is a defect of the SPEC (repaired there), reported as an
    unchecked obligation, never as a violation of the property by the parser."""
    res = []

    def check(name, items):
        bad = [d for d in items if d is not None]
        res.append(("spec-validation " + name, not bad, "; ".join(bad[:3])))

    def both(text, violated, stage="parse"):
        rej = py_rejects(text, stage)
        if rej is None or rej == bool(violated):
            return None
        return f"{text!r}: spec says {'invalid' if violated else 'valid'}, CPython {'rejects' if rej else 'accepts'}"

    def one(text, violated, stage="parse"):
        if violated and py_rejects(text, stage) is False:
            return f"{text!r}: spec says invalid, CPython accepts"
        return None

    sigs = all_sigs(4)
    check("parameter lists (def, lambda)",
          [both(pre + render_sig(sig_items(e))[0] + post, spec_sig(sig_items(e)), "compile")
           for e in sigs for pre, post in SIG_CTX])
    check("argument lists",
          [both(pre + render_call(call_items(e))[0] + post, spec_call(call_items(e)), "compile")
           for e in all_calls(4) for pre, post in CALL_CTX])
    check("parenthesised stars",
          [both(render_paren(e)[0], spec_paren(e)) for e in all_parens(3) if e != "c"])
    check("as-patterns",
          [both(f"match s:\n case {p} as {t}:\n  pass\n", t == "_") for p in PATTERNS for t in TARGETS])
    check("bracket words",
          [both(render_brackets("sep", w), spec_brackets(w) is not None) for w in words("()[]{}", 5)])

    def ind(e):
        text, lines, starts = render_indent(e)
        return both(text, spec_indent(lines, starts, len(text)) is not None)
    check("indentation scripts",
          [ind(e) for e in indent_scripts(3, WS_SMALL, "opbc")] +
          [ind(e) for e in indent_scripts(3, ["-", "t", "ss"] + WS_EXTRA, "op") if e.count(",") == 3])
    check("numerals", [one(w, spec_num(w) is not None) for w in words(NUM_ALPHA, 4, 1)])
    check("string literals", [one(w, spec_strlex(w) is not None) for w in words(STR_ALPHA, 5, 1)])
    check("characters", [one("x" + chr(c) + ("=" if e else "") + "y", spec_chr(c, e) is not None)
                         for c in range(128) for e in (0, 1)])
    def byt(req):
        pre, mid, post = request_text(req)
        return both(pre + mid + post, any(ord(ch) >= 128 for ch in mid)) if any(ord(ch) >= 128 for ch in mid) else None
    check("non-ASCII in bytes literals (every position)",
          [byt(r) for r in bytes_requests(3, [("b", "s"), ("rb", "s"), ("b", "D")], BYTES_SITES[:1])])
    check("literal concatenations", [both(" ".join(STRS[c] for c in w), any(c in "bR" for c in w) and
                                          not all(c in "bR" for c in w)) for w in words("bsfurRF", 3, 1)])
    return res


# ------------------------------------------------------------------ generators

SIG_CTX = [("def f(", "): pass\n"), ("lambda ", ": 0\n")]
SIG_SITES = SIG_CTX + [
    ("async def f(", "): pass\n"), ("class A:\n  def f(", "): pass\n"), ("x = [lambda ", ": 0]\n"),
    ("f(lambda ", ": 0)\n"), ("@d\ndef f(", ") -> int: pass\n"), ("def g():\n  def f(", "):\n    pass\n"),
    ("x = lambda q: lambda ", ": 0\n"), ("def g(q=lambda ", ": 0): pass\n"), ("x = {0: lambda ", ": 0}\n"),
    ("if x:\n  pass\nelse:\n  def f(", "): pass\n"),
]
CALL_CTX = [("f(", ")\n"), ("class A(", "): pass\n")]
CALL_SITES = CALL_CTX + [
    ("@d(", ")\ndef f(): pass\n"), ("g(1, h(", "))\n"), ("x = [f(", ")]\n"), ("f(", ")(y)\n"),
    ("with f(", "): pass\n"), ("x.y[0](", ")\n"), ("class A(B, metaclass=f(", ")): pass\n"),
    ("def g(q=f(", ")): pass\n"), ("lambda: f(", ")\n"), ("@d\nclass A(", "):\n  x = 1\n"),
    ("print(f(", "), 1)\n"),
]
PAREN_SITES = [("", "\n"), ("y = ", "\n"), ("f(", ")\n"), ("[", "]\n"), ("if ", ": pass\n"), ("lambda: ", "\n"),
               ("x[", "]\n"), ("print(*", ")\n"), ("y = 1 + ", "\n"), ("def f():\n  return ", "\n"),
               ("{0: ", "}\n"), ("(", ")\n"), ("with ", ": pass\n"), ("with ", " as y: pass\n"),
               ("with z, ", ": pass\n"), ("for i in ", ": pass\n"), ("for ", " in y: pass\n"), ("del ", "\n"),
               ("y = [i for i in ", "]\n"), ("assert ", "\n"), ("y = x if ", " else x\n"), ("y = not ", "\n"),
               ("@", "\ndef f(): pass\n")]
ASPAT_SITES = [("match s:\n case ", ":\n  pass\n"), ("match s:\n case [", ", z]:\n  pass\n"),
               ("match s:\n case A(", "):\n  pass\n"), ("match s:\n case A(k=", "):\n  pass\n"),
               ("match s:\n case {0: ", "}:\n  pass\n"), ("match s:\n case (", "):\n  pass\n"),
               ("match s:\n case (", ") | z:\n  pass\n"), ("match s:\n case [(", "), z]:\n  pass\n"),
               ("match s:\n case 1:\n  pass\n case ", " if x:\n  pass\n")]
STRS_SITES = [("", "\n"), ("x = ", "\n"), ("f(", ")\n"), ("[", "]\n")]
STRS_PATTERN_SITE = ("match s:\n case ", ":\n  pass\n")


def all_sigs(maxlen):
    """well-ordered parameter lists over two names (inside the domain)"""
    pos = lambda k: [f"{k}{n}{d}" for n in "01" for d in "01"]
    groups = {0: pos("p"), 1: pos("n"), 2: ["v00", "v10", "s00"], 3: pos("k"), 4: ["w00", "w10"]}
    out = []

    def rec(cur, rank, seen_star):
        out.append(list(cur))
        if len(cur) == maxlen:
            return
        for r in range(rank, 5):
            if r in (2, 4) and r == rank and cur and cur[-1][0] in "vsw":
                continue
            if r == 3 and not seen_star:
                continue
            for it in groups[r]:
                if r in (2, 4) and cur and {"v": 2, "s": 2, "w": 4}.get(cur[-1][0]) == r:
                    continue
                cur.append(it)
                rec(cur, r, seen_star or r == 2)
                cur.pop()
    rec([], 0, False)
    uniq = []
    seen = set()
    for s in out:
        e = ".".join(s) if s else "-"
        if e not in seen and sig_in_domain(sig_items(e)):
            seen.add(e)
            uniq.append(e)
    return uniq


def all_calls(maxlen):
    alpha = ["p", "s", "k0", "k1", "d"]
    out = ["-"]
    for n in range(1, maxlen + 1):
        for t in itertools.product(alpha, repeat=n):
            out.append(".".join(t))
    return out


def all_parens(maxlen):
    out = []
    for n in range(0, maxlen + 1):
        for t in itertools.product("esd", repeat=n):
            body = "".join(t)
            for tr in ("", "c"):
                if "d" in body and not (body == "d" and tr == ""):
                    continue        # `**` elsewhere in parentheses is a plain syntax error, not a catalogue rule
                out.append((body + tr) or "-")
    return out


def words(alpha, maxlen, minlen=0):
    for n in range(minlen, maxlen + 1):
        for t in itertools.product(alpha, repeat=n):
            yield "".join(t)


def ctx_args(c):
    return f"{hexs(c[0])} {hexs(c[1])}"


WS_SMALL = ["-", "t", "s", "tt", "ts", "st", "ss"]
WS_EXTRA = ["sssssssss", "ttttt", "tss", "sss", "ssss"]


def indent_scripts(nlines, wss, kinds):
    for n in range(1, nlines + 1):
        for combo in itertools.product([f"{w}:{k}" for w in wss for k in kinds], repeat=n):
            for last in "nN":
                yield ",".join(combo) + "," + last


def _violating(req):
    """non-trivial = the construct breaks at least one rule according to the Spec"""
    ws = req.split()
    op = ws[0]
    try:
        if op == "sig":
            return bool(spec_sig(sig_items(ws[1])))
        if op == "call":
            return bool(spec_call(call_items(ws[1])))
        if op == "paren":
            return bool(spec_paren(ws[1]))
        if op == "aspat":
            return ws[2] == "0"
        if op == "brackets":
            return spec_brackets(unhex(ws[2]).decode()) is not None
        if op == "indent":
            t, l, s = render_indent(ws[1])
            return spec_indent(l, s, len(t)) is not None
        if op == "num":
            return spec_num(unhex(ws[1]).decode()) is not None
        if op == "chr":
            return spec_chr(int(ws[1]), ws[2] == "1") is not None
        if op == "strlex":
            return spec_strlex(unhex(ws[1]).decode()) is not None
        if op == "strs":
            k = [c in "bRB" for c in ws[1]]
            return any(k) and not all(k)
        if op == "bytes":
            return any(ord(c) >= 128 for c in unhex(ws[1]).decode())
        if op == "byteslit":
            return any(ord(c) >= 128 for c in unhex(ws[3]).decode())
        if op == "fstr":
            return bool(py_rejects("f'" + unhex(ws[1]).decode() + "'"))
    except Exception:
        return False
    return True


def random_streams(ctx):
    """longer constructs than the exhaustive scopes reach: mostly valid shapes with one random flaw"""
    q = ctx.quick
    n = 1500 if q else 100000
    out = []
    rng = ctx.rng("random-sig")
    reqs = []
    for _ in range(n):
        k = rng.randrange(3, 9)
        names = rng.sample("0123456789", k) if rng.random() < 0.5 else [rng.choice("0123") for _ in range(k)]
        cut = sorted(rng.randrange(0, k + 1) for _ in range(4))
        items, seen_default = [], False
        for i in range(k):
            kind = "p" if i < cut[0] else "n" if i < cut[1] else "V" if i < cut[2] else "k" if i < cut[3] else "w"
            items.append([kind, names[i]])
        # at most one star item and one `**` item, in grammar order
        enc, star_done, kw_done = [], False, False
        for kind, nm in items:
            if kind == "V":
                if star_done:
                    kind = "k"
                else:
                    star_done = True
                    enc.append(("v" if rng.random() < 0.6 else "s") + nm + "0")
                    continue
            if kind == "k" and not star_done:
                kind = "n"
            if kind == "w":
                if kw_done:
                    continue
                kw_done = True
                enc.append("w" + nm + "0")
                continue
            d = rng.random() < 0.4
            if kind in "pn":
                d = seen_default if rng.random() < 0.9 else not seen_default
                if kind in "pn" and rng.random() < 0.3:
                    d = True
                seen_default = seen_default or d
            enc.append(kind + nm + ("1" if d else "0"))
        e = ".".join(enc)
        if not e or not sig_in_domain(sig_items(e)):
            continue
        reqs.append(f"sig {e} {ctx_args(rng.choice(SIG_SITES))}")
    out.append(Stream("random-longer-parameter-lists", reqs, kind="random", nontrivial=_violating,
                      note="3..8 parameters over up to 10 names, random kinds/defaults, random site"))
    rng = ctx.rng("random-call")
    reqs = []
    for _ in range(n):
        k = rng.randrange(3, 10)
        items, phase = [], 0
        for i in range(k):
            r = rng.random()
            if r < 0.1:
                it = rng.choice(["p", "s", "d", "k" + rng.choice("0123456")])
            elif phase == 0:
                it = rng.choice(["p", "p", "s"])
                if rng.random() < 0.35:
                    phase = 1
            else:
                it = rng.choice(["k" + rng.choice("0123456789"), "d", "s" if "d" not in items else "d"])
            items.append(it)
        reqs.append(f"call {'.'.join(items)} {ctx_args(rng.choice(CALL_SITES))}")
    out.append(Stream("random-longer-argument-lists", reqs, kind="random", nontrivial=_violating))
    rng = ctx.rng("random-brackets")
    reqs = []

    def dyck(depth):
        if depth <= 0 or rng.random() < 0.3:
            return ""
        o = rng.choice("([{")
        return o + dyck(depth - 1) + ")]}"["([{".index(o)] + dyck(depth - 1)
    for _ in range(n):
        w = dyck(5)[:14]
        if w and rng.random() < 0.7:
            i = rng.randrange(len(w))
            w = rng.choice([w[:i] + w[i + 1:], w[:i] + rng.choice("()[]{}") + w[i + 1:], w[:i] + rng.choice("()[]{}") + w[i:]])
        mode = rng.choice(["sep", "raw"])
        if mode == "raw" and rng.random() < 0.5 and w:
            i = rng.randrange(len(w) + 1)
            w = w[:i] + "\n" + w[i:]
        reqs.append(f"brackets {mode} {hexs(w)}")
    out.append(Stream("random-longer-bracket-words", reqs, kind="random", nontrivial=_violating))
    rng = ctx.rng("random-indent")
    reqs = []
    for _ in range(n):
        lines, stack, need = [], [""], False
        for i in range(rng.randrange(3, 9)):
            if need:
                stack.append(stack[-1] + rng.choice(["s", "ss", "ssss", "t"]))
            elif len(stack) > 1 and rng.random() < 0.4:
                for _ in range(rng.randrange(1, len(stack))):
                    stack.pop()
            ws = stack[-1]
            if rng.random() < 0.15:
                ws = rng.choice([ws + "s", ws[:-1], ws.replace("ssss", "t"), "s" + ws, ws + "t", ws.replace("t", "ssssssss")])
            kind = rng.choice("ooppp") if rng.random() < 0.85 else rng.choice("bc")
            lines.append(f"{ws or '-'}:{kind}")
            if kind in "op":
                need = kind == "o"
        if need and rng.random() < 0.8:
            lines.append(f"{stack[-1]}s:p")
        reqs.append("indent " + ",".join(lines) + "," + rng.choice("nnnN"))
    out.append(Stream("random-longer-indentation-scripts", reqs, kind="random", nontrivial=_violating))
    rng = ctx.rng("random-text")
    reqs = []
    na = "0123456789_.eEjJxXbBoOaAfF+"
    for _ in range(n):
        t = "".join(rng.choice(na) for _ in range(rng.randrange(6, 11)))
        if rng.random() < 0.5:
            t = rng.choice(["1", "0x", "0b", "0o", "1.", ".5", "1e", "0"]) + t[:6]
        reqs.append(f"num {hexs(t)}")
        reqs.append(f"strlex {hexs(''.join(rng.choice(STR_ALPHA) for _ in range(rng.randrange(7, 13))))}")
        reqs.append(f"fstr {hexs(''.join(rng.choice(FSTR_ALPHA) for _ in range(rng.randrange(7, 11))))}")
    out.append(Stream("random-longer-numerals-strings-fstrings", reqs, kind="random", nontrivial=_violating))
    return out


BYTES_ALPHA = ["a", "é", "😀", "\\", "x", "4", "0", "7", "n", "N", "u"]
BYTES_SITES = [("", "\n"), ("y = ", "\n"), ("f(", ")\n"), ("b'a' ", "\n"), ("y = [b\"q\", ", "]\n"),
               ("match s:\n case ", ":\n  pass\n"), ("", " b'z'\n")]


def _odd_trailing_backslash(body):
    i, n = 0, len(body)
    while i < n:
        if body[i] == "\\":
            if i + 1 == n:
                return True
            i += 2
        else:
            i += 1
    return False


def bytes_requests(maxlen, kinds, sites):
    out = []
    for body in words(BYTES_ALPHA, maxlen, 0):
        if _odd_trailing_backslash(body):
            continue        # the lexer pairs `\` with the closing quote: an unterminated literal, other rule
        for pfx, qt in kinds:
            for c in sites:
                out.append(f"byteslit {pfx} {qt} {hexs(body)} {ctx_args(c)}")
    return out


NUM_ALPHA = "019_.e+jxboa"
FSTR_ALPHA = "{}y!r:=\\"
FSTR_ALPHA2 = "{}y()[]\""
STR_ALPHA = "'\"a\\\n"


def streams(ctx):
    out = []
    q = ctx.quick
    # ---- corpus: the shapes of the existing negative tests and of the probes made while modelling
    corpus = []
    for enc in ["n00.n00", "n00.s00.k00", "n00.n01", "n00.v00", "n00.s00.w00", "n01.n10", "n00.n11.n20", "s00",
                "n00.s00", "v00.k10.k00", "p00.n00", "p01.n10", "n01.n10.s00", "n00.n00.s00", "n01.n10.n00"]:
        for c in SIG_CTX:
            corpus.append(f"sig {enc} {ctx_args(c)}")
    for enc in ["k0.p", "d.s", "k0.k0", "d.p", "k0.s", "k0.d.k0", "k0.s.d.s.k0", "d.k0.s", "k0.k0.p"]:
        for c in CALL_CTX:
            corpus.append(f"call {enc} {ctx_args(c)}")
    for enc in ["s", "sc", "d", "es", "ss", "se", "-", "e"]:
        corpus.append(f"paren {enc} {ctx_args(PAREN_SITES[0])}")
    for w in ["()", "(]", "([)]", ")", "())", "(", "()[]", "{}{}", "[]{", "{(})", "()\n)", "(\n\n)[\n]"]:
        corpus.append(f"brackets raw {hexs(w)}")
    for e in ["-:o,-:p,n", "-:o,N", "s:p,n", "-:o,ss:p,s:p,n", "-:o,t:p,ss:p,n", "-:o,ss:p,t:p,n", "-:o,st:p,n",
              "-:o,t:o,sssssssss:p,n", "st:b,n", "-:o,ssss:p,ss:b,n", "-:o,ss:p,-:o,s:b,-:b,n"]:
        corpus.append(f"indent {e}")
    for t in ["1_", "0x", "0b2", "09", "1.e", "1._1", "1e_1", "0_7", "1.e+", "1j0b", "0b12", "1__1", "0_x", "1.a",
              "1..a", "0xa.a", "00.5", "0_0", "1e5j", "09j", "0_9j", "1.e1"]:
        corpus.append(f"num {hexs(t)}")
    for t in ["'a\n'", "'''a''", "'a\\'", "'a", "'a'a", "''''", "'''''", "'a'\\\na", "'\\", "''\n'"]:
        corpus.append(f"strlex {hexs(t)}")
    for b in ["{", "}", "{}", "{y!}", "{y!z}", "{y!r", "{y=}", "{y:{r:{y}}}", "{\\}", "{y", "{{}", "{y!rr}", "{!r}",
              "{y==r}", "{y=!r:}", "{:}", "\\{y}", "{y:\\}}", "\\",
              # regression probes of the finding fixed by /repo d717a96 (a delimiter or quote after the `=`)
              "{={}}", '{="a"}', "{y=()}", "{={}!r}", '{y=("a")}', "{y= []}", '{=""""""}']:
        corpus.append(f"fstr {hexs(b)}")
    for body in ["\\é", "a\\é", "\\x41é", "\\x41\\é", "\\7é", "\\0\\é", "é", "aé", "\\n\\é", "\\\\é", "\\é\\", "\\xé1", "\\x4é",
                 "\\N\\é", "\\u\\😀"]:
        if _odd_trailing_backslash(body):
            continue
        for pfx, qt in [("b", "s"), ("b", "d"), ("b", "D"), ("rb", "s"), ("Rb", "S")]:
            for c in (BYTES_SITES[0], BYTES_SITES[3]):
                corpus.append(f"byteslit {pfx} {qt} {hexs(body)} {ctx_args(c)}")
    out.append(Stream("corpus", corpus, kind="corpus", nontrivial=_violating))

    # ---- (1) exhaustive small scope of the abstract operations
    sigs = all_sigs(4 if q else 5)
    out.append(Stream(f"sig-exhaustive-<={4 if q else 5}-params", [f"sig {e} {ctx_args(c)}" for e in sigs for c in SIG_CTX],
                      kind="exhaustive", exhaustive=True, nontrivial=_violating,
                      note="every grammar-ordered parameter list (<=4 items quick, <=5 thorough) over 2 names x kinds x default flags, "
                           "as def and as lambda"))
    calls = all_calls(4 if q else 5)
    out.append(Stream(f"call-exhaustive-<={4 if q else 5}-args", [f"call {e} {ctx_args(c)}" for e in calls for c in CALL_CTX],
                      kind="exhaustive", exhaustive=True, nontrivial=_violating,
                      note="every argument list (<=4 items quick, <=5 thorough) over {x, *x, a=0, b=0, **x}, as call and as class bases"))
    L = 5 if q else 7
    out.append(Stream(f"brackets-sep-exhaustive-len<={L}",
                      [f"brackets sep {hexs(w)}" for w in words("()[]{}", L)], kind="exhaustive", exhaustive=True,
                      nontrivial=_violating, note="all bracket words; adjacent closer/opener separated by a comma"))
    out.append(Stream(f"brackets-raw-exhaustive-len<={L}",
                      [f"brackets raw {hexs(w)}" for w in words("()[]{}\n", L)], kind="exhaustive", exhaustive=True,
                      nontrivial=_violating, note="all words over brackets and newline, verbatim"))
    reqs = [f"indent {e}" for e in indent_scripts(3 if q else 3, WS_SMALL, "opbc")]
    reqs += [f"indent {e}" for e in indent_scripts(4, ["-", "t", "s", "ss", "ts"] if q else WS_SMALL, "op")
             if e.count(",") == 4]
    reqs += [f"indent {e}" for e in indent_scripts(3, ["-", "t", "ss"] + WS_EXTRA, "op") if e.count(",") == 3]
    out.append(Stream("indent-exhaustive", reqs, kind="exhaustive", exhaustive=True, nontrivial=_violating,
                      note="indentation scripts: <=3 lines over all whitespace strings of <=2 tabs/spaces x "
                           "{block opener, statement, blank, comment}; 4 lines of openers/statements; longer widths"))
    Ln = 4 if q else 6
    out.append(Stream(f"num-exhaustive-len<={Ln}", [f"num {hexs(w)}" for w in words(NUM_ALPHA, Ln, 1)],
                      kind="exhaustive", exhaustive=True, nontrivial=_violating,
                      note="all texts over 0 1 9 _ . e + j x b o a"))
    out.append(Stream("chr-all-ascii", [f"chr {c} {e}" for c in range(128) for e in (0, 1)], kind="exhaustive",
                      exhaustive=True, nontrivial=_violating, note="x<c>y and x<c>=y for every ASCII character"))
    tails = []
    for t1 in words("\n\r a#\\\t\x0c", 2):
        tails += [t1, t1 + "2"]
    out.append(Stream("line-continuation", [f"cont {hexs(t)}" for t in sorted(set(tails))], kind="exhaustive",
                      exhaustive=True, note="`x = 1 + \\` followed by every tail of <=2 layout characters (+ `2`)"))
    Ls = 6 if q else 8
    out.append(Stream(f"strlex-exhaustive-len<={Ls}", [f"strlex {hexs(w)}" for w in words(STR_ALPHA, Ls, 1)],
                      kind="exhaustive", exhaustive=True, nontrivial=_violating,
                      note="all texts over ' \" a backslash newline"))
    Lc = 5 if q else 6
    crw = [w for w in words(STR_ALPHA, Lc, 1) if "\n" in w]
    out.append(Stream(f"strlex-cr-crlf-len<={Lc}", [f"strlex {hexs(w.replace(chr(10), e))}" for w in crw for e in ("\r", "\r\n")],
                      kind="exhaustive", exhaustive=True, compare=False,
                      note="the same texts with every line break written as a lone CR and as CR LF (judged on rejection and kind)"))
    Lf = 5 if q else 7
    out.append(Stream(f"fstr-exhaustive-len<={Lf}", [f"fstr {hexs(w)}" for w in words(FSTR_ALPHA, Lf, 0)],
                      kind="exhaustive", exhaustive=True, nontrivial=_violating,
                      note="all f-string bodies over { } y ! r : = backslash"))

    Lb = 4 if q else 5
    out.append(Stream(f"bytes-literal-exhaustive-len<={Lb}",
                      bytes_requests(Lb, [("b", "s"), ("rb", "s"), ("B", "D"), ("bR", "d")], BYTES_SITES[:1]) +
                      bytes_requests(3, [("b", "s"), ("b", "S"), ("Rb", "D"), ("br", "d")], BYTES_SITES[1:]),
                      kind="exhaustive", exhaustive=True, nontrivial=_violating,
                      note="every bytes-literal body over { a, e-acute, emoji, backslash, x, 4, 0, 7, n, N, u }: a non-ASCII "
                           "character at every position class (plain, after a backslash, after \\x41 / octal / \\n, inside "
                           "\\x.., first, last), plain/raw prefixes, all four quote styles, as statement, in calls, lists, "
                           "patterns and implicit concatenations"))
    Lk = 5 if q else 7
    out.append(Stream(f"softkw-lookahead-exhaustive-len<={Lk}", [f"softkw {hexs(w)}" for w in words("s:()l$", Lk)],
                      kind="exhaustive", exhaustive=True, nontrivial=lambda r: "24" in r.split()[1],
                      note="`match` + every line over { s, :, (, ), lambda, $ }: is the head delivered as keyword or "
                           "as NAME (ties the look-ahead model behind the second known finding)"))

    Lf2 = 5 if q else 6
    out.append(Stream(f"fstr-delimiters-exhaustive-len<={Lf2}", [f"fstr {hexs(w)}" for w in words(FSTR_ALPHA2, Lf2, 0)],
                      kind="exhaustive", exhaustive=True, nontrivial=_violating,
                      note="all f-string bodies over { } y ( ) [ ] \" : the delimiter, mismatch, unmatched and "
                           "quoted-text arms of parse_formatted_value"))

    # ---- (2) the catalogue applied at every applicable site
    site = []
    short_sigs = all_sigs(3)
    for c in SIG_SITES[2:]:
        site += [f"sig {e} {ctx_args(c)}" for e in short_sigs]
    for c in CALL_SITES[2:]:
        site += [f"call {e} {ctx_args(c)}" for e in all_calls(3)]
    for c in PAREN_SITES:
        site += [f"paren {e} {ctx_args(c)}" for e in all_parens(3)]
    for c in ASPAT_SITES:
        site += [f"aspat {p} {t} {ctx_args(c)}" for p in range(len(PATTERNS)) for t in range(len(TARGETS))]
    strs = [w for w in words("bsfurRF", 3, 1)] + [w for w in words("bsfeEBGT", 3, 2) if any(c in "eEBGT" for c in w)]
    for c in STRS_SITES:
        site += [f"strs {e} {ctx_args(c)}" for e in strs]
    site += [f"strs {e} {ctx_args(STRS_PATTERN_SITE)}" for e in words("bsurR", 3, 1)]
    for c in STRS_SITES[:3]:
        site += [f"bytes {hexs(b)} {ctx_args(c)}" for b in words(["a", "é", "😀", " ", "\""], 3, 0)]
    out.append(Stream("catalogue-at-every-site", site, kind="exhaustive", exhaustive=True, nontrivial=_violating,
                      note="parameter lists in async def/method/nested def/lambda in list, call, default, dict; argument "
                           "lists in decorators, nested calls, class keywords, with-items; parenthesised star forms in "
                           "23 expression positions; `as` patterns in 9 pattern positions; literal concatenations"))
    out += random_streams(ctx)
    out.append(Stream("single-edits-at-every-site", site_requests(ctx), kind="directed", compare=False,
                      nontrivial=lambda r: True,
                      note="23 kinds of single rule-violating edits (duplicate/default/bare-star parameters, call-site "
                           "orderings, parenthesised stars, `as _`, deleted/mismatched brackets, stray characters, bad "
                           "continuations, malformed numbers/strings/f-strings, indentation edits) at every site that "
                           "CPython's ast/tokenize finds in three template programs; oracle only"))
    return out
