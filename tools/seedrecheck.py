#!/usr/bin/env python3
"""tools/seedrecheck.py <seed-name>...   (default: all)
Re-run the property's check against each stored seeded change (tools/mutant) and update
seeded/<name>/meta.json lead_verification.check; then regenerate seeded/INDEX.md (tools/seedtable.py)."""
import json, os, subprocess, sys, time
VERIF = os.path.dirname(os.path.dirname(os.path.abspath(__file__)))
names = sys.argv[1:] or sorted(d for d in os.listdir(os.path.join(VERIF, "seeded")) if os.path.isdir(os.path.join(VERIF, "seeded", d)))
for n in names:
    d = os.path.join(VERIF, "seeded", n)
    meta = json.load(open(os.path.join(d, "meta.json")))
    pid = meta["property"]
    t0 = time.time()
    out = ""
    for attempt in range(3):
        p = subprocess.run([os.path.join(VERIF, "tools", "mutant"), pid, os.path.join(d, "patch.diff")], cwd=VERIF,
                           stdout=subprocess.PIPE, stderr=subprocess.STDOUT, text=True, errors="replace")
        out = p.stdout
        if "mutant-run exit=" in out:
            break
    viol = [l for l in out.splitlines() if l.startswith("VIOLATION")]
    rc = 1 if "mutant-run exit=1" in out else 0
    chk = {"cmd": f"tools/mutant {pid} patch.diff", "exit": rc, "violation_lines": viol[:5], "wall_s": round(time.time() - t0, 1),
           "infrastructure_error": "mutant-run exit=" not in out, "caught": bool(viol) and rc != 0,
           "with_input": bool(viol) and not all("no-failing-input-found" in v for v in viol),
           "rechecked_at": time.strftime("%Y-%m-%dT%H:%M:%S"),
           "verif_head": subprocess.run(["git", "-C", VERIF, "rev-parse", "--short", "HEAD"], stdout=subprocess.PIPE, text=True).stdout.strip()}
    meta.setdefault("lead_verification", {})["check"] = chk
    json.dump(meta, open(os.path.join(d, "meta.json"), "w"), indent=1)
    print(n, "CAUGHT" if chk["caught"] else "MISSED", "input" if chk["with_input"] else "no-input", chk["wall_s"], flush=True)
subprocess.run([sys.executable, os.path.join(VERIF, "tools", "seedtable.py")])
