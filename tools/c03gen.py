"""Input families for C03 (totality of lexing and parsing): compact program generator, single-edit
mutations, token soups, random Unicode, pathological shapes. stdlib only; every choice comes from the
`random.Random` handed in (derived from VERIF_SEED by core.Ctx.rng)."""
import glob
import os
import re

KEYWORDS = ["False", "None", "True", "and", "as", "assert", "async", "await", "break", "class", "continue",
            "def", "del", "elif", "else", "except", "finally", "for", "from", "global", "if", "import", "in",
            "is", "lambda", "nonlocal", "not", "or", "pass", "raise", "return", "try", "while", "with", "yield",
            "match", "case", "type"]
OPERATORS = ["+", "-", "*", "**", "/", "//", "%", "@", "<<", ">>", "&", "|", "^", "~", ":=", "<", ">", "<=", ">=",
             "==", "!=", "(", ")", "[", "]", "{", "}", ",", ":", ".", ";", "=", "->", "+=", "-=", "*=", "/=",
             "//=", "%=", "@=", "&=", "|=", "^=", ">>=", "<<=", "**=", "...", "!", "$", "?", "`", "\\"]
NAMES = ["a", "b", "x", "y", "foo", "_", "__init__", "self", "é", "名前", "Ünï", "x1", "match", "case", "type", "_1",
         "print", "ß", "𝐱", "á"]
NUMBERS = ["0", "1", "42", "1_000", "0x1f", "0XFF", "0o17", "0b101", "1.5", ".5", "5.", "1e10", "1E-3", "1.5e+7",
           "3j", "2.5J", "1_0.0_1", "0_0", "00", "0e0", "9" * 30, "0x" + "f" * 40, "1" + "0" * 400 + ".0",
           "1e400", "0.0000001e-400"]
BAD_NUMBERS = ["01", "0x", "0b2", "0o8", "1__0", "1_", "1e", "1e+", "1._5", "1e_5", "0_x1", "1.e_1", "0b", "0o",
               "1ee1", "1.2.3", "0xg", "1_e1", "1e-_1", "9" * 30 + "_", "0" * 20 + "1"]
STRINGS = ["''", '""', "'a'", '"b\\n"', "'''t'''", '"""q\n"""', "r'\\d'", "b'x'", "rb'\\x'", "Rb'x'", "bR''",
           "u'x'", "f'{a}'", "f'{a!r:>{w}}'", "f'{{}}'", "f'{a=}'", "rf'{a}\\n'", "fr'{a:{b}}'", "'\\x41\\u00e9\\U0001F600'",
           "'\\N{EN SPACE}'", "'\\101\\7\\0'", "b'\\377\\x00'", "'é😀'", "'\\\n'", "'a' 'b'", "'a' f'{b}' 'c'",
           "f'{a:{b:{c}}}'", "f'{a!s}'", "f'{(lambda: 1)()}'", "f\"{'a' if b else 'c'}\"", "f'{a[0]:x}'", "'\\z'"]
BAD_STRINGS = ["'", '"', "'''", '"""', "'a", '"a\n"', "'\\", "f'{'", "f'}'", "f'{a'", "f'{}'", "f'{a!}'", "f'{a!z}'",
               "f'{a:{b:{c:{d}}}}'", "'\\x4'", "'\\u12'", "'\\U00110000'", "'\\N{NOT A NAME}'", "'\\N{'", "'\\N'",
               "b'é'", "b'\\N{EN SPACE}'", "'a' b'b'", "f'{a b}'", "f'{a:'", "f'{(}'", "f'{)}'", "f'{[}]}'", "f'{\\}'",
               "f'{a!r'", "f'{a!rx}'", "f'{=}'", "f'{a=!r:^{w}}'", "f'{*a}'", "f'{a;b}'", "f'{#}'", "f'{\n}'",
               "'\\N{" + "A" * 100 + "}'", "f'{a!'", "f'{a = }'", "f'{a= x}'", "f\"{'}\"", "f'{\"}'", "rb'é'",
               "'\\udc00\\ud800'", "f'{a}}'", "f'{{a}'", "f'{a:}}'", "f'{a:{}}'", "f'{a:{b}'"]
BRACKETS = "()[]{}"
UNI_POOL = ([chr(c) for c in range(0x20, 0x7f)] +
            ["\n", "\r", "\r\n", "\t", "\x0c", "\x00", "\x0b", "\x1b", "\x7f", "﻿", " ", " ", " ",
             "\u0085", "​", "‍", "́", "̀", "⃣", "️", "é", "ß", "Ω", "я", "中", "字",
             "١", "۵", "²", "½", "ª", "µ", "ﬁ", "ǅ", "ͺ", "℘", "℮", "·", "፩", "᧚", "😀", "🎉",
             "🇩🇪"[0], "\U0001d465", "\U00020000", "\U000e0100", "\U0010ffff", "\U000f0000", "�", "￿",
             "퟿", "", "͸", "‿", "⁀", "＿", "Ａ", "１", "　", "᠎", "⁠"])


def stdlib_files():
    d = os.path.dirname(os.__file__)
    out = []
    for p in sorted(glob.glob(os.path.join(d, "**", "*.py"), recursive=True)):
        if "site-packages" in p:
            continue
        out.append(p)
    return out


def read_utf8(path):
    """file content as str if it is valid UTF-8 (the harness takes UTF-8 only), else None"""
    try:
        with open(path, "rb") as f:
            return f.read().decode("utf-8")
    except (OSError, UnicodeDecodeError):
        return None


# ---------------------------------------------------------------- compact program generator

class Gen:
    """Random mostly-valid Python programs covering the statement/expression forms of the grammar."""

    def __init__(self, rng, nl="\n", indent="    "):
        self.r = rng
        self.nl = nl
        self.ind = indent

    def name(self):
        return self.r.choice(NAMES[:10])

    def atom(self, d):
        r = self.r
        k = r.randrange(14)
        if k < 4:
            return self.name()
        if k < 6:
            return r.choice(NUMBERS)
        if k < 8:
            return r.choice(STRINGS)
        if k == 8:
            return r.choice(["True", "False", "None", "..."])
        if d <= 0:
            return self.name()
        if k == 9:
            n = r.randrange(0, 3)
            return "(" + ", ".join(self.expr(d - 1) for _ in range(n)) + ("," if n and (n == 1 or r.random() < .3) else "") + ")"
        if k == 10:
            return "[" + ", ".join(self.starexpr(d - 1) for _ in range(r.randrange(0, 3))) + "]"
        if k == 11:
            if r.random() < .5:
                return "{" + ", ".join(self.expr(d - 1) + ": " + self.expr(d - 1) for _ in range(r.randrange(0, 3))) + "}"
            return "{" + ", ".join(self.expr(d - 1) for _ in range(r.randrange(1, 3))) + "}"
        if k == 12:
            o, c = r.choice(["()", "[]", "{}"])
            return f"{o}{self.expr(d - 1)} for {self.target(d - 1)} in {self.expr(d - 1)}" + \
                   (f" if {self.expr(d - 1)}" if r.random() < .4 else "") + c
        return "{" + f"{self.name()}: {self.expr(d - 1)} for {self.name()} in {self.expr(d - 1)}" + "}"

    def starexpr(self, d):
        return ("*" if self.r.random() < .15 else "") + self.expr(d)

    def target(self, d):
        r = self.r
        k = r.randrange(6)
        if k < 3 or d <= 0:
            return self.name()
        if k == 3:
            return self.name() + "." + self.name()
        if k == 4:
            return self.name() + "[" + self.expr(d - 1) + "]"
        return "(" + self.name() + ", *" + self.name() + ")"

    def expr(self, d):
        r = self.r
        if d <= 0:
            return self.atom(0)
        k = r.randrange(20)
        if k < 6:
            return self.atom(d)
        if k < 9:
            op = r.choice(["+", "-", "*", "/", "//", "%", "@", "**", "<<", ">>", "&", "|", "^"])
            return f"{self.expr(d - 1)} {op} {self.expr(d - 1)}"
        if k == 9:
            return r.choice(["-", "+", "~", "not "]) + self.expr(d - 1)
        if k == 10:
            op = r.choice(["<", ">", "<=", ">=", "==", "!=", "in", "not in", "is", "is not"])
            return f"{self.expr(d - 1)} {op} {self.expr(d - 1)}"
        if k == 11:
            return f"{self.expr(d - 1)} {r.choice(['and', 'or'])} {self.expr(d - 1)}"
        if k == 12:
            return f"({self.expr(d - 1)} if {self.expr(d - 1)} else {self.expr(d - 1)})"
        if k == 13:
            return f"(lambda {self.params(d - 1, False)}: {self.expr(d - 1)})"
        if k == 14:
            args = [self.starexpr(d - 1) for _ in range(r.randrange(0, 3))]
            if r.random() < .4:
                args.append(f"{self.name()}={self.expr(d - 1)}")
            if r.random() < .15:
                args.append("**" + self.name())
            return f"{self.atom(d - 1)}({', '.join(args)})"
        if k == 15:
            return f"{self.atom(d - 1)}.{self.name()}"
        if k == 16:
            sl = r.choice(["{0}", "{0}:{1}", ":", "{0}:", ":{1}", "::{0}", "{0}:{1}:{0}", "{0}, {1}", "..., {0}"])
            return f"{self.atom(d - 1)}[{sl.format(self.expr(d - 1), self.expr(d - 1))}]"
        if k == 17:
            return f"({self.name()} := {self.expr(d - 1)})"
        if k == 18:
            return f"(await {self.expr(d - 1)})" if r.random() < .5 else f"(yield {self.expr(d - 1)})"
        return "(" + self.expr(d - 1) + ")"

    def params(self, d, typed):
        r = self.r
        ps = []
        ann = (lambda: ": " + self.expr(0)) if typed else (lambda: "")
        n = r.randrange(0, 4)
        seen_default = False
        for i in range(n):
            p = f"p{i}" + (ann() if r.random() < .3 else "")
            if seen_default or r.random() < .3:
                p += "=" + self.expr(0)
                seen_default = True
            ps.append(p)
            if i == 0 and n > 1 and r.random() < .2:
                ps.append("/")
        if r.random() < .25:
            ps.append("*args" if r.random() < .6 else "*")
            if ps[-1] == "*" or r.random() < .5:
                ps.append("k" + ("=" + self.expr(0) if r.random() < .5 else ""))
        if r.random() < .2:
            ps.append("**kw")
        return ", ".join(ps)

    def pattern(self, d):
        r = self.r
        k = r.randrange(10)
        if d <= 0 or k < 3:
            return r.choice(["_", "x", "1", "'s'", "None", "-1", "1+2j", "a.b", "True"])
        if k == 3:
            return "[" + ", ".join(self.pattern(d - 1) for _ in range(r.randrange(0, 3))) + (", *rest" if r.random() < .3 else "") + "]"
        if k == 4:
            return "{" + ", ".join(f"'k{i}': {self.pattern(d - 1)}" for i in range(r.randrange(0, 3))) + (", **kw" if r.random() < .3 else "") + "}"
        if k == 5:
            return f"C({self.pattern(d - 1)}, a={self.pattern(d - 1)})"
        if k == 6:
            return f"{self.pattern(d - 1)} | {self.pattern(d - 1)}"
        if k == 7:
            return f"({self.pattern(d - 1)} as y)"
        if k == 8:
            return "(" + self.pattern(d - 1) + ", " + self.pattern(d - 1) + ")"
        return "C()"

    def block(self, d, depth):
        n = self.r.randrange(1, 3)
        return "".join(self.stmt(d - 1, depth) for _ in range(n))

    def line(self, depth, text):
        return self.ind * depth + text + self.nl

    def stmt(self, d, depth):
        r = self.r
        L = lambda t: self.line(depth, t)
        k = r.randrange(34) if d > 0 else r.randrange(16)
        e = lambda: self.expr(min(d, 2))
        if k == 0:
            return L(e())
        if k == 1:
            return L(f"{self.target(1)} = {e()}")
        if k == 2:
            return L(f"{self.name()} {r.choice(['+=', '-=', '*=', '/=', '//=', '%=', '@=', '&=', '|=', '^=', '>>=', '<<=', '**='])} {e()}")
        if k == 3:
            return L(f"{self.name()}: {self.expr(0)}" + (f" = {e()}" if r.random() < .6 else ""))
        if k == 4:
            return L(r.choice(["pass", "break", "continue", "return", "raise"]))
        if k == 5:
            return L(f"return {e()}")
        if k == 6:
            return L(f"raise {e()}" + (f" from {e()}" if r.random() < .4 else ""))
        if k == 7:
            return L(f"del {self.target(1)}")
        if k == 8:
            return L(f"assert {e()}" + (f", {e()}" if r.random() < .4 else ""))
        if k == 9:
            return L(r.choice(["import os", "import a.b as c, d", "from . import x", "from .. a import (b, c as d,)",
                               "from x import *", "from ...pkg.mod import y"]))
        if k == 10:
            return L(f"{r.choice(['global', 'nonlocal'])} {self.name()}, {self.name()}")
        if k == 11:
            return L(f"{self.target(1)} = {self.target(1)} = {e()}")
        if k == 12:
            return L(f"a, *b = {e()}, {e()}")
        if k == 13:
            return L(f"{e()}; {e()};")
        if k == 14:
            return L(f"type {self.name()}" + ("[T, *Ts, **P]" if r.random() < .4 else "") + f" = {e()}")
        if k == 15:
            return L(f"x = {r.choice(STRINGS)} {r.choice(STRINGS)}") if r.random() < .5 else L("# comment é") + L("pass")
        if k == 16:
            s = L(f"if {e()}:") + self.block(d, depth + 1)
            while r.random() < .3:
                s += L(f"elif {e()}:") + self.block(d, depth + 1)
            if r.random() < .4:
                s += L("else:") + self.block(d, depth + 1)
            return s
        if k == 17:
            return L(f"{r.choice(['', 'async '])}for {self.target(1)} in {e()}:") + self.block(d, depth + 1) + \
                   (L("else:") + self.block(d, depth + 1) if r.random() < .3 else "")
        if k == 18:
            return L(f"while {e()}:") + self.block(d, depth + 1) + (L("else:") + self.block(d, depth + 1) if r.random() < .3 else "")
        if k in (19, 20):
            deco = "".join(L(f"@{self.name()}" + (f"({e()})" if r.random() < .4 else "")) for _ in range(r.randrange(0, 2)))
            tp = "[T: int, *Ts]" if r.random() < .15 else ""
            return deco + L(f"{r.choice(['', 'async '])}def {self.name()}{tp}({self.params(1, True)})" +
                            (f" -> {self.expr(0)}" if r.random() < .3 else "") + ":") + self.block(d, depth + 1)
        if k == 21:
            bases = r.choice(["", "()", "(A)", "(A, B, metaclass=M)", "(*a, **k)"])
            return L(f"class {self.name()}{bases}:") + self.block(d, depth + 1)
        if k == 22:
            s = L("try:") + self.block(d, depth + 1)
            m = r.randrange(3)
            if m == 0:
                s += L("finally:") + self.block(d, depth + 1)
            else:
                star = "*" if m == 2 else ""
                s += L(f"except{star} {e()} as err:") + self.block(d, depth + 1)
                if m == 1 and r.random() < .5:
                    s += L("except:") + self.block(d, depth + 1)
                if r.random() < .3:
                    s += L("else:") + self.block(d, depth + 1)
                if r.random() < .3:
                    s += L("finally:") + self.block(d, depth + 1)
            return s
        if k == 23:
            items = r.choice(["{0} as f", "{0}", "{0} as f, {1} as g", "({0} as f, {1} as g)", "({0}, {1})", "({0}) as (a, b)"])
            return L(f"{r.choice(['', 'async '])}with {items.format(e(), e())}:") + self.block(d, depth + 1)
        if k == 24:
            s = L(f"match {e()}:")
            for _ in range(r.randrange(1, 3)):
                s += self.line(depth + 1, f"case {self.pattern(2)}" + (f" if {e()}" if r.random() < .3 else "") + ":")
                s += self.block(d, depth + 2)
            return s
        if k == 25:
            return L(f"if {e()}: pass") + L(f"else: {e()}")
        if k == 26:
            return L(f"x = ({e()},") + self.line(depth + 2, f"{e()},  # trailing") + L(")")
        if k == 27:
            return L(f"x = {e()} + \\") + self.line(depth + 3, e())
        if k == 28:
            return L(f"print({r.choice(STRINGS)} % ({e()},))")
        if k == 29:
            return L(f"match = {e()}") + L(f"case = match[{e()}]") + L("type = type(match)")
        if k == 30:
            return L('"""doc') + L("string é") + L('"""')
        if k == 31:
            return L(f"lambda: (yield)") + L("")
        if k == 32:
            return L(f"for x in range(3): print(x); continue")
        return L(f"{e()}")

    def program(self, size=6, depth=3):
        return "".join(self.stmt(depth, 0) for _ in range(self.r.randrange(1, size + 1)))


def valid_program(rng, size=6):
    nl = rng.choice(["\n"] * 6 + ["\r\n", "\r"])
    ind = rng.choice(["    "] * 5 + ["\t", " ", "  "])
    p = Gen(rng, nl, ind).program(size)
    k = rng.randrange(20)
    if k == 0:
        p = "﻿" + p
    elif k == 1:
        p = p.rstrip("\r\n")
    elif k == 2:
        p = nl * 2 + "# coding: utf-8" + nl + p
    return p


def valid_expression(rng):
    return Gen(rng).expr(rng.randrange(1, 5))


# ---------------------------------------------------------------- single-edit mutations

_TOKEN = re.compile(r"""[A-Za-z_\u0080-\U0010ffff][A-Za-z_0-9\u0080-\U0010ffff]*|\d[\w.]*|'''|\"\"\"|\r\n|[ \t]+|\*\*=|//=|>>=|<<=|\.\.\.|[-+*/%@&|^=<>!:]=|->|\*\*|//|<<|>>|.""", re.S)


def tokens_of(text):
    return _TOKEN.findall(text)


def mutate(rng, text):
    """one edit: delete/duplicate/swap a token or char, change a bracket, break an indent, truncate,
    insert a stray token"""
    if not text:
        return rng.choice(OPERATORS)
    k = rng.randrange(13)
    if k < 5:
        toks = tokens_of(text)
        i = rng.randrange(len(toks))
        if k == 0:
            del toks[i]
        elif k == 1:
            toks.insert(i, toks[i])
        elif k == 2 and len(toks) > 1:
            j = rng.randrange(len(toks))
            toks[i], toks[j] = toks[j], toks[i]
        elif k == 3:
            toks.insert(i, rng.choice(OPERATORS + KEYWORDS + BAD_NUMBERS + BAD_STRINGS + ["\n", " ", "\t", "\\\n", "\\"]))
        else:
            toks[i] = rng.choice(OPERATORS + KEYWORDS + NAMES + NUMBERS + STRINGS)
        return "".join(toks)
    i = rng.randrange(len(text))
    if k == 5:
        return text[:i] + text[i + 1:]
    if k == 6:
        return text[:i] + text[i] + text[i:]
    if k == 7:
        j = rng.randrange(len(text))
        i, j = min(i, j), max(i, j)
        if i == j:
            return text[:i]
        return text[:i] + text[j] + text[i + 1:j] + text[i] + text[j + 1:]
    if k == 8:
        pos = [m.start() for m in re.finditer(r"[()\[\]{}]", text)]
        if pos:
            p = rng.choice(pos)
            return text[:p] + rng.choice(BRACKETS) + text[p + 1:]
        return text[:i] + rng.choice(BRACKETS) + text[i:]
    if k == 9:
        pos = [m.end() for m in re.finditer(r"(?:\n|\r\n?)(?=[ \t])", text)]
        if pos:
            p = rng.choice(pos)
            m = re.match(r"[ \t]+", text[p:])
            ind = m.group(0)
            new = rng.choice([ind[:-1], ind + " ", "\t" + ind, ind + "\t", ind[:len(ind) // 2], " " * 7, "\x0c" + ind, ""])
            return text[:p] + new + text[p + len(ind):]
        return " " + text
    if k == 10:
        return text[:i]
    if k == 11:
        return text[:i] + rng.choice(UNI_POOL) + text[i:]
    return text[:i] + rng.choice(["'", '"', "'''", '"""', "#", "\\", "\r", "\r\n", "\x00", "﻿", "f'{", "}", "{"]) + text[i:]


# ---------------------------------------------------------------- soups and random Unicode

def token_soup(rng, n=None):
    n = n if n is not None else rng.randrange(1, 40)
    vocab = [KEYWORDS, OPERATORS, NAMES, NUMBERS, BAD_NUMBERS, STRINGS, BAD_STRINGS,
             ["\n", "\n    ", "\n\t", "\r\n", "\r", "\\\n", "\n  \t", "\n\t  ", " ", "  ", "\t", "\x0c", "#c\n", "# é"]]
    weights = [5, 8, 5, 3, 1, 3, 1, 6]
    out = []
    for _ in range(n):
        out.append(rng.choice(rng.choices(vocab, weights)[0]))
        if rng.random() < .6:
            out.append(" ")
    return "".join(out)


def random_unicode(rng, n=None):
    n = n if n is not None else rng.randrange(0, 30)
    out = []
    for _ in range(n):
        k = rng.randrange(10)
        if k < 5:
            out.append(rng.choice(UNI_POOL))
        elif k < 7:
            out.append(chr(rng.randrange(0, 0x80)))
        elif k == 7:
            c = rng.randrange(0x80, 0x10000)
            if 0xD800 <= c < 0xE000:
                c = 0xFFFD
            out.append(chr(c))
        elif k == 8:
            out.append(chr(rng.randrange(0x10000, 0x110000)))
        else:
            out.append(rng.choice(KEYWORDS + OPERATORS + STRINGS[:12]))
    return "".join(out)


def indent_staircase(depth, body="pass", nl="\n", unit=" "):
    """depth nested `if x:` blocks, each one column deeper, then one statement and EOF (many dedents)"""
    return "".join(unit * i + "if x:" + nl for i in range(depth)) + unit * depth + body + nl


# ------------------------------------------------------------------------------------------------
# f-string bodies for the `fscan` correspondence (the FULL alphabet of the scanner in parser/src/string.rs).
#
# The Lean model (PV.C07.Model, the model C03's fstring_* theorems are about) ABSTRACTS the recursive call
# `parse_fstring_expr(&expression, location)`: where the expression parser rejects the text, the real scanner
# returns InvalidExpression at `location` and the model goes on.  The stream therefore only contains bodies in
# which every expression text that reaches `parse_fstring_expr` is a valid expression.  Which texts those are
# is computed by the twin below (written from string.rs; it only decides which bodies are SENT — a mistake in
# it can drop or admit a body, never change a verdict); whether a text is an expression is decided by CPython
# (`ast.parse('(' + text + ')', mode='eval')`), on an alphabet where the two parsers agree.

class _ScanErr(Exception):
    pass


class _Twin:
    def __init__(self, body, raw):
        self.cs = body
        self.i = 0
        self.raw = raw
        self.exprs = []

    def peek(self):
        return self.cs[self.i] if self.i < len(self.cs) else None

    def next(self):
        if self.i < len(self.cs):
            c = self.cs[self.i]
            self.i += 1
            return c
        return None

    def escaped(self):
        c = self.next()
        if c is None:
            raise _ScanErr()
        if c in "01234567":
            n = 1
            while n < 3 and self.peek() is not None and self.peek() in "01234567":
                self.next()
                n += 1
        elif c in "xuU":
            p = 0
            for _ in range({"x": 2, "u": 4, "U": 8}[c]):
                d = self.next()
                if d is None or d not in "0123456789abcdefABCDEF":
                    raise _ScanErr()
                p = p * 16 + int(d, 16)
            if p > 0x10FFFF:
                raise _ScanErr()
        elif c == "N":
            if self.next() != "{":
                raise _ScanErr()
            name = ""
            while True:
                d = self.next()
                if d is None:
                    raise _ScanErr()
                if d == "}":
                    break
                name += d
            if len(name.encode()) > 88 or name not in FSCAN_NAMES:
                raise _ScanErr()

    def formatted_value(self, nested):
        expr, delims, selfdoc = "", [], False
        while True:
            ch = self.next()
            if ch is None:
                raise _ScanErr()
            pk = self.peek()
            if ch in "!=><" and pk == "=":
                expr += ch + "="
                self.next()
            elif ch == "!" and not delims:
                if not expr.strip():
                    raise _ScanErr()
                c = self.next()
                if c not in ("s", "a", "r"):
                    raise _ScanErr()
                if self.peek() not in ("}", ":"):
                    raise _ScanErr()
            elif ch == "=" and not delims:
                selfdoc = True
            elif ch == ":" and not delims:
                self.spec(nested)
            elif ch in "({[" and not selfdoc:
                expr += ch
                delims.append(ch)
            elif ch in ")]":
                if not delims or delims.pop() != {")": "(", "]": "["}[ch]:
                    raise _ScanErr()
                expr += ch
            elif ch == "}" and delims:
                if delims.pop() != "{":
                    raise _ScanErr()
                expr += ch
            elif ch == "}":
                if not expr.strip():
                    raise _ScanErr()
                self.exprs.append(expr)
                return
            elif ch in "\"'" and not selfdoc:
                expr += ch
                triple = self.cs[self.i:self.i + 2] == ch * 2
                if triple:
                    self.i += 2
                    expr += ch * 2
                run = 0
                while True:
                    c = self.next()
                    if c is None:
                        raise _ScanErr()
                    expr += c
                    if c == ch:
                        run += 1
                        if not triple or run == 3:
                            break
                    else:
                        run = 0
            elif ch in " \t\n\x0b\x0c" and selfdoc:
                pass
            elif ch == "\\":
                raise _ScanErr()
            else:
                if selfdoc:
                    raise _ScanErr()
                expr += ch

    def spec(self, nested):
        while self.peek() is not None:
            c = self.peek()
            if c == "{":
                self.fstring(nested + 1)
                continue
            if c == "}":
                break
            if c == "\\" and not self.raw:
                self.next()
                if self.peek() not in ("{", "}"):
                    self.escaped()
                continue
            self.next()

    def fstring(self, nested):
        if nested >= 2:
            raise _ScanErr()
        while self.peek() is not None:
            ch = self.peek()
            if ch == "{":
                self.next()
                if nested == 0:
                    if self.peek() == "{":
                        self.next()
                        continue
                    if self.peek() is None:
                        raise _ScanErr()
                self.formatted_value(nested)
            elif ch == "}":
                if nested > 0:
                    break
                self.next()
                if self.peek() == "}":
                    self.next()
                else:
                    raise _ScanErr()
            elif ch == "\\" and not self.raw:
                self.next()
                if self.peek() not in ("{", "}"):
                    self.escaped()
            else:
                self.next()


FSCAN_NAMES = {"EN SPACE", "LATIN SMALL LETTER A", "GREEK SMALL LETTER ALPHA", "en space"}   # = lookName of Drv/C03.lean

_EXPR_OK = {}


def _expr_ok(text):
    """is `(text)` an expression for CPython 3.11?  (on the stream's alphabet RustPython agrees)"""
    r = _EXPR_OK.get(text)
    if r is None:
        import ast
        import warnings
        try:
            with warnings.catch_warnings():
                warnings.simplefilter("ignore")
                ast.parse("(" + text + ")", mode="eval")
            r = True
        except (SyntaxError, ValueError, MemoryError, RecursionError):
            r = False
        _EXPR_OK[text] = r
    return r


def fscan_admissible(body, raw):
    """every expression text the scanner hands to the expression parser (before its first own error) is valid"""
    t = _Twin(body, raw)
    try:
        t.fstring(0)
    except _ScanErr:
        pass
    return all(_expr_ok(e) for e in t.exprs)


def fscan_source(body, prefix="f"):
    """wrap a body into a one-token f-string literal that the lexer captures unchanged, or None"""
    if "\r" in body:
        return None
    n = len(body) - len(body.rstrip("\\"))
    if n % 2 == 1:
        return None                     # the closing quote would be escaped
    for q in ("'", '"'):
        if q not in body and "\n" not in body:
            return prefix + q + body + q
    for q in ("'''", '"""'):
        if q not in body and not body.endswith(q[0]) and not body.startswith(q[0]):
            return prefix + q + body + q
    return None


FSCAN_ALPHABET = ["{", "}", ":", "!", "=", "x", "'", "(", ")", "[", "]", "\\", " ", "r", '"', "<"]

FSCAN_CORPUS = [
    "", "a", "{x}", "{x!r}", "{x!s:>{w}}", "{x=}", "{x = }", "{x=!r}", "{x=:>5}", "{{", "}}", "{{}}", "{", "}", "{x", "{x!", "{x!r",
    "{x!z}", "{x!rr}", "{x!r }", "{x:", "{x:{", "{x:{y", "{x:{y}", "{x:{y:{z}}}", "{x:{y:{z", "{!r}", "{ }", "{}", "{:}", "{=}",
    "{x!=y}", "{x==y}", "{x<=y}", "{x>=y}", "{x!==}", "{(x}", "{x)}", "{[x)}", "{(x]}", "{x]}", "{[x}", "{{x}", "{x}}", "{'a'}",
    "{'a}", "{\"a}", "{'''a'''}", "{'''a''}", "{x['a']}", "{x[\"a\"]!r:{w}}", "{x\\}", "{\\}", "\\{x}", "\\}", "\\{", "{x:\\}}",
    "{x:\\{}", "{x:\\x41}", "{x:\\x4}", "{x:\\N{EN SPACE}}", "{x:\\N{QQ}}", "\\N{EN SPACE}{x}", "\\N{QQ}", "\\N{", "\\N", "\\x4",
    "\\u12", "\\U0011000", "\\U00110000", "\\777{x}", "é{x}é", "{é}", "{x!é}", "{x:é}", "{x:é", "{x é}", "{'é}", "{(é}", "{é)}",
    "{x}é}", "{x=é}", "{x= é}", "{x=!é}", "{x!ré}", "😀{", "{😀", "{x:😀{y}😀}", "{x:{y:😀}}", "{x:{y:{😀}}}", "{x=", "{x= ", "{x=\t}",
    "{x= !r}", "{x=:}", "{x=(}", "{x='a'}", "{x:{y=}}", "{x:a{y=}b}", "{x:{y}{z}}", "{x:{y!r}}", "{x:{y:>4}}", "{x:{y:{z}}", "{x,}",
    "{x,y}", "{x:=1}", "{(x:=1)}", "{x[1:2]}", "{x[1:2]:3}", "{{x}:}", "{x:}}", "{x::}", "{x:!r}", "{x!r:!s}", "{a}{b}{c}", "{a}}{b}",
    "{a}{{b}", "{ x }", "{\nx\n}", "{x:\n}", "{x!r\n}", "{x\n!r}", "{x.y}", "{x(1)}", "{x(1}", "{x[(1])}", "{{{x}}}", "{{{{x}}}}",
]


def fscan_exhaustive(maxlen, alphabet=None):
    import itertools
    alphabet = alphabet or FSCAN_ALPHABET
    for n in range(0, maxlen + 1):
        for tup in itertools.product(alphabet, repeat=n):
            yield "".join(tup)


_FS_EXPR = ["x", "x1", "a.b", "f(x)", "f(x, y)", "x[0]", "x['k']", 'x["k"]', "x[1:2]", "(x)", "[x, y]", "{x: y}", "{x}", "x+1",
            "x if y else z", "x!=y", "x==y", "x<=y", "x>=y", "x<y", "(x:=1)", "'s'", '"s"', "'''t'''", "x,", "x, y", " x ", "é",
            "f(é)", "x['é']", "(lambda: 1)", "(lambda a: a)(1)", "not x", "-x", "x**2", "x or y", "[a for a in b]", "''", "'{'", "'}'"]
_FS_LIT = ["", "a", "ab ", "é", "😀", "{{", "}}", "\\n", "\\x41", "\\u00e9", "\\N{EN SPACE}", "\\\\", "\\'", '\\"', "\\101", "%", "#", ":", "!"]
_FS_SPEC = ["", ">5", "{w}", ">{w}", "{w}.{p}", "é", "\\x3e5", "{w!r}", "{w:>3}", " ", "=", "!r", "{{", "a{w}b"]


def fscan_random(rng):
    """mostly well-formed bodies (literal text, escapes, doubled braces, fields with conversions, specs with nested
    fields, '=' forms), then 0..2 single-character edits"""
    out = []
    for _ in range(rng.randrange(1, 5)):
        out.append(rng.choice(_FS_LIT))
        if rng.random() < .8:
            f = "{" + rng.choice(_FS_EXPR)
            if rng.random() < .25:
                f += rng.choice(["=", " = ", "= "])
            if rng.random() < .35:
                f += "!" + rng.choice("rsa")
            if rng.random() < .4:
                f += ":" + rng.choice(_FS_SPEC)
            out.append(f + "}")
    s = "".join(out)
    for _ in range(rng.choice([0, 0, 1, 1, 2])):
        if not s:
            break
        i = rng.randrange(len(s))
        k = rng.randrange(3)
        c = rng.choice(FSCAN_ALPHABET + ["é", "a", "s", "\n", "'''"])
        s = s[:i] + (c if k == 0 else "" if k == 1 else c + s[i]) + s[i + (0 if k == 0 else 1):]
    return s
