#!/usr/bin/env python3
"""tools/benign.py <group>...  — run the checks anchored in the touched files against each BEHAVIOUR-PRESERVING refactoring under
design/benign/<group>/ (tools/mutant, isolated copy); every run must stay quiet (exit 0, no VIOLATION). Exploration only."""
import json,subprocess,sys,os
sys.path.insert(0,'/verif/tools')
import automut
extra={"parser/src/lexer/cursor.rs":["C05","C03"],"parser/src/lexer/indentation.rs":["C08","C04","C05"],"ast/src/impls.rs":["C12","C11"]}
T={k:v[2] for k,v in automut.TARGETS.items()}; T.update(extra)
res=[]
for grp in sys.argv[1:]:
    notes=json.load(open(f'/verif/design/benign/{grp}/notes.json'))
    for n in notes:
        p=f"/verif/design/benign/{grp}/{n['patch']}"
        checks=[]
        for f in n['files']:
            for c in T.get(f,[]):
                if c not in checks: checks.append(c)
        for c in checks:
            r=subprocess.run(['/verif/tools/mutant',c,p],cwd='/verif',stdout=subprocess.PIPE,stderr=subprocess.STDOUT,text=True)
            viol=[l for l in r.stdout.splitlines() if l.startswith('VIOLATION')]
            ok = r.returncode==0 and not viol and 'mutant-run exit=0' in r.stdout
            row={'group':grp,'patch':n['patch'],'files':n['files'],'what':n['what'],'check':c,'quiet':ok,'viol':viol[:3],'tail':'' if ok else r.stdout[-800:]}
            res.append(row); print(json.dumps(row),flush=True)
json.dump(res,open(f'/verif/design/benign/results-{"".join(sys.argv[1:])}.json','w'),indent=1)
