//! Shared helpers of the correspondence harness: hex line protocol, panic capture.
use std::io::{BufRead, Write};
use std::panic::{catch_unwind, AssertUnwindSafe};

pub fn unhex(s: &str) -> Option<Vec<u8>> {
    if s == "-" {
        return Some(Vec::new());
    }
    let b = s.as_bytes();
    if b.len() % 2 != 0 {
        return None;
    }
    let v = |c: u8| -> Option<u8> {
        match c {
            b'0'..=b'9' => Some(c - b'0'),
            b'a'..=b'f' => Some(c - b'a' + 10),
            b'A'..=b'F' => Some(c - b'A' + 10),
            _ => None,
        }
    };
    let mut out = Vec::with_capacity(b.len() / 2);
    for p in b.chunks(2) {
        out.push(v(p[0])? * 16 + v(p[1])?);
    }
    Some(out)
}

pub fn unhex_str(s: &str) -> Option<String> {
    String::from_utf8(unhex(s)?).ok()
}

pub fn hex(b: &[u8]) -> String {
    if b.is_empty() {
        return "-".to_string();
    }
    let mut s = String::with_capacity(b.len() * 2);
    for x in b {
        s.push_str(&format!("{:02x}", x));
    }
    s
}

/// Run `f`, mapping a panic to `None`.
pub fn guard<T>(f: impl FnOnce() -> T) -> Option<T> {
    catch_unwind(AssertUnwindSafe(f)).ok()
}

pub fn opt<T>(o: Option<T>, f: impl FnOnce(T) -> String) -> String {
    match o {
        Some(x) => f(x),
        None => "none".to_string(),
    }
}

/// Read request lines from stdin; answer each with exactly one line. A panic that escapes the
/// handler is reported as `(panic)`.
pub fn proto_loop(handle: impl Fn(&[&str]) -> String) {
    std::panic::set_hook(Box::new(|_| {}));
    let stdin = std::io::stdin();
    let stdout = std::io::stdout();
    let mut out = std::io::BufWriter::new(stdout.lock());
    for line in stdin.lock().lines() {
        let line = match line {
            Ok(l) => l,
            Err(_) => break,
        };
        let ws: Vec<&str> = line.split_ascii_whitespace().collect();
        let r = guard(|| handle(&ws)).unwrap_or_else(|| "(panic)".to_string());
        writeln!(out, "{}", r).unwrap();
        // flush per answer: if a later request aborts the process, every earlier answer has been
        // delivered and core.run_lines blames the right request
        out.flush().unwrap();
    }
    out.flush().unwrap();
}
