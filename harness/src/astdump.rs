//! Canonical single-line S-expression dump of any AST value (shared reference tooling, see
//! /verif/design/REFTOOLS.md).  Include from a binary with
//!     #[path = "../astdump.rs"] mod astdump;
//!
//! Route: `format!("{:?}", node)` (derive(Debug) output is regular) is parsed by a small generic
//! parser of the Debug syntax and re-printed canonically:
//!
//!   struct  `ExprName { range: 0..1, id: Identifier("x"), ctx: Load }`
//!             -> `(ExprName @0..1 (id s:78) (ctx Load))`      (`@a..b` omitted when erased / EmptyRange)
//!   enum wrapper around a struct  `Name(ExprName {..})`  -> the struct alone
//!   `Some(x)` -> x ; `None` -> `None` ; unit variants -> their name ; `true`/`false`
//!   `Identifier("x")` -> `s:78` ; any string -> `s:<hex of UTF-8>` (`s:-` empty)
//!   `Int(3)` / `Int(123456789012345678901234567890)` -> `(Int i:3)` (decimal)
//!   `Float(1.5)` -> `(Float f:3ff8000000000000)` (IEEE-754 bits; Debug of f64 round-trips, the text is
//!             parsed back with `str::parse::<f64>` and `to_bits` taken)
//!   `Bytes([1, 2])` -> `(Bytes b:0102)` ; `Str("a")` -> `(Str s:61)`
//!   `Complex { real: 0.0, imag: 1.0 }` -> `(Complex (real f:..) (imag f:..))`
//!   lists `[a, b]` -> `[a b]`
//!   field `conversion` (ConversionFlag) -> `i:-1` / `i:115` / `i:97` / `i:114` (CPython's ints)
#![allow(dead_code)]

#[derive(Debug, Clone)]
pub enum V {
    Ident(String),
    Str(String),
    Num(String),
    Range(u32, u32),
    Unit,
    Tuple(String, Vec<V>),
    Struct(String, Vec<(String, V)>),
    List(Vec<V>),
    Anon(Vec<V>),
}

struct P<'a> {
    b: &'a [u8],
    i: usize,
}

impl<'a> P<'a> {
    fn ws(&mut self) {
        while self.i < self.b.len() && (self.b[self.i] == b' ' || self.b[self.i] == b'\n') {
            self.i += 1;
        }
    }
    fn peek(&self) -> u8 {
        if self.i < self.b.len() {
            self.b[self.i]
        } else {
            0
        }
    }
    fn eat(&mut self, c: u8) -> Result<(), String> {
        self.ws();
        if self.peek() == c {
            self.i += 1;
            Ok(())
        } else {
            Err(format!("expected {:?} at {}", c as char, self.i))
        }
    }
    fn ident(&mut self) -> String {
        let s = self.i;
        while self.i < self.b.len() && (self.b[self.i].is_ascii_alphanumeric() || self.b[self.i] == b'_') {
            self.i += 1;
        }
        String::from_utf8_lossy(&self.b[s..self.i]).into_owned()
    }
    fn string(&mut self) -> Result<String, String> {
        // at the opening quote; Rust `escape_debug` syntax
        self.i += 1;
        let mut out: Vec<u8> = Vec::new();
        loop {
            if self.i >= self.b.len() {
                return Err("unterminated string".into());
            }
            let c = self.b[self.i];
            self.i += 1;
            match c {
                b'"' => break,
                b'\\' => {
                    let e = self.b[self.i];
                    self.i += 1;
                    match e {
                        b'n' => out.push(b'\n'),
                        b'r' => out.push(b'\r'),
                        b't' => out.push(b'\t'),
                        b'0' => out.push(0),
                        b'\\' => out.push(b'\\'),
                        b'"' => out.push(b'"'),
                        b'\'' => out.push(b'\''),
                        b'u' => {
                            // \u{hex}
                            if self.b[self.i] != b'{' {
                                return Err("bad \\u".into());
                            }
                            self.i += 1;
                            let s = self.i;
                            while self.b[self.i] != b'}' {
                                self.i += 1;
                            }
                            let h = std::str::from_utf8(&self.b[s..self.i]).map_err(|e| e.to_string())?;
                            self.i += 1;
                            let cp = u32::from_str_radix(h, 16).map_err(|e| e.to_string())?;
                            let ch = char::from_u32(cp).ok_or("bad scalar")?;
                            let mut buf = [0u8; 4];
                            out.extend_from_slice(ch.encode_utf8(&mut buf).as_bytes());
                        }
                        _ => return Err(format!("unknown escape \\{}", e as char)),
                    }
                }
                _ => out.push(c),
            }
        }
        String::from_utf8(out).map_err(|e| e.to_string())
    }
    fn number(&mut self) -> V {
        let s = self.i;
        if self.peek() == b'-' {
            self.i += 1;
        }
        // `-inf`
        if self.peek() == b'i' {
            let id = self.ident();
            return V::Num(format!("-{}", id));
        }
        let digits = |p: &mut P| {
            while p.i < p.b.len() && p.b[p.i].is_ascii_digit() {
                p.i += 1;
            }
        };
        digits(self);
        // a range `a..b`
        if self.peek() == b'.' && self.i + 1 < self.b.len() && self.b[self.i + 1] == b'.' {
            let a: u32 = std::str::from_utf8(&self.b[s..self.i]).unwrap().parse().unwrap_or(0);
            self.i += 2;
            let t = self.i;
            digits(self);
            let b: u32 = std::str::from_utf8(&self.b[t..self.i]).unwrap().parse().unwrap_or(0);
            return V::Range(a, b);
        }
        if self.peek() == b'.' {
            self.i += 1;
            digits(self);
        }
        if self.peek() == b'e' || self.peek() == b'E' {
            self.i += 1;
            if self.peek() == b'-' || self.peek() == b'+' {
                self.i += 1;
            }
            digits(self);
        }
        V::Num(String::from_utf8_lossy(&self.b[s..self.i]).into_owned())
    }
    fn value(&mut self) -> Result<V, String> {
        self.ws();
        let c = self.peek();
        if c == b'"' {
            return Ok(V::Str(self.string()?));
        }
        if c == b'[' {
            self.i += 1;
            let mut v = Vec::new();
            loop {
                self.ws();
                if self.peek() == b']' {
                    self.i += 1;
                    break;
                }
                v.push(self.value()?);
                self.ws();
                if self.peek() == b',' {
                    self.i += 1;
                }
            }
            return Ok(V::List(v));
        }
        if c == b'(' {
            self.i += 1;
            let mut v = Vec::new();
            loop {
                self.ws();
                if self.peek() == b')' {
                    self.i += 1;
                    break;
                }
                v.push(self.value()?);
                self.ws();
                if self.peek() == b',' {
                    self.i += 1;
                }
            }
            return Ok(if v.is_empty() { V::Unit } else { V::Anon(v) });
        }
        if c == b'-' || c.is_ascii_digit() {
            return Ok(self.number());
        }
        if c.is_ascii_alphabetic() || c == b'_' {
            let id = self.ident();
            if id == "inf" || id == "NaN" {
                return Ok(V::Num(id));
            }
            self.ws();
            if self.peek() == b'(' {
                self.i += 1;
                let mut v = Vec::new();
                loop {
                    self.ws();
                    if self.peek() == b')' {
                        self.i += 1;
                        break;
                    }
                    v.push(self.value()?);
                    self.ws();
                    if self.peek() == b',' {
                        self.i += 1;
                    }
                }
                return Ok(V::Tuple(id, v));
            }
            if self.peek() == b'{' {
                self.i += 1;
                let mut fs = Vec::new();
                loop {
                    self.ws();
                    if self.peek() == b'}' {
                        self.i += 1;
                        break;
                    }
                    let f = self.ident();
                    self.eat(b':')?;
                    let v = self.value()?;
                    fs.push((f, v));
                    self.ws();
                    if self.peek() == b',' {
                        self.i += 1;
                    }
                }
                return Ok(V::Struct(id, fs));
            }
            return Ok(V::Ident(id));
        }
        Err(format!("unexpected byte {:?} at {}", c as char, self.i))
    }
}

/// Parse the `{:?}` text of any derive(Debug) value.
pub fn parse_debug(s: &str) -> Result<V, String> {
    let mut p = P { b: s.as_bytes(), i: 0 };
    let v = p.value()?;
    p.ws();
    if p.i != p.b.len() {
        return Err(format!("trailing text at {}", p.i));
    }
    Ok(v)
}

/// step through enum wrappers (`Name(ExprName {..})`, `Some(x)`)
pub fn unwrap(v: &V) -> &V {
    match v {
        V::Tuple(_, vs) if vs.len() == 1 => match &vs[0] {
            V::Struct(..) => unwrap(&vs[0]),
            _ => {
                if let V::Tuple(n, _) = v {
                    if n == "Some" {
                        return unwrap(&vs[0]);
                    }
                }
                v
            }
        },
        _ => v,
    }
}

/// subtree at a dotted path of field names and list indices, e.g. `body.0.targets.1`
pub fn navigate<'a>(v: &'a V, path: &str) -> Option<&'a V> {
    let mut cur = unwrap(v);
    if path == "-" || path.is_empty() {
        return Some(cur);
    }
    for step in path.split('.') {
        cur = unwrap(cur);
        cur = match cur {
            V::Struct(_, fs) => &fs.iter().find(|(f, _)| f == step)?.1,
            V::List(xs) => xs.get(step.parse::<usize>().ok()?)?,
            _ => return None,
        };
    }
    Some(unwrap(cur))
}

/// `@a..b` of a struct node
pub fn range_of(v: &V) -> Option<String> {
    if let V::Struct(_, fs) = unwrap(v) {
        for (f, x) in fs {
            if f == "range" {
                if let V::Range(a, b) = x {
                    return Some(format!("@{}..{}", a, b));
                }
            }
        }
    }
    None
}

fn hexs(b: &[u8], out: &mut String) {
    if b.is_empty() {
        out.push('-');
        return;
    }
    const H: &[u8; 16] = b"0123456789abcdef";
    for x in b {
        out.push(H[(x >> 4) as usize] as char);
        out.push(H[(x & 15) as usize] as char);
    }
}

fn num(n: &str, out: &mut String) {
    let is_float = n.contains('.') || n.contains('e') || n.contains('E') || n.contains("inf") || n.contains("NaN");
    if is_float {
        let f: f64 = n.parse().unwrap_or(f64::NAN);
        let bits = if f.is_nan() { 0x7ff8000000000000u64 } else { f.to_bits() };
        out.push_str(&format!("f:{:016x}", bits));
    } else {
        out.push_str("i:");
        out.push_str(n);
    }
}

fn conv(v: &V) -> Option<&'static str> {
    if let V::Ident(s) = v {
        return match s.as_str() {
            "None" => Some("i:-1"),
            "Str" => Some("i:115"),
            "Ascii" => Some("i:97"),
            "Repr" => Some("i:114"),
            _ => None,
        };
    }
    None
}

/// Canonical print.  `erase` drops every range.
pub fn canon(v: &V, erase: bool, out: &mut String) {
    match v {
        V::Ident(s) => out.push_str(s),
        V::Str(s) => {
            out.push_str("s:");
            hexs(s.as_bytes(), out);
        }
        V::Num(n) => num(n, out),
        V::Range(a, b) => out.push_str(&format!("@{}..{}", a, b)),
        V::Unit => out.push_str("()"),
        V::Anon(vs) => {
            out.push_str("(,");
            for x in vs {
                out.push(' ');
                canon(x, erase, out);
            }
            out.push(')');
        }
        V::List(vs) => {
            out.push('[');
            for (k, x) in vs.iter().enumerate() {
                if k > 0 {
                    out.push(' ');
                }
                canon(x, erase, out);
            }
            out.push(']');
        }
        V::Tuple(name, vs) => {
            if vs.len() == 1 {
                if name == "Some" {
                    return canon(&vs[0], erase, out);
                }
                if let V::Struct(..) = &vs[0] {
                    return canon(&vs[0], erase, out);
                }
                if name == "Identifier" {
                    return canon(&vs[0], erase, out);
                }
                if name == "Bytes" {
                    if let V::List(items) = &vs[0] {
                        let bytes: Vec<u8> = items
                            .iter()
                            .map(|x| if let V::Num(n) = x { n.parse::<u8>().unwrap_or(0) } else { 0 })
                            .collect();
                        out.push_str("(Bytes b:");
                        hexs(&bytes, out);
                        out.push(')');
                        return;
                    }
                }
            }
            out.push('(');
            out.push_str(name);
            for x in vs {
                out.push(' ');
                canon(x, erase, out);
            }
            out.push(')');
        }
        V::Struct(name, fs) => {
            out.push('(');
            out.push_str(name);
            for (f, x) in fs {
                if f == "range" {
                    if !erase {
                        if let V::Range(..) = x {
                            out.push(' ');
                            canon(x, erase, out);
                        }
                    }
                    continue;
                }
                out.push_str(" (");
                out.push_str(f);
                out.push(' ');
                if f == "conversion" {
                    if let Some(c) = conv(x) {
                        out.push_str(c);
                        out.push_str(")");
                        continue;
                    }
                }
                canon(x, erase, out);
                out.push(')');
            }
            out.push(')');
        }
    }
}

/// `{:?}` text -> canonical S-expression.
pub fn dump_debug_text(dbg: &str, erase: bool) -> String {
    match parse_debug(dbg) {
        Ok(v) => {
            let mut out = String::with_capacity(dbg.len());
            canon(&v, erase, &mut out);
            out
        }
        Err(e) => format!("(dump-error {})", e.replace(' ', "_")),
    }
}

/// Any Debug value -> canonical S-expression.
pub fn dump<T: std::fmt::Debug>(node: &T, erase: bool) -> String {
    dump_debug_text(&format!("{:?}", node), erase)
}
