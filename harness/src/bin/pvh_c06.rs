//! C06 harness: literal decoding through the real lexer + parser.
//!
//!   lit <src> [n=<table>]    parse a one-literal expression, print the Constant canonically
//!   tok <src>                the literal tokens `lex()` produces (String / Int / Float / Complex)
//!   table esc                behavioural table: `\c` for every ASCII c x {str,u,bytes,r,rb}
//!   table prefix             behavioural table: every 1- and 2-letter prefix over [bBfFrRuU]
//!
//! The optional `n=` argument (unicode-name lookups for the model) is ignored here.
use pvh::*;
use rustpython_parser::ast::{self, Constant, Expr};
use rustpython_parser::lexer::{lex, LexicalErrorType};
use rustpython_parser::{Mode, Parse, ParseErrorType, StringKind, Tok};

fn cps(s: &str) -> String {
    if s.is_empty() {
        return "-".into();
    }
    s.chars()
        .map(|c| (c as u32).to_string())
        .collect::<Vec<_>>()
        .join(",")
}

fn lex_err_kind(e: &LexicalErrorType) -> String {
    match e {
        LexicalErrorType::StringError => "StringError".into(),
        LexicalErrorType::UnicodeError => "UnicodeError".into(),
        LexicalErrorType::Eof => "Eof".into(),
        LexicalErrorType::OtherError(_) => "OtherError".into(),
        LexicalErrorType::FStringError(_) => "FStringError".into(),
        LexicalErrorType::LineContinuationError => "LineContinuationError".into(),
        LexicalErrorType::UnrecognizedToken { .. } => "UnrecognizedToken".into(),
        _ => "OtherLexical".into(),
    }
}

fn show_const(value: &Constant, kind: &Option<String>) -> String {
    match value {
        Constant::Str(s) => format!(
            "str {} {}",
            match kind.as_deref() {
                Some(k) => k.to_string(),
                None => "-".to_string(),
            },
            cps(s)
        ),
        Constant::Bytes(b) => format!("bytes {}", hex(b)),
        Constant::Int(i) => format!("int {}", i),
        Constant::Float(f) => format!("float {:016x}", f.to_bits()),
        Constant::Complex { real, imag } => {
            format!("complex {:016x} {:016x}", real.to_bits(), imag.to_bits())
        }
        _ => "other-constant".into(),
    }
}

fn lit(src: &str) -> String {
    match ast::Expr::parse(src, "<c06>") {
        Ok(Expr::Constant(c)) => show_const(&c.value, &c.kind),
        Ok(Expr::JoinedStr(_)) => "joined".into(),
        Ok(_) => "other-expr".into(),
        Err(e) => match &e.error {
            ParseErrorType::Lexical(l) => format!("err {} {}", lex_err_kind(l), u32::from(e.offset)),
            _ => format!("err Parse {}", u32::from(e.offset)),
        },
    }
}

fn kind_name(k: StringKind) -> &'static str {
    match k {
        StringKind::String => "s",
        StringKind::FString => "f",
        StringKind::Bytes => "b",
        StringKind::RawString => "r",
        StringKind::RawFString => "rf",
        StringKind::RawBytes => "rb",
        StringKind::Unicode => "u",
    }
}

fn tok(src: &str) -> String {
    let mut out = Vec::new();
    for r in lex(src, Mode::Expression) {
        match r {
            Ok((t, _)) => match t {
                Tok::String {
                    value,
                    kind,
                    triple_quoted,
                } => out.push(format!(
                    "S:{}:{}:{}",
                    kind_name(kind),
                    if triple_quoted { 3 } else { 1 },
                    cps(&value)
                )),
                Tok::Int { value } => out.push(format!("I:{}", value)),
                Tok::Float { value } => out.push(format!("F:{:016x}", value.to_bits())),
                Tok::Complex { real, imag } => {
                    out.push(format!("C:{:016x}:{:016x}", real.to_bits(), imag.to_bits()))
                }
                Tok::Newline | Tok::EndOfFile | Tok::StartExpression => {}
                _ => out.push("O".into()),
            },
            Err(e) => {
                out.push(format!("E:{}:{}", lex_err_kind(&e.error), u32::from(e.location)));
                break;
            }
        }
    }
    if out.is_empty() {
        "-".into()
    } else {
        out.join(";")
    }
}

/// kinds of the escape table, in this order: 0 str, 1 u, 2 bytes, 3 raw str, 4 raw bytes
const ESC_PREFIX: [&str; 5] = ["", "u", "b", "r", "rb"];

fn table_esc() -> String {
    // row: k:c=<cps>|E   (code points of the decoded value; for bytes the byte values)
    let mut rows = Vec::new();
    for (k, p) in ESC_PREFIX.iter().enumerate() {
        for c in 0u32..128 {
            if c == 13 {
                continue; // CR is folded to LF by the lexer: same row as 10
            }
            let ch = char::from_u32(c).unwrap();
            let q = if ch == '\'' { '"' } else { '\'' };
            let src = format!("{p}{q}\\{ch}{q}");
            let v = guard(|| match ast::Expr::parse(&src, "<c06>") {
                Ok(Expr::Constant(c)) => match &c.value {
                    Constant::Str(s) => cps(s),
                    Constant::Bytes(b) => {
                        if b.is_empty() {
                            "-".to_string()
                        } else {
                            b.iter().map(|x| x.to_string()).collect::<Vec<_>>().join(",")
                        }
                    }
                    _ => "?".into(),
                },
                Ok(_) => "?".into(),
                Err(_) => "E".into(),
            })
            .unwrap_or_else(|| "P".into());
            rows.push(format!("{k}:{c}={v}"));
        }
    }
    rows.join(";")
}

/// Observed kind of `<prefix>'\x41{{'`: 0 str, 1 f, 2 bytes, 3 raw str, 4 raw f, 5 raw bytes, 6 u; `N` = not a prefix
fn observe_prefix(p: &str) -> String {
    let src = format!("{p}'\\x41{{{{'");
    let r = guard(|| match ast::Expr::parse(&src, "<c06>") {
        Ok(Expr::Constant(c)) => match (&c.value, c.kind.as_deref()) {
            (Constant::Str(s), None) if s == "A{{" => "0",
            (Constant::Str(s), None) if s == "\\x41{{" => "3",
            (Constant::Str(s), Some("u")) if s == "A{{" => "6",
            (Constant::Bytes(b), None) if b == b"A{{" => "2",
            (Constant::Bytes(b), None) if b == b"\\x41{{" => "5",
            _ => "?",
        },
        Ok(Expr::JoinedStr(j)) => {
            if j.values.len() != 1 {
                "?"
            } else {
                match &j.values[0] {
                    Expr::Constant(c) => match &c.value {
                        Constant::Str(s) if s == "A{" => "1",
                        Constant::Str(s) if s == "\\x41{" => "4",
                        _ => "?",
                    },
                    _ => "?",
                }
            }
        }
        Ok(_) => "?",
        Err(_) => "N",
    });
    r.unwrap_or("P").to_string()
}

fn table_prefix() -> String {
    let letters = ['b', 'B', 'f', 'F', 'r', 'R', 'u', 'U'];
    let mut rows = Vec::new();
    for a in letters {
        rows.push(format!("{}={}", a as u32, observe_prefix(&a.to_string())));
    }
    for a in letters {
        for b in letters {
            rows.push(format!(
                "{},{}={}",
                a as u32,
                b as u32,
                observe_prefix(&format!("{a}{b}"))
            ));
        }
    }
    rows.join(";")
}

fn handle(ws: &[&str]) -> String {
    let bad = || "bad-request".to_string();
    match ws {
        ["lit", s] | ["lit", s, _] => match unhex_str(s) {
            Some(s) => lit(&s),
            None => bad(),
        },
        ["tok", s] => match unhex_str(s) {
            Some(s) => tok(&s),
            None => bad(),
        },
        ["table", "esc"] => table_esc(),
        ["table", "prefix"] => table_prefix(),
        _ => bad(),
    }
}

fn main() {
    proto_loop(handle);
}
