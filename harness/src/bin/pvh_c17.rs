//! C17 harness: rustpython_literal::float (repr, parsing, hex, printf-style renderers) and the
//! Rust std formatting primitives that PV.Dec stands for.
use pvh::*;
use rustpython_literal::float;
use rustpython_literal::format::Case;

fn bits_of(s: &str) -> Option<f64> {
    s.parse::<u64>().ok().map(f64::from_bits)
}

/// canonical answer for a float result: its bit pattern, every NaN as `nan`
fn show_f(f: f64) -> String {
    if f.is_nan() {
        "nan".to_string()
    } else {
        f.to_bits().to_string()
    }
}

fn show_of(o: Option<Option<f64>>) -> String {
    match o {
        None => "panic".to_string(),
        Some(None) => "none".to_string(),
        Some(Some(f)) => show_f(f),
    }
}

fn txt(o: Option<String>) -> String {
    match o {
        None => "panic".to_string(),
        Some(s) => format!("={}", s),
    }
}

fn handle(ws: &[&str]) -> String {
    let bad = || "bad-request".to_string();
    match ws {
        // ---- Rust std primitives (what PV.Dec defines)
        ["rfix", b, p] => match (bits_of(b), p.parse::<usize>()) {
            (Some(f), Ok(p)) => format!("{:.*}", p, f),
            _ => bad(),
        },
        ["rexp", b, p] => match (bits_of(b), p.parse::<usize>()) {
            (Some(f), Ok(p)) => format!("{:.*e}", p, f),
            _ => bad(),
        },
        ["rsci", b] => match bits_of(b) {
            Some(f) => format!("{:e}", f),
            _ => bad(),
        },
        ["rdisp", b] => match bits_of(b) {
            Some(f) => format!("{}", f),
            _ => bad(),
        },
        // ---- literal::float
        ["ftoa", b] => match bits_of(b) {
            Some(f) => txt(guard(|| float::to_string(f))),
            _ => bad(),
        },
        ["ftoart", b] => match bits_of(b) {
            Some(f) => show_of(guard(|| float::parse_str(&float::to_string(f)))),
            _ => bad(),
        },
        ["fhexrt", b] => match bits_of(b) {
            Some(f) => show_of(guard(|| float::from_hex(&float::to_hex(f)))),
            _ => bad(),
        },
        ["ffmts", kind, b, case, alt, asf, lo, hi] => {
            let (f, lo, hi) = match (bits_of(b), lo.parse::<usize>(), hi.parse::<usize>()) {
                (Some(f), Ok(lo), Ok(hi)) => (f, lo, hi),
                _ => return bad(),
            };
            let case = if *case == "u" { Case::Upper } else { Case::Lower };
            let alt = *alt == "1";
            let asf = *asf == "1";
            let mut out = Vec::new();
            for p in lo..=hi {
                out.push(match *kind {
                    "f" => txt(guard(|| float::format_fixed(p, f, case, alt))),
                    "e" => txt(guard(|| float::format_exponent(p, f, case, alt))),
                    "g" => txt(guard(|| float::format_general(p, f, case, alt, asf))),
                    _ => return bad(),
                });
            }
            out.join(";")
        }
        ["isint", b] => match bits_of(b) {
            Some(f) => format!("{}", float::is_integer(f)),
            _ => bad(),
        },
        ["atof", t] => match unhex_str(t) {
            Some(t) => show_of(guard(|| float::parse_str(&t))),
            None => bad(),
        },
        ["atofb", t] => match unhex(t) {
            Some(t) => show_of(guard(|| float::parse_bytes(&t))),
            None => bad(),
        },
        ["fhex", b] => match bits_of(b) {
            Some(f) => txt(guard(|| float::to_hex(f))),
            _ => bad(),
        },
        ["fromhex", t] => match unhex_str(t) {
            Some(t) => show_of(guard(|| float::from_hex(&t))),
            None => bad(),
        },
        ["ffmt", kind, b, p, case, alt, asf] => {
            let (f, p) = match (bits_of(b), p.parse::<usize>()) {
                (Some(f), Ok(p)) => (f, p),
                _ => return bad(),
            };
            let case = if *case == "u" { Case::Upper } else { Case::Lower };
            let alt = *alt == "1";
            let asf = *asf == "1";
            match *kind {
                "f" => txt(guard(|| float::format_fixed(p, f, case, alt))),
                "e" => txt(guard(|| float::format_exponent(p, f, case, alt))),
                "g" => txt(guard(|| float::format_general(p, f, case, alt, asf))),
                _ => bad(),
            }
        }
        _ => bad(),
    }
}

fn main() {
    proto_loop(handle);
}
