//! C13 harness: row/column conversion by `LinearLocator` and `RandomLocator`.
//!
//! ops (one per line, text arguments hex):
//!   locate <mode m|e|i> <src>         parse, fold with both locators, list every located node
//!                                     (canonical order = derive(Debug) order of the tree) and the
//!                                     trace of calls the real LinearLocator performed
//!   trace <d|r> <mode> <src> <op>...  parse, fold with LinearLocator, compare the recorded call
//!                                     sequence with the ops given (`l<off>=<r>,<c>` / `o<off>=…` / `=none`)
//!   locseq <d|r> <text> <op>...       drive a LinearLocator directly: `l<off>` locate, `o<off>`
//!                                     locate_only, `e<off>` locate_error; RandomLocator on the same offsets
//!   spec <text> <off>...              RandomLocator on each offset (validates the Lean reference definition)
//!   tree <mode> <src>                 `{:?}` of the parsed tree (tools/props/c13.py turns it into the generic tree
//!                                     it attaches to `fold` requests), `noparse` otherwise
//!   fold <d|r> <mode> <src> <tree>... parse, fold with both locators: the calls the real LinearLocator made
//!                                     (`ops=`), whether they form a forward history (`fwd=`), whether the fold
//!                                     was forward, panic-free and both locators stored the same location in
//!                                     every node (`ordered=`), and the located ranges of every node
//!                                     (`nodes=` LinearLocator, `rnd=` RandomLocator) in derive(Debug) order.
//!                                     The tree words are for the Lean driver, which answers the same line from
//!                                     its model of the fold (generated fold program + overrides).
//!   pfold <d|r> <mode> <src> <tokens> <spans> <tree>...
//!                                     the same answer as `fold` plus ` chk=ok`.  The attachments are for the Lean
//!                                     driver: it runs the program-parser MODEL `PV.C02.parseRProgram` on the real
//!                                     tokens and spans, checks that the model's tree is the attached real tree
//!                                     (kinds, ranges, field positions), folds THE MODEL'S tree with its model of
//!                                     the fold and evaluates the hypotheses / conclusions of the parser-level
//!                                     theorems on it (`chk=`).
//! `d|r` names the build flavour the request is meant for (debug assertions + overflow checks, or not).
use pvh::*;
use rustpython_ast::Fold;
use rustpython_parser::{parse, Mode};
use rustpython_parser_core::source_code::{
    verif_trace, LinearLocator, LocatedError, RandomLocator, SourceLocation,
};
use rustpython_parser_core::text_size::TextSize;
use rustpython_parser_core::BaseError;

fn mode_of(s: &str) -> Option<Mode> {
    match s {
        "m" => Some(Mode::Module),
        "e" => Some(Mode::Expression),
        "i" => Some(Mode::Interactive),
        _ => None,
    }
}

fn show_loc(l: SourceLocation) -> String {
    format!("{},{}", l.row.get(), l.column.get())
}

fn show_event(e: &verif_trace::Event) -> String {
    format!(
        "{}{}={}",
        if e.only { "o" } else { "l" },
        e.offset,
        opt(e.result, |(r, c)| format!("{},{}", r, c))
    )
}

/// One `range:` field found in the `{:?}` text of a tree: (node kind, text of the value).
/// `derive(Debug)` prints `Kind { range: <value>, field: … }`; string and char literals are skipped,
/// so program text can never be mistaken for structure.
fn scan_ranges(dbg: &str) -> Vec<(String, String)> {
    let b = dbg.as_bytes();
    let mut out = Vec::new();
    let mut stack: Vec<String> = Vec::new();
    let mut last_ident = String::new();
    let mut i = 0;
    while i < b.len() {
        let c = b[i];
        match c {
            b'"' => {
                i += 1;
                while i < b.len() && b[i] != b'"' {
                    if b[i] == b'\\' {
                        i += 1;
                    }
                    i += 1;
                }
                i += 1;
                last_ident.clear();
            }
            b'\'' => {
                // char literal: '\'' or 'x' (possibly multi-byte) — skip to the closing quote
                i += 1;
                if i < b.len() && b[i] == b'\\' {
                    i += 2;
                }
                while i < b.len() && b[i] != b'\'' {
                    i += 1;
                }
                i += 1;
                last_ident.clear();
            }
            b'{' => {
                stack.push(std::mem::take(&mut last_ident));
                i += 1;
            }
            b'}' => {
                stack.pop();
                last_ident.clear();
                i += 1;
            }
            _ if c.is_ascii_alphabetic() || c == b'_' => {
                let s = i;
                while i < b.len() && (b[i].is_ascii_alphanumeric() || b[i] == b'_') {
                    i += 1;
                }
                let id = &dbg[s..i];
                if id == "range" && i < b.len() && b[i] == b':' {
                    // value: up to the `,` or `}` at nesting depth 0
                    i += 1;
                    let vs = i;
                    let mut depth = 0i32;
                    while i < b.len() {
                        match b[i] {
                            b'{' | b'(' | b'[' => depth += 1,
                            b'}' | b')' | b']' if depth > 0 => depth -= 1,
                            b'}' | b',' if depth == 0 => break,
                            _ => {}
                        }
                        i += 1;
                    }
                    let kind = stack.last().cloned().unwrap_or_default();
                    out.push((kind, dbg[vs..i].trim().to_string()));
                    last_ident.clear();
                } else {
                    last_ident = id.to_string();
                }
            }
            b' ' => {
                i += 1;
            }
            _ => {
                last_ident.clear();
                i += 1;
            }
        }
    }
    out
}

/// `0..5` -> (0, 5)
fn parse_text_range(v: &str) -> Option<(u32, u32)> {
    let (a, b) = v.split_once("..")?;
    Some((a.parse().ok()?, b.parse().ok()?))
}

/// `SourceRange { start: SourceLocation { row: 1, column: 1 }, end: Some(SourceLocation { row: 1, column: 2 }) }`
/// -> "r,c-r,c" (or "r,c-none")
fn parse_source_range(v: &str) -> Option<String> {
    let mut nums: Vec<String> = Vec::new();
    for key in ["row: ", "column: "] {
        let _ = key;
    }
    let mut rest = v;
    loop {
        let (i, klen) = match (rest.find("row: "), rest.find("column: ")) {
            (Some(a), Some(b)) if a < b => (a, 5),
            (Some(_), Some(b)) => (b, 8),
            (Some(a), None) => (a, 5),
            (None, Some(b)) => (b, 8),
            (None, None) => break,
        };
        rest = &rest[i + klen..];
        let d: String = rest.chars().take_while(|c| c.is_ascii_digit()).collect();
        if d.is_empty() {
            return None;
        }
        nums.push(d);
    }
    match nums.len() {
        4 => Some(format!("{},{}-{},{}", nums[0], nums[1], nums[2], nums[3])),
        2 => Some(format!("{},{}-none", nums[0], nums[1])),
        _ => None,
    }
}

fn locate(mode: Mode, src: &str) -> String {
    let tree = match guard(|| parse(src, mode, "<pv>")) {
        None => return "parse=panic".to_string(),
        Some(Err(e)) => {
            // error offsets convert the same way
            let off = u32::from(e.offset);
            verif_trace::drain();
            let mk = || BaseError {
                error: (),
                offset: e.offset,
                source_path: String::new(),
            };
            let lin = guard(|| {
                let mut l = LinearLocator::new(src);
                let le: LocatedError<()> = l.locate_error(mk());
                check_python_location(&le);
                le.location
            });
            verif_trace::drain();
            let rnd = guard(|| {
                let mut l = RandomLocator::new(src);
                let le: LocatedError<()> = l.locate_error(mk());
                check_python_location(&le);
                le.location
            });
            let f = |x: Option<Option<SourceLocation>>| opt(x.flatten(), show_loc);
            return format!("parse=err off={} lin={} rnd={}", off, f(lin), f(rnd));
        }
        Some(Ok(t)) => t,
    };
    let plain = scan_ranges(&format!("{:?}", tree));
    verif_trace::drain();
    let t1 = tree.clone();
    let lin = guard(move || {
        let mut l = LinearLocator::new(src);
        l.fold(t1).unwrap()
    });
    let trace = verif_trace::drain();
    let rnd = guard(move || {
        let mut l = RandomLocator::new(src);
        l.fold(tree).unwrap()
    });
    let lin_r = lin.as_ref().map(|t| scan_ranges(&format!("{:?}", t)));
    let rnd_r = rnd.as_ref().map(|t| scan_ranges(&format!("{:?}", t)));
    let mut walk_ok = true;
    let mut nodes = Vec::new();
    let mut k = 0usize;
    for (idx, (kind, v)) in plain.iter().enumerate() {
        let get = |r: &Option<Vec<(String, String)>>| -> Option<String> {
            let r = r.as_ref()?;
            let (k2, v2) = r.get(idx)?;
            if k2 != kind {
                return Some("walk-mismatch".into());
            }
            if v2 == "()" {
                return Some("()".into());
            }
            Some(parse_source_range(v2).unwrap_or_else(|| "unparsable".into()))
        };
        if v == "()" {
            continue; // node kind without a range in this feature set
        }
        let (s, e) = match parse_text_range(v) {
            Some(x) => x,
            None => {
                walk_ok = false;
                continue;
            }
        };
        let l = get(&lin_r);
        let r = get(&rnd_r);
        for x in [&l, &r] {
            if let Some(x) = x {
                if x == "walk-mismatch" || x == "unparsable" || x == "()" {
                    walk_ok = false;
                }
            }
        }
        nodes.push(format!(
            "{}:{}-{}:{}:{}",
            kind,
            s,
            e,
            l.unwrap_or_else(|| "none".into()),
            r.unwrap_or_else(|| "none".into())
        ));
        k += 1;
    }
    for r in [&lin_r, &rnd_r] {
        if let Some(r) = r {
            if r.len() != plain.len() {
                walk_ok = false;
            }
        }
    }
    let tr: Vec<String> = trace.iter().map(show_event).collect();
    format!(
        "parse=ok walk={} lin={} rnd={} n={} nodes={} trace={}",
        if walk_ok { "ok" } else { "BROKEN" },
        if lin.is_some() { "ok" } else { "panic" },
        if rnd.is_some() { "ok" } else { "panic" },
        k,
        if nodes.is_empty() { "-".to_string() } else { nodes.join(";") },
        if tr.is_empty() { "-".to_string() } else { tr.join(";") }
    )
}

fn trace(mode: Mode, src: &str, ops: &[&str]) -> String {
    let tree = match guard(|| parse(src, mode, "<pv>")) {
        Some(Ok(t)) => t,
        _ => return "parse-failed".to_string(),
    };
    verif_trace::drain();
    let _ = guard(move || {
        let mut l = LinearLocator::new(src);
        l.fold(tree).unwrap()
    });
    let events = verif_trace::drain();
    let got: Vec<String> = events.iter().map(show_event).collect();
    for (i, g) in got.iter().enumerate() {
        if ops.get(i) != Some(&g.as_str()) {
            return format!("diff@{}:{}", i, g);
        }
    }
    if got.len() != ops.len() {
        return format!("len {} expected {}", got.len(), ops.len());
    }
    // is the recorded history a forward one (the hypothesis of the Lean theorem `linear_eq_spec`)?
    // offsets on character boundaries, not between CR and LF, `locate` never behind the cursor
    // (which starts after a leading BOM), `locate_only` never behind it either
    let b = src.as_bytes();
    let mut cursor: usize = if src.starts_with('\u{feff}') { 3 } else { 0 };
    let mut fwd = true;
    for e in &events {
        let o = e.offset as usize;
        let in_domain = src.is_char_boundary(o) && !(o > 0 && o < b.len() && b[o - 1] == b'\r' && b[o] == b'\n');
        if !in_domain || o < cursor {
            fwd = false;
            break;
        }
        if !e.only {
            cursor = o;
        }
    }
    format!("ok {} fwd={}", got.len(), fwd)
}

/// forward history: offsets on character boundaries, not between CR and LF, never behind the cursor
/// (which starts after a leading BOM); `locate_only` does not move it
fn is_forward(src: &str, events: &[verif_trace::Event]) -> bool {
    let b = src.as_bytes();
    let mut cursor: usize = if src.starts_with('\u{feff}') { 3 } else { 0 };
    for e in events {
        let o = e.offset as usize;
        let in_domain = src.is_char_boundary(o) && !(o > 0 && o < b.len() && b[o - 1] == b'\r' && b[o] == b'\n');
        if !in_domain || o < cursor {
            return false;
        }
        if !e.only {
            cursor = o;
        }
    }
    true
}

fn fold_op(mode: Mode, src: &str) -> String {
    let tree = match guard(|| parse(src, mode, "<pv>")) {
        Some(Ok(t)) => t,
        _ => return "parse-failed".to_string(),
    };
    let plain: Vec<(String, String)> = scan_ranges(&format!("{:?}", tree))
        .into_iter()
        .filter(|(_, v)| v != "()")
        .collect();
    verif_trace::drain();
    let t1 = tree.clone();
    let lin = guard(move || {
        let mut l = LinearLocator::new(src);
        l.fold(t1).unwrap()
    });
    let events = verif_trace::drain();
    let rnd = guard(move || {
        let mut l = RandomLocator::new(src);
        l.fold(tree).unwrap()
    });
    let located = |t: &rustpython_ast::located::Mod| -> Vec<String> {
        scan_ranges(&format!("{:?}", t))
            .into_iter()
            .filter(|(_, v)| v != "()")
            .map(|(_, v)| parse_source_range(&v).unwrap_or_else(|| "unparsable".into()))
            .collect()
    };
    let lin_r = lin.as_ref().map(located);
    let rnd_r = rnd.as_ref().map(located);
    let fwd = is_forward(src, &events);
    let same = match (&lin_r, &rnd_r) {
        (Some(a), Some(b)) => a == b && a.len() == plain.len(),
        _ => false,
    };
    let ops: Vec<String> = events
        .iter()
        .map(|e| format!("{}{}", if e.only { "o" } else { "l" }, e.offset))
        .collect();
    let dash = |v: Vec<String>| if v.is_empty() { "-".to_string() } else { v.join(";") };
    let nodes = match &lin_r {
        Some(l) => dash(
            plain
                .iter()
                .zip(l.iter())
                .map(|((k, p), x)| {
                    let (a, b) = parse_text_range(p).unwrap_or((u32::MAX, u32::MAX));
                    format!("{}:{}-{}:{}", k, a, b, x)
                })
                .collect(),
        ),
        None => "-".to_string(),
    };
    let rnds = match rnd_r {
        Some(r) => dash(r),
        None => "panic".to_string(),
    };
    format!(
        "ops={} fwd={} ordered={} lin={} nodes={} rnd={}",
        dash(ops),
        fwd,
        fwd && same,
        if lin.is_some() { "ok" } else { "panic" },
        nodes,
        rnds
    )
}

fn locseq(text: &str, ops: &[&str]) -> String {
    let mut lin = LinearLocator::new(text);
    let mut rnd = RandomLocator::new(text);
    let mut a = Vec::new();
    let mut b = Vec::new();
    for op in ops {
        let (k, off) = op.split_at(1);
        let off: u32 = match off.parse() {
            Ok(o) => o,
            Err(_) => return "bad-request".into(),
        };
        let o = TextSize::from(off);
        let mk = || BaseError {
            error: (),
            offset: o,
            source_path: String::new(),
        };
        let r = match k {
            "l" => guard(|| lin.locate(o)),
            "o" => guard(|| lin.locate_only(o)),
            "e" => guard(|| {
                let le: LocatedError<()> = lin.locate_error(mk());
                check_python_location(&le);
                le.location.unwrap()
            }),
            _ => return "bad-request".into(),
        };
        a.push(opt(r, show_loc));
        let r2 = match k {
            "e" => guard(|| {
                let le: LocatedError<()> = rnd.locate_error(mk());
                check_python_location(&le);
                le.location.unwrap()
            }),
            _ => guard(|| rnd.locate(o)),
        };
        b.push(opt(r2, show_loc));
    }
    verif_trace::drain();
    format!("lin={} rnd={}", a.join(";"), b.join(";"))
}

/// `d` when this binary was built with debug assertions (and overflow checks), else `r`
fn flavour() -> &'static str {
    if cfg!(debug_assertions) {
        "d"
    } else {
        "r"
    }
}

/// RandomLocator on every offset given (used to validate the Lean reference definition)
fn spec(text: &str, offs: &[&str]) -> String {
    let mut rnd = RandomLocator::new(text);
    let mut b = Vec::new();
    for o in offs {
        let off: u32 = match o.parse() {
            Ok(o) => o,
            Err(_) => return "bad-request".into(),
        };
        b.push(opt(guard(|| rnd.locate(TextSize::from(off))), show_loc));
    }
    b.join(";")
}

fn handle(ws: &[&str]) -> String {
    let bad = || "bad-request".to_string();
    match ws {
        ["locate", m, t] => match (mode_of(m), unhex_str(t)) {
            (Some(m), Some(t)) => locate(m, &t),
            _ => bad(),
        },
        ["trace", f, m, t, ops @ ..] => match (mode_of(m), unhex_str(t)) {
            _ if *f != flavour() => "wrong-build".to_string(),
            (Some(m), Some(t)) => trace(m, &t, ops),
            _ => bad(),
        },
        ["tree", m, t] => match (mode_of(m), unhex_str(t)) {
            (Some(m), Some(t)) => match guard(|| parse(&t, m, "<pv>")) {
                Some(Ok(tree)) => format!("{:?}", tree),
                _ => "noparse".to_string(),
            },
            _ => bad(),
        },
        ["fold", f, m, t, ..] => match (mode_of(m), unhex_str(t)) {
            _ if *f != flavour() => "wrong-build".to_string(),
            (Some(m), Some(t)) => fold_op(m, &t),
            _ => bad(),
        },
        ["pfold", f, m, t, ..] => match (mode_of(m), unhex_str(t)) {
            _ if *f != flavour() => "wrong-build".to_string(),
            (Some(m), Some(t)) => format!("{} chk=ok", fold_op(m, &t)),
            _ => bad(),
        },
        ["locseq", f, t, ops @ ..] => match unhex_str(t) {
            _ if *f != flavour() => "wrong-build".to_string(),
            Some(t) => locseq(&t, ops),
            None => bad(),
        },
        ["spec", t, offs @ ..] => match unhex_str(t) {
            Some(t) => spec(&t, offs),
            None => bad(),
        },
        ["flavour"] => flavour().to_string(),
        _ => bad(),
    }
}

/// `LocatedError::python_location` is the attached location as plain numbers, `(0, 0)` without one (a panic here is
/// caught by `guard` and answered as a failed call, so a deviation is reported against the reference position).
fn check_python_location(le: &LocatedError<()>) {
    let want = le
        .location
        .map_or((0, 0), |l| (l.row.to_usize(), l.column.to_usize()));
    assert_eq!(le.python_location(), want, "python_location");
    let none: LocatedError<()> = LocatedError {
        error: (),
        location: None,
        source_path: String::new(),
    };
    assert_eq!(none.python_location(), (0, 0), "python_location without a location");
}

fn main() {
    proto_loop(handle);
}
