//! C10 harness: the same requests are answered by this binary built in the four feature sets
//! (default, full-lexer, all-ranges, num-bigint); tools/props/c10.py compares the answers.
//!
//!   parse <mode m|i|e, tm|ti|te = parse_tokens(lex), S s x n c M I E a p N = typed `Parse` impls> <hex src> <csv of node kinds whose range is OptionalRange>
//!         -> `(ok <{:?} of the tree>)` with the `range` of exactly those kinds replaced by `_`
//!            (their `range` prints `()` without all-nodes-with-ranges and `a..b` with it), every other
//!            range kept; integers print as decimal digits in both bigint backends' Debug;
//!            or `(err <kind> <offset>)`; or `(panic)`
//!   int <hex text>     value (decimal, via Display) if the text lexes to exactly one Int token, else `none`
//!   optr <all-ranges 0/1, checked> <a> <b>   `{:?}` of OptionalRange::<TextRange>::new(a, b), `none` on panic
//!   cfg                the feature configuration of this binary
use pvh::*;
use rustpython_parser::ast::OptionalRange;
use rustpython_parser::text_size::{TextRange, TextSize};
use rustpython_parser::{ast, lexer, Mode, Parse, ParseErrorType, Tok};

fn strip_other_error(s: &str) -> String {
    // drop the free-text message of LexicalErrorType::OtherError("…"): messages are never compared
    // (for integer literals it is the Debug text of the bigint crate's own error type)
    let pat = "OtherError(\"";
    let mut out = String::new();
    let mut rest = s;
    while let Some(i) = rest.find(pat) {
        out.push_str(&rest[..i]);
        out.push_str("OtherError(");
        let mut j = i + pat.len();
        let b = rest.as_bytes();
        while j < b.len() {
            if b[j] == b'\\' {
                j += 2;
            } else if b[j] == b'"' {
                j += 1;
                break;
            } else {
                j += 1;
            }
        }
        rest = &rest[j.min(rest.len())..];
    }
    out.push_str(rest);
    out
}

fn kind_text(e: &ParseErrorType) -> String {
    strip_other_error(&format!("{:?}", e)).replace(' ', "")
}

fn is_ident(c: u8) -> bool {
    c.is_ascii_alphanumeric() || c == b'_'
}

/// replace the value of `range:` by `_` in `<Kind> { range: <value>, …` for the listed kinds; string and
/// char literals are skipped
fn erase_optional(dbg: &str, kinds: &[&str]) -> String {
    let b = dbg.as_bytes();
    let mut out: Vec<u8> = Vec::with_capacity(b.len());
    let mut i = 0;
    while i < b.len() {
        let c = b[i];
        if c == b'"' || c == b'\'' {
            // literal: copy to the closing quote
            let q = c;
            out.push(c);
            i += 1;
            while i < b.len() {
                if b[i] == b'\\' && i + 1 < b.len() {
                    out.push(b[i]);
                    out.push(b[i + 1]);
                    i += 2;
                } else if b[i] == q {
                    out.push(b[i]);
                    i += 1;
                    break;
                } else {
                    out.push(b[i]);
                    i += 1;
                }
            }
            continue;
        }
        if is_ident(c) && (i == 0 || !is_ident(b[i - 1])) {
            let mut j = i;
            while j < b.len() && is_ident(b[j]) {
                j += 1;
            }
            let word = &dbg[i..j];
            let tail = " { range: ";
            if kinds.contains(&word) && dbg[j..].starts_with(tail) {
                out.extend_from_slice(word.as_bytes());
                out.extend_from_slice(tail.as_bytes());
                let mut k = j + tail.len();
                while k < b.len() && b[k] != b',' && b[k] != b' ' {
                    k += 1;
                }
                out.push(b'_');
                i = k;
                continue;
            }
            out.extend_from_slice(word.as_bytes());
            i = j;
            continue;
        }
        out.push(c);
        i += 1;
    }
    String::from_utf8(out).unwrap_or_else(|_| "(unprintable)".to_string())
}

fn handle(ws: &[&str]) -> String {
    match ws {
        ["parse", mode, src, rest @ ..] => {
            let src = match unhex_str(src) {
                Some(s) => s,
                None => return "bad-request".into(),
            };
            let kinds: Vec<&str> = rest.first().map(|s| s.split(',').collect()).unwrap_or_default();
            // the typed entry points (`Parse` impls of parser.rs) and `parse_tokens` over the lexer's stream: every
            // public way into the parser must be configuration-independent, not only `parse`
            fn typed<T: Parse + std::fmt::Debug>(src: &str, kinds: &[&str]) -> String {
                match guard(|| T::parse(src, "<pvh>")) {
                    None => "(panic)".into(),
                    Some(Ok(t)) => format!("(ok {})", erase_optional(&format!("{:?}", t), kinds)),
                    Some(Err(e)) => format!("(err {} {})", kind_text(&e.error), u32::from(e.offset)),
                }
            }
            match *mode {
                "S" => return typed::<ast::Suite>(&src, &kinds),
                "s" => return typed::<ast::Stmt>(&src, &kinds),
                "x" => return typed::<ast::Expr>(&src, &kinds),
                "n" => return typed::<ast::Identifier>(&src, &kinds),
                "c" => return typed::<ast::Constant>(&src, &kinds),
                "M" => return typed::<ast::ModModule>(&src, &kinds),
                "I" => return typed::<ast::ModInteractive>(&src, &kinds),
                "E" => return typed::<ast::ModExpression>(&src, &kinds),
                "a" => return typed::<ast::StmtAssign>(&src, &kinds),
                "p" => return typed::<ast::StmtPass>(&src, &kinds),
                "N" => return typed::<ast::ExprName>(&src, &kinds),
                _ => {}
            }
            let (mode, tokens) = match *mode {
                "m" => (Mode::Module, false),
                "i" => (Mode::Interactive, false),
                "e" => (Mode::Expression, false),
                "tm" => (Mode::Module, true),
                "ti" => (Mode::Interactive, true),
                "te" => (Mode::Expression, true),
                _ => return "bad-request".into(),
            };
            let r = if tokens {
                guard(|| rustpython_parser::parse_tokens(lexer::lex(&src, mode), mode, "<pvh>"))
            } else {
                guard(|| rustpython_parser::parse(&src, mode, "<pvh>"))
            };
            match r {
                None => "(panic)".into(),
                Some(Ok(t)) => format!("(ok {})", erase_optional(&format!("{:?}", t), &kinds)),
                Some(Err(e)) => format!("(err {} {})", kind_text(&e.error), u32::from(e.offset)),
            }
        }
        ["int", text] => {
            let text = match unhex_str(text) {
                Some(s) => s,
                None => return "bad-request".into(),
            };
            let r = guard(|| {
                let toks: Vec<_> = lexer::lex(&text, Mode::Module).collect();
                match toks.as_slice() {
                    [Ok((Tok::Int { value }, r)), Ok((Tok::Newline, _))]
                        if r.start() == TextSize::from(0) && usize::from(r.end()) == text.len() =>
                    {
                        Some(value.to_string())
                    }
                    _ => None,
                }
            });
            match r {
                Some(Some(v)) => v,
                Some(None) => "none".into(),
                None => "(panic)".into(),
            }
        }
        ["optr", all, a, b] => {
            if (*all == "1") != cfg!(feature = "all-nodes-with-ranges") {
                return "bad-config".into();
            }
            let (a, b) = match (a.parse::<u32>(), b.parse::<u32>()) {
                (Ok(a), Ok(b)) => (a, b),
                _ => return "bad-request".into(),
            };
            opt(guard(|| OptionalRange::<TextRange>::new(a.into(), b.into())), |r| format!("{:?}", r))
        }
        ["cfg"] => format!(
            "full-lexer={} all-ranges={} bigint={}",
            cfg!(feature = "full-lexer") as u8,
            cfg!(feature = "all-nodes-with-ranges") as u8,
            if cfg!(feature = "num") { "num" } else { "malachite" }
        ),
        _ => "bad-request".into(),
    }
}

fn main() {
    // deep trees of generated programs: run the protocol on a large stack
    std::thread::Builder::new()
        .stack_size(512 << 20)
        .spawn(|| proto_loop(handle))
        .unwrap()
        .join()
        .unwrap();
}
