//! C08 harness: "layout never changes the tree".
//!
//! ops (all text arguments hex-encoded UTF-8, `-` = empty):
//!   tree    <mode> <src>                 acceptance + range-erased canonical tree (hex of the dump)
//!   layout  <mode> <orig> <v1> .. <vn>   parse original and every variant with the REAL parser;
//!                                        per text: acceptance + 128-bit hash of the range-erased tree;
//!                                        on a difference a short context of both dumps is added
//!   lexpair <mode> <a> <b> [cls cls cls] range-erased token streams of both texts (real lexer incl.
//!                                        soft-keyword pass); same format as drv_c08 (Lean model)
//!
//! mode: m = Module, e = Expression, i = Interactive.
//! "range-erased": every `range: a..b` field of the derive(Debug) rendering is dropped by a scanner that
//! understands the string/char literals of the rendering; the AnnAssign `simple` flag is masked (the
//! property's one documented parenthesis-sensitive flag).
use pvh::*;
use rustpython_parser::lexer::lex;
use rustpython_parser::{parse, Mode, Tok};

fn mode_of(s: &str) -> Option<Mode> {
    match s {
        "m" => Some(Mode::Module),
        "e" => Some(Mode::Expression),
        "i" => Some(Mode::Interactive),
        _ => None,
    }
}

/// Erase `range: <digits>..<digits>` (and a following `, `) and mask `simple: true|false`
/// outside of string / char literals of a derive(Debug) rendering.
fn erase(dump: &str) -> String {
    let b = dump.as_bytes();
    let n = b.len();
    let mut out: Vec<u8> = Vec::with_capacity(n);
    let mut i = 0;
    let is_ident = |c: u8| c.is_ascii_alphanumeric() || c == b'_';
    while i < n {
        let c = b[i];
        if c == b'"' {
            // string literal: copy up to the closing quote, honouring backslash escapes
            out.push(c);
            i += 1;
            while i < n {
                let d = b[i];
                out.push(d);
                i += 1;
                if d == b'\\' {
                    if i < n {
                        out.push(b[i]);
                        i += 1;
                    }
                } else if d == b'"' {
                    break;
                }
            }
            continue;
        }
        if c == b'\'' {
            // char literal ('x', '\n', '\u{..}', '\''): copy through the closing quote
            out.push(c);
            i += 1;
            if i < n && b[i] == b'\\' {
                out.push(b[i]);
                i += 1;
                if i < n {
                    out.push(b[i]);
                    i += 1;
                }
            }
            while i < n {
                let d = b[i];
                out.push(d);
                i += 1;
                if d == b'\'' {
                    break;
                }
            }
            continue;
        }
        let at_word = i == 0 || !is_ident(b[i - 1]);
        if at_word && b[i..].starts_with(b"range: ") {
            // range: <digits>..<digits>
            let mut j = i + 7;
            let d0 = j;
            while j < n && b[j].is_ascii_digit() {
                j += 1;
            }
            if j > d0 && b[j..].starts_with(b"..") {
                let mut k = j + 2;
                let d1 = k;
                while k < n && b[k].is_ascii_digit() {
                    k += 1;
                }
                if k > d1 {
                    out.extend_from_slice(b"range: _");
                    i = k;
                    continue;
                }
            }
        }
        if at_word && b[i..].starts_with(b"simple: true") {
            out.extend_from_slice(b"simple: _");
            i += 12;
            continue;
        }
        if at_word && b[i..].starts_with(b"simple: false") {
            out.extend_from_slice(b"simple: _");
            i += 13;
            continue;
        }
        out.push(c);
        i += 1;
    }
    String::from_utf8(out).unwrap_or_default()
}

/// None = rejected (or panicked: reported separately), Some(dump) = accepted.
enum Parsed {
    Ok(String),
    Err,
    Panic,
}

fn parse_erased(src: &str, mode: Mode) -> Parsed {
    match guard(|| parse(src, mode, "<c08>").map(|m| erase(&format!("{:?}", m)))) {
        Some(Ok(d)) => Parsed::Ok(d),
        Some(Err(_)) => Parsed::Err,
        None => Parsed::Panic,
    }
}

fn fnv128(s: &str) -> String {
    // two independent 64-bit FNV-1a style hashes (different offset bases / primes) + length
    let mut h1: u64 = 0xcbf29ce484222325;
    let mut h2: u64 = 0x84222325cbf29ce4;
    for &c in s.as_bytes() {
        h1 ^= c as u64;
        h1 = h1.wrapping_mul(0x100000001b3);
        h2 = h2.wrapping_add(c as u64 + 0x9e3779b97f4a7c15);
        h2 = (h2 ^ (h2 >> 29)).wrapping_mul(0xbf58476d1ce4e5b9);
    }
    format!("{:016x}{:016x}.{}", h1, h2, s.len())
}

fn show(p: &Parsed) -> String {
    match p {
        Parsed::Ok(d) => format!("ok:{}", fnv128(d)),
        Parsed::Err => "err".to_string(),
        Parsed::Panic => "panic".to_string(),
    }
}

/// context around the first differing byte of two dumps (hex, for diagnosis only)
fn diff_ctx(a: &str, b: &str) -> String {
    let x = a.as_bytes();
    let y = b.as_bytes();
    let mut k = 0;
    while k < x.len() && k < y.len() && x[k] == y[k] {
        k += 1;
    }
    let lo = k.saturating_sub(60);
    let cut = |z: &[u8]| {
        let hi = (k + 60).min(z.len());
        let lo = lo.min(hi);
        hex(&z[lo..hi])
    };
    format!("@{}:{}:{}", k, cut(x), cut(y))
}

fn layout(mode: Mode, texts: &[String]) -> String {
    let orig = parse_erased(&texts[0], mode);
    let mut parts = vec![format!("o={}", show(&orig))];
    for v in &texts[1..] {
        let p = parse_erased(v, mode);
        let mut s = format!("v={}", show(&p));
        if let (Parsed::Ok(a), Parsed::Ok(b)) = (&orig, &p) {
            if a != b {
                s.push_str(&diff_ctx(a, b));
            }
        }
        parts.push(s);
    }
    parts.join(" ")
}

// ---------------------------------------------------------------- token streams (lexpair)

fn show_tok(t: &Tok) -> String {
    // kind plus payload; payload text hex-encoded so that the line stays one line and the Lean
    // driver can print the identical thing
    match t {
        Tok::Name { name } => format!("Name:{}", hex(name.as_bytes())),
        Tok::Int { value } => format!("Int:{}", value),
        Tok::Float { value } => format!("Float:{:016x}", value.to_bits()),
        Tok::Complex { real, imag } => format!("Complex:{:016x}:{:016x}", real.to_bits(), imag.to_bits()),
        Tok::String {
            value,
            kind,
            triple_quoted,
        } => format!(
            "String:{:?}:{}:{}",
            kind,
            if *triple_quoted { 1 } else { 0 },
            hex(value.as_bytes())
        ),
        other => {
            // payload-free tokens: the Debug name (Newline, Indent, Lpar, If, ...)
            let s = format!("{:?}", other);
            match s.find(|c: char| !(c.is_ascii_alphanumeric())) {
                Some(k) => s[..k].to_string(),
                None => s,
            }
        }
    }
}

fn lex_erased(src: &str, mode: Mode) -> String {
    let r = guard(|| {
        let mut items: Vec<String> = Vec::new();
        for r in lex(src, mode) {
            match r {
                Ok((t, _)) => items.push(show_tok(&t)),
                Err(_) => {
                    items.push("ERR".to_string());
                    break;
                }
            }
        }
        items.join(",")
    });
    match r {
        Some(s) => {
            if s.is_empty() {
                "-".to_string()
            } else {
                s
            }
        }
        None => "(panic)".to_string(),
    }
}

fn handle(ws: &[&str]) -> String {
    let bad = || "bad-request".to_string();
    match ws {
        ["tree", m, s] => match (mode_of(m), unhex_str(s)) {
            (Some(m), Some(s)) => match parse_erased(&s, m) {
                Parsed::Ok(d) => format!("ok {}", hex(d.as_bytes())),
                Parsed::Err => "err".to_string(),
                Parsed::Panic => "panic".to_string(),
            },
            _ => bad(),
        },
        ["layout", m, rest @ ..] if !rest.is_empty() => {
            let m = match mode_of(m) {
                Some(m) => m,
                None => return bad(),
            };
            let mut texts = Vec::new();
            for t in rest {
                match unhex_str(t) {
                    Some(t) => texts.push(t),
                    None => return bad(),
                }
            }
            layout(m, &texts)
        }
        // the optional trailing arguments (Unicode classes for the model's parameters) are ignored here
        ["lexpair", m, a, b, ..] => match (mode_of(m), unhex_str(a), unhex_str(b)) {
            (Some(m), Some(a), Some(b)) => {
                let x = lex_erased(&a, m);
                let y = lex_erased(&b, m);
                format!("eq={} a={} b={}", if x == y { 1 } else { 0 }, x, y)
            }
            _ => bad(),
        },
        _ => bad(),
    }
}

fn main() {
    // Debug-printing and dropping deep trees recurse: give the worker a large stack.
    let t = std::thread::Builder::new()
        .stack_size(1 << 30)
        .spawn(|| proto_loop(handle))
        .expect("spawn");
    let _ = t.join();
}
