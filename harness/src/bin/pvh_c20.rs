//! C20 harness: str.format template splitter and field-name splitter of rustpython-format.
//!
//!   tmpl <hex>   FormatString::from_str  ->  `ok` followed by one item per part
//!                   ` L:<hex text>`                         literal piece (doubled braces unescaped)
//!                   ` F:<hex name>:<hex conv | none>:<hex spec>`   replacement field
//!                or `err` (error variants are deliberately not shown: the property only
//!                speaks about acceptance / rejection)
//!   fname <hex>  FieldName::parse        ->  `ok <head> <accessor>...` with
//!                   head      `auto` | `idx:<n>` | `kw:<hex>`
//!                   accessor  `A:<hex>` (.attr) | `I:<n>` ([index]) | `S:<hex>` ([string index])
//!                or `err`
use pvh::*;
use rustpython_format::{
    FieldName, FieldNamePart, FieldType, FormatPart, FormatString, FromTemplate,
};

fn ch_hex(c: char) -> String {
    let mut b = [0u8; 4];
    hex(c.encode_utf8(&mut b).as_bytes())
}

fn tmpl(text: &str) -> String {
    match guard(|| FormatString::from_str(text)) {
        None => "(panic)".to_string(),
        Some(Err(_)) => "err".to_string(),
        Some(Ok(fs)) => {
            let mut out = String::from("ok");
            for p in &fs.format_parts {
                match p {
                    FormatPart::Literal(s) => {
                        out.push_str(" L:");
                        out.push_str(&hex(s.as_bytes()));
                    }
                    FormatPart::Field {
                        field_name,
                        conversion_spec,
                        format_spec,
                    } => {
                        out.push_str(&format!(
                            " F:{}:{}:{}",
                            hex(field_name.as_bytes()),
                            opt(*conversion_spec, ch_hex),
                            hex(format_spec.as_bytes())
                        ));
                    }
                }
            }
            out
        }
    }
}

fn fname(text: &str) -> String {
    match guard(|| FieldName::parse(text)) {
        None => "(panic)".to_string(),
        Some(Err(_)) => "err".to_string(),
        Some(Ok(f)) => {
            let mut out = String::from("ok ");
            match &f.field_type {
                FieldType::Auto => out.push_str("auto"),
                FieldType::Index(n) => out.push_str(&format!("idx:{}", n)),
                FieldType::Keyword(k) => out.push_str(&format!("kw:{}", hex(k.as_bytes()))),
            }
            for p in &f.parts {
                match p {
                    FieldNamePart::Attribute(a) => out.push_str(&format!(" A:{}", hex(a.as_bytes()))),
                    FieldNamePart::Index(n) => out.push_str(&format!(" I:{}", n)),
                    FieldNamePart::StringIndex(s) => {
                        out.push_str(&format!(" S:{}", hex(s.as_bytes())))
                    }
                }
            }
            out
        }
    }
}

fn handle(ws: &[&str]) -> String {
    let bad = || "bad-request".to_string();
    match ws {
        ["tmpl", t] => match unhex_str(t) {
            Some(t) => tmpl(&t),
            None => bad(),
        },
        ["fname", t] => match unhex_str(t) {
            Some(t) => fname(&t),
            None => bad(),
        },
        _ => bad(),
    }
}

fn main() {
    proto_loop(handle);
}
