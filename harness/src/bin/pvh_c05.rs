//! Lexer harness (C05; shared by C03 / C04 / C08 / C09 / C10 streams): drains
//! `rustpython_parser::lexer::lex_starts_at` and prints the `(Tok, TextRange)` stream up to and
//! including the first error in the canonical form that `lean/Drv/C05.lean` prints for the model.
//!
//!   lex  <mode m|i|e> <start> <hex src> <cls..>   answered by the DEFAULT build only
//!   lexf <mode m|i|e> <start> <hex src> <cls..>   answered by the `full-lexer` build only
//!   asciicls                                      how the lexer classifies the 128 ASCII characters
//!   clsdump <start|continue|emoji>                the same for every scalar value, as ranges
//!
//! The `<cls..>` arguments (Unicode classes for the model's parameters) are ignored here: the real
//! lexer asks the real `unic` crates.  The harness crate has no direct dependency on those crates,
//! so `asciicls` / `clsdump` observe the classification through the lexer itself:
//!   start(c)    :  `c` followed by `x` lexes to the single name `cx`
//!   continue(c) :  `x` followed by `c` lexes to the single name `xc`
//!   emoji(c)    :  not start(c), and `c` alone lexes to the single name `c`
//! which is exactly what the model's parameters are used for.
use pvh::*;
use rustpython_parser::lexer::{lex_starts_at, LexicalErrorType};
use rustpython_parser::text_size::TextSize;
use rustpython_parser::{Mode, StringKind, Tok};

#[cfg(feature = "full-lexer")]
const FULL: bool = true;
#[cfg(not(feature = "full-lexer"))]
const FULL: bool = false;

fn kind_name(k: &StringKind) -> &'static str {
    match k {
        StringKind::String => "String",
        StringKind::FString => "FString",
        StringKind::Bytes => "Bytes",
        StringKind::RawString => "RawString",
        StringKind::RawFString => "RawFString",
        StringKind::RawBytes => "RawBytes",
        StringKind::Unicode => "Unicode",
    }
}

fn show_tok(t: &Tok) -> String {
    let s: &str = match t {
        Tok::Name { name } => return format!("Name:{}", hex(name.as_bytes())),
        Tok::Int { value } => return format!("Int:{}", value),
        Tok::Float { value } => return format!("Float:{:016x}", value.to_bits()),
        Tok::Complex { real, imag } => {
            return format!("Complex:{:016x},{:016x}", real.to_bits(), imag.to_bits())
        }
        Tok::String {
            value,
            kind,
            triple_quoted,
        } => {
            return format!(
                "String:{}:{}:{}",
                kind_name(kind),
                if *triple_quoted { 1 } else { 0 },
                hex(value.as_bytes())
            )
        }
        #[cfg(feature = "full-lexer")]
        Tok::Comment(value) => return format!("Comment:{}", hex(value.as_bytes())),
        #[cfg(feature = "full-lexer")]
        Tok::NonLogicalNewline => "NonLogicalNewline",
        Tok::Newline => "Newline",
        Tok::Indent => "Indent",
        Tok::Dedent => "Dedent",
        Tok::EndOfFile => "EndOfFile",
        Tok::Lpar => "Lpar",
        Tok::Rpar => "Rpar",
        Tok::Lsqb => "Lsqb",
        Tok::Rsqb => "Rsqb",
        Tok::Colon => "Colon",
        Tok::Comma => "Comma",
        Tok::Semi => "Semi",
        Tok::Plus => "Plus",
        Tok::Minus => "Minus",
        Tok::Star => "Star",
        Tok::Slash => "Slash",
        Tok::Vbar => "Vbar",
        Tok::Amper => "Amper",
        Tok::Less => "Less",
        Tok::Greater => "Greater",
        Tok::Equal => "Equal",
        Tok::Dot => "Dot",
        Tok::Percent => "Percent",
        Tok::Lbrace => "Lbrace",
        Tok::Rbrace => "Rbrace",
        Tok::EqEqual => "EqEqual",
        Tok::NotEqual => "NotEqual",
        Tok::LessEqual => "LessEqual",
        Tok::GreaterEqual => "GreaterEqual",
        Tok::Tilde => "Tilde",
        Tok::CircumFlex => "CircumFlex",
        Tok::LeftShift => "LeftShift",
        Tok::RightShift => "RightShift",
        Tok::DoubleStar => "DoubleStar",
        Tok::DoubleStarEqual => "DoubleStarEqual",
        Tok::PlusEqual => "PlusEqual",
        Tok::MinusEqual => "MinusEqual",
        Tok::StarEqual => "StarEqual",
        Tok::SlashEqual => "SlashEqual",
        Tok::PercentEqual => "PercentEqual",
        Tok::AmperEqual => "AmperEqual",
        Tok::VbarEqual => "VbarEqual",
        Tok::CircumflexEqual => "CircumflexEqual",
        Tok::LeftShiftEqual => "LeftShiftEqual",
        Tok::RightShiftEqual => "RightShiftEqual",
        Tok::DoubleSlash => "DoubleSlash",
        Tok::DoubleSlashEqual => "DoubleSlashEqual",
        Tok::ColonEqual => "ColonEqual",
        Tok::At => "At",
        Tok::AtEqual => "AtEqual",
        Tok::Rarrow => "Rarrow",
        Tok::Ellipsis => "Ellipsis",
        Tok::False => "False",
        Tok::None => "None",
        Tok::True => "True",
        Tok::And => "And",
        Tok::As => "As",
        Tok::Assert => "Assert",
        Tok::Async => "Async",
        Tok::Await => "Await",
        Tok::Break => "Break",
        Tok::Class => "Class",
        Tok::Continue => "Continue",
        Tok::Def => "Def",
        Tok::Del => "Del",
        Tok::Elif => "Elif",
        Tok::Else => "Else",
        Tok::Except => "Except",
        Tok::Finally => "Finally",
        Tok::For => "For",
        Tok::From => "From",
        Tok::Global => "Global",
        Tok::If => "If",
        Tok::Import => "Import",
        Tok::In => "In",
        Tok::Is => "Is",
        Tok::Lambda => "Lambda",
        Tok::Nonlocal => "Nonlocal",
        Tok::Not => "Not",
        Tok::Or => "Or",
        Tok::Pass => "Pass",
        Tok::Raise => "Raise",
        Tok::Return => "Return",
        Tok::Try => "Try",
        Tok::While => "While",
        Tok::Match => "Match",
        Tok::Type => "Type",
        Tok::Case => "Case",
        Tok::With => "With",
        Tok::Yield => "Yield",
        Tok::StartModule => "StartModule",
        Tok::StartInteractive => "StartInteractive",
        Tok::StartExpression => "StartExpression",
    };
    s.to_string()
}

fn err_name(e: &LexicalErrorType) -> &'static str {
    match e {
        LexicalErrorType::StringError => "StringError",
        LexicalErrorType::UnicodeError => "UnicodeError",
        LexicalErrorType::NestingError => "NestingError",
        LexicalErrorType::IndentationError => "IndentationError",
        LexicalErrorType::TabError => "TabError",
        LexicalErrorType::TabsAfterSpaces => "TabsAfterSpaces",
        LexicalErrorType::DefaultArgumentError => "DefaultArgumentError",
        LexicalErrorType::DuplicateArgumentError(_) => "DuplicateArgumentError",
        LexicalErrorType::PositionalArgumentError => "PositionalArgumentError",
        LexicalErrorType::UnpackedArgumentError => "UnpackedArgumentError",
        LexicalErrorType::DuplicateKeywordArgumentError(_) => "DuplicateKeywordArgumentError",
        LexicalErrorType::UnrecognizedToken { .. } => "UnrecognizedToken",
        LexicalErrorType::FStringError(_) => "FStringError",
        LexicalErrorType::LineContinuationError => "LineContinuationError",
        LexicalErrorType::Eof => "Eof",
        LexicalErrorType::OtherError(_) => "OtherError",
    }
}

fn mode_of(m: &str) -> Option<Mode> {
    match m {
        "m" => Some(Mode::Module),
        "i" => Some(Mode::Interactive),
        "e" => Some(Mode::Expression),
        _ => None,
    }
}

/// the stream up to and including the first error
fn lex_stream(src: &str, mode: Mode, start: u32) -> String {
    let r = guard(|| {
        let mut out: Vec<String> = Vec::new();
        let cap = 4 * src.len() + 64;
        for item in lex_starts_at(src, mode, TextSize::from(start)) {
            match item {
                Ok((tok, range)) => out.push(format!(
                    "{}@{}..{}",
                    show_tok(&tok),
                    u32::from(range.start()),
                    u32::from(range.end())
                )),
                Err(e) => {
                    out.push(format!(
                        "(err {} {})",
                        err_name(&e.error),
                        u32::from(e.location)
                    ));
                    return out.join(" ");
                }
            }
            if out.len() > cap {
                out.push("(runaway)".to_string());
                return out.join(" ");
            }
        }
        out.push("(end)".to_string());
        out.join(" ")
    });
    r.unwrap_or_else(|| "(panic)".to_string())
}

/// all tokens of a text that lexes without error (module mode), else None
fn toks_of(src: &str) -> Option<Vec<Tok>> {
    guard(|| {
        let mut v = Vec::new();
        for item in lex_starts_at(src, Mode::Module, TextSize::from(0)) {
            match item {
                Ok((t, _)) => v.push(t),
                Err(_) => return None,
            }
        }
        Some(v)
    })
    .flatten()
}

/// the text lexes to exactly one `Name` with that very text (followed by the final `Newline`)
fn single_name(src: &str) -> bool {
    match toks_of(src) {
        Some(v) => {
            v.len() == 2
                && matches!(&v[0], Tok::Name { name } if name == src)
                && matches!(&v[1], Tok::Newline)
        }
        None => false,
    }
}

fn cls_start(c: char) -> bool {
    single_name(&format!("{}x", c))
}
fn cls_continue(c: char) -> bool {
    single_name(&format!("x{}", c))
}
fn cls_emoji(c: char) -> bool {
    !cls_start(c) && single_name(&c.to_string())
}

fn dump(p: fn(char) -> bool) -> String {
    let mut out: Vec<String> = Vec::new();
    let mut run: Option<(u32, u32)> = None;
    for cp in 0u32..=0x10FFFF {
        let yes = match char::from_u32(cp) {
            Some(c) => p(c),
            None => false,
        };
        match (yes, run) {
            (true, None) => run = Some((cp, cp)),
            (true, Some((a, _))) => run = Some((a, cp)),
            (false, Some((a, b))) => {
                out.push(format!("{}-{}", a, b));
                run = None;
            }
            (false, None) => {}
        }
    }
    if let Some((a, b)) = run {
        out.push(format!("{}-{}", a, b));
    }
    if out.is_empty() {
        "-".to_string()
    } else {
        out.join(",")
    }
}

fn bits(p: fn(char) -> bool) -> String {
    (0u8..128)
        .map(|b| if p(b as char) { '1' } else { '0' })
        .collect()
}

fn handle(ws: &[&str]) -> String {
    let bad = || "bad-request".to_string();
    match ws {
        [op @ ("lex" | "lexf"), mode, start, src, _xs, _xc, _em] => {
            if (*op == "lexf") != FULL {
                return "wrong-cfg".to_string();
            }
            match (mode_of(mode), start.parse::<u32>(), unhex_str(src)) {
                (Some(m), Ok(k), Some(s)) => lex_stream(&s, m, k),
                _ => bad(),
            }
        }
        ["asciicls"] => format!(
            "start={} continue={} emoji={}",
            bits(cls_start),
            bits(cls_continue),
            bits(cls_emoji)
        ),
        ["clsdump", which] => match *which {
            "start" => dump(cls_start),
            "continue" => dump(cls_continue),
            "emoji" => dump(cls_emoji),
            _ => bad(),
        },
        _ => bad(),
    }
}

fn main() {
    proto_loop(handle);
}
