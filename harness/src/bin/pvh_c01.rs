//! C01/C02 harness (also the shared "reference tooling" binary, see design/REFTOOLS.md).
//!
//!   parse <mode m|i|e> <start> <erase 0|1> <hex src>
//!        -> canonical S-expression of rustpython_parser::parse_starts_at(src, mode, "<pvh>", start)
//!           or `(err <kind> <offset>)`  (kind = ParseErrorType variant, `Lexical.<variant>` for lexer errors)
//!   parsehash <mode> <start> <erase> <hex src>
//!        -> `(hash <fnv1a64 of the canonical text, 16 hex> <length>)` or `(err ..)`  (for very large inputs)
//!   <setctx|args|elif|tryend|implvl|glist|sub> <path> <how t|T|r> <hex src> <ignored…>
//!        -> canonical subtree at `path` (e.g. `body.0.targets.0`) of the Module parse; t = ranges erased,
//!           T = with ranges, r = only `@a..b` of that node.  The words after the source are arguments
//!           for the Lean model (drv_c01) and are ignored here.
//!   rangesok <mode> <hex src> <hex tree>  -> `ok` iff the tree is what the parser produces (with ranges) for src
//!   expr <erase> <hex src>      -> canonical tree of ast::Expr::parse (the body of Expression mode)
//!   suite <erase> <hex src>     -> `[stmt …]` of ast::Suite::parse
//!   debug <mode> <hex src>      -> the raw `{:?}` text (diagnostics only)
//!   lexspans <mode e|m> <hex src>
//!        -> (C02) the byte spans `a-b,c-d,…` (`-` when there is none) of the tokens the real lexer hands to the
//!           grammar for `src`, without the mode start marker, the final `Newline`s and `EndOfFile`, or `(err <offset>)`
//!   rexpr <hex src> <spans>
//!        -> (C02) canonical tree WITH ranges, `ctx` fields removed, of the body of the Expression-mode parse;
//!           `stale-tokens` when `<spans>` is not what `lexspans e` answers now.  `<spans>` is the attachment for the
//!           Lean model (`drv_c02`), which computes the same tree from the source's tokens and these spans.
//!   rtoks <mode m|i|e> <hex src>
//!        -> (C02) `<tokens> <spans>`: the token stream the LALRPOP parser is fed (`lexer::lex(src, mode)`, i.e. lexer +
//!           soft-keyword pass, without the start marker; item syntax of `pvh_prog toks`: n<hex> Name, i<dec> Int,
//!           f<16 hex> Float, c<16 hex> Complex, s<kind><triple><hex> String, k<word> keyword, o<hex> operator,
//!           N Newline, I Indent, D Dedent) and the byte spans `a-b,…` of those tokens (`- -` when there is none),
//!           or `(err <offset>)`
//!   rprog <mode> <hex src> <tokens> <spans>
//!        -> (C02) canonical tree WITH ranges, `ctx` fields removed, of the whole parse in that mode; `stale-tokens` when
//!           `<spans>` is not what `rtoks` answers now.  `<tokens> <spans>` is the attachment for the Lean model
//!           (`drv_c02`: `PV.C02.parseRProgram` computes the same tree from these tokens and spans).
//!
//! Builds in feature sets `default` and `all-ranges` (with `all-ranges` every node kind carries `@a..b`).
use pvh::*;
use rustpython_parser::ast;
use rustpython_parser::text_size::TextSize;
use rustpython_parser::{parse_starts_at, Mode, Parse, ParseError};

#[path = "../astdump.rs"]
mod astdump;

fn mode_of(s: &str) -> Option<Mode> {
    match s {
        "m" => Some(Mode::Module),
        "i" => Some(Mode::Interactive),
        "e" => Some(Mode::Expression),
        _ => None,
    }
}

fn err_line(e: &ParseError) -> String {
    // kind = leading identifiers of the Debug text of the error type; payloads/messages are never shown
    let d = format!("{:?}", e.error);
    let head = |s: &str| -> String {
        s.chars()
            .take_while(|c| c.is_ascii_alphanumeric() || *c == '_')
            .collect()
    };
    let k = head(&d);
    let kind = if k == "Lexical" {
        let inner = &d["Lexical(".len()..];
        format!("Lexical.{}", head(inner))
    } else {
        k
    };
    format!("(err {} {})", kind, u32::from(e.offset))
}

/// byte spans of the tokens the grammar sees (C02 `lexspans`)
fn token_spans(src: &str, mode: Mode) -> Result<String, String> {
    use rustpython_parser::Tok;
    let mut v: Vec<(Tok, u32, u32)> = Vec::new();
    for item in rustpython_parser::lexer::lex(src, mode) {
        match item {
            Ok((t, r)) => v.push((t, u32::from(r.start()), u32::from(r.end()))),
            Err(e) => return Err(format!("(err {})", u32::from(e.location))),
        }
    }
    v.retain(|(t, _, _)| {
        !matches!(
            t,
            Tok::StartModule | Tok::StartInteractive | Tok::StartExpression | Tok::EndOfFile
        )
    });
    while matches!(v.last(), Some((Tok::Newline, _, _))) {
        v.pop();
    }
    if v.is_empty() {
        return Ok("-".into());
    }
    Ok(v.iter()
        .map(|(_, a, b)| format!("{}-{}", a, b))
        .collect::<Vec<_>>()
        .join(","))
}

fn hx(s: &str) -> String {
    hex(s.as_bytes())
}

/// one token in the compact form of `pvh_prog toks`
fn tok_text(t: &rustpython_parser::Tok) -> String {
    use rustpython_parser::{StringKind, Tok};
    match t {
        Tok::Name { name } => format!("n{}", hx(name)),
        Tok::Int { value } => format!("i{}", value),
        Tok::Float { value } => format!("f{:016x}", value.to_bits()),
        Tok::Complex { real, imag } => {
            if real.to_bits() == 0 {
                format!("c{:016x}", imag.to_bits())
            } else {
                format!("C{:016x}:{:016x}", real.to_bits(), imag.to_bits())
            }
        }
        Tok::String { value, kind, triple_quoted } => {
            let k = match kind {
                StringKind::String => 's',
                StringKind::FString => 'f',
                StringKind::Bytes => 'b',
                StringKind::RawString => 'r',
                StringKind::RawFString => 'R',
                StringKind::RawBytes => 'B',
                StringKind::Unicode => 'u',
            };
            format!("s{}{}{}", k, if *triple_quoted { 1 } else { 0 }, hx(value))
        }
        Tok::Newline => "N".to_string(),
        Tok::Indent => "I".to_string(),
        Tok::Dedent => "D".to_string(),
        Tok::EndOfFile => "Z".to_string(),
        Tok::StartModule | Tok::StartInteractive | Tok::StartExpression => "S".to_string(),
        other => {
            let s = format!("{}", other);
            let sp = s.trim_matches('\'');
            if sp.chars().next().map(|c| c.is_ascii_alphabetic()).unwrap_or(false) {
                format!("k{}", sp)
            } else {
                format!("o{}", hx(sp))
            }
        }
    }
}

/// tokens and byte spans of everything the grammar is fed (C02 `rtoks`): `(tokens, spans)`
fn tokens_and_spans(src: &str, mode: Mode) -> Result<(String, String), String> {
    let mut ts: Vec<String> = Vec::new();
    let mut sp: Vec<String> = Vec::new();
    for item in rustpython_parser::lexer::lex(src, mode) {
        match item {
            Ok((t, r)) => {
                ts.push(tok_text(&t));
                sp.push(format!("{}-{}", u32::from(r.start()), u32::from(r.end())));
            }
            Err(e) => return Err(format!("(err {})", u32::from(e.location))),
        }
    }
    if ts.is_empty() {
        return Ok(("-".into(), "-".into()));
    }
    Ok((ts.join(","), sp.join(",")))
}

fn strip_ctx(s: String) -> String {
    s.replace(" (ctx Load)", "")
        .replace(" (ctx Store)", "")
        .replace(" (ctx Del)", "")
}

fn fnv(s: &str) -> u64 {
    let mut h: u64 = 0xcbf29ce484222325;
    for b in s.as_bytes() {
        h ^= *b as u64;
        h = h.wrapping_mul(0x100000001b3);
    }
    h
}

fn handle(ws: &[&str]) -> String {
    let bad = || "bad-request".to_string();
    match ws {
        [op @ ("parse" | "parsehash"), m, start, erase, src, ..] if ws.len() <= 6 => {
            let (Some(mode), Ok(start), Some(src)) = (mode_of(m), start.parse::<u32>(), unhex_str(src)) else {
                return bad();
            };
            let erase = *erase == "1";
            match parse_starts_at(&src, mode, "<pvh>", TextSize::from(start)) {
                Ok(t) => {
                    let s = astdump::dump(&t, erase);
                    if *op == "parsehash" {
                        format!("(hash {:016x} {})", fnv(&s), s.len())
                    } else {
                        s
                    }
                }
                Err(e) => err_line(&e),
            }
        }
        // mechanism streams: `<op> <path> <how t|T|r> <hex src> <model args…>` -> canonical subtree at `path`
        // of the Module-mode parse (t = ranges erased, T = with ranges, r = only the node's `@a..b`)
        [("setctx" | "args" | "elif" | "tryend" | "implvl" | "glist" | "sub"), path, how, src, ..] => {
            let Some(src) = unhex_str(src) else { return bad() };
            match parse_starts_at(&src, Mode::Module, "<pvh>", TextSize::from(0)) {
                Ok(t) => {
                    let dbg = format!("{:?}", t);
                    let Ok(v) = astdump::parse_debug(&dbg) else { return "(dump-error)".into() };
                    match astdump::navigate(&v, path) {
                        Some(sub) => {
                            if *how == "r" {
                                astdump::range_of(sub).unwrap_or_else(|| "(no-range)".into())
                            } else {
                                let mut out = String::new();
                                astdump::canon(sub, *how == "t", &mut out);
                                out
                            }
                        }
                        None => "(no-such-path)".into(),
                    }
                }
                Err(e) => err_line(&e),
            }
        }
        // C02: is the tree in the request what the real parser produces (with ranges) for the source?
        ["rangesok", m, src, tree] => {
            let (Some(mode), Some(src), Some(tree)) = (mode_of(m), unhex_str(src), unhex_str(tree)) else { return bad() };
            match parse_starts_at(&src, mode, "<pvh>", TextSize::from(0)) {
                Ok(t) => {
                    if astdump::dump(&t, false) == tree {
                        "ok".into()
                    } else {
                        "stale".into()
                    }
                }
                Err(e) => err_line(&e),
            }
        }
        ["expr", erase, src] => {
            let Some(src) = unhex_str(src) else { return bad() };
            match ast::Expr::parse(&src, "<pvh>") {
                Ok(t) => astdump::dump(&t, *erase == "1"),
                Err(e) => err_line(&e),
            }
        }
        ["suite", erase, src] => {
            let Some(src) = unhex_str(src) else { return bad() };
            match ast::Suite::parse(&src, "<pvh>") {
                Ok(t) => astdump::dump(&t, *erase == "1"),
                Err(e) => err_line(&e),
            }
        }
        ["lexspans", m, src] => {
            let (Some(mode), Some(src)) = (mode_of(m), unhex_str(src)) else { return bad() };
            match token_spans(&src, mode) {
                Ok(s) => s,
                Err(e) => e,
            }
        }
        ["rexpr", src, att] => {
            let Some(src) = unhex_str(src) else { return bad() };
            match token_spans(&src, Mode::Expression) {
                Ok(s) if s == *att => {}
                _ => return "stale-tokens".into(),
            }
            match parse_starts_at(&src, Mode::Expression, "<pvh>", TextSize::from(0)) {
                Ok(ast::Mod::Expression(m)) => strip_ctx(astdump::dump(&m.body, false)),
                Ok(_) => "(unexpected-mode)".into(),
                Err(e) => err_line(&e),
            }
        }
        ["rtoks", m, src] => {
            let (Some(mode), Some(src)) = (mode_of(m), unhex_str(src)) else { return bad() };
            match guard(|| tokens_and_spans(&src, mode)) {
                Some(Ok((t, s))) => format!("{} {}", t, s),
                Some(Err(e)) => e,
                None => "(panic)".into(),
            }
        }
        ["rprog", m, src, _toks, att] => {
            let (Some(mode), Some(src)) = (mode_of(m), unhex_str(src)) else { return bad() };
            match tokens_and_spans(&src, mode) {
                Ok((_, s)) if s == *att => {}
                _ => return "stale-tokens".into(),
            }
            match guard(|| parse_starts_at(&src, mode, "<pvh>", TextSize::from(0))) {
                Some(Ok(t)) => strip_ctx(astdump::dump(&t, false)),
                Some(Err(e)) => err_line(&e),
                None => "(panic)".into(),
            }
        }
        ["debug", m, src] => {
            let (Some(mode), Some(src)) = (mode_of(m), unhex_str(src)) else { return bad() };
            match parse_starts_at(&src, mode, "<pvh>", TextSize::from(0)) {
                Ok(t) => format!("{:?}", t).replace('\n', " "),
                Err(e) => err_line(&e),
            }
        }
        _ => bad(),
    }
}

fn main() {
    // deep trees: run the protocol loop on a thread with a large stack so that nesting depth of real
    // programs never overflows inside Debug / the dumper
    let t = std::thread::Builder::new()
        .stack_size(1 << 30)
        .spawn(|| proto_loop(handle))
        .unwrap();
    t.join().unwrap();
}
