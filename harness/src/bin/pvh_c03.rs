//! C03 harness: totality monitors on the REAL lexer and parser, plus small correspondence ops for
//! the escape-decoding kernels of `parser/src/string.rs`.
//!
//! Every request is executed on a worker thread with a fixed stack (default 8 MiB = the usual
//! main-thread stack; `PVH_C03_STACK_MB` overrides it for depth probing) so that the nesting depth
//! the process survives does not depend on `ulimit -s`. A stack overflow or any other abort kills
//! the process; `core.run_lines` restarts it and reports `(abort)` for the culprit request.
//!
//! requests
//!   total <m|i|e> <start> <hex src>
//!   totalt <m|i|e> <start> <hex src>                                   same, also wall time
//!   rep   <m|i|e> <start> <n> <hex prefix> <hex unit> <hex suffix>     src = prefix + unit*n + suffix
//!   time  <m|i|e> <start> <n> <hex prefix> <hex unit> <hex suffix> [tag]   same source, also wall time
//!   oct   <s|b> <hex text>       value of the literal  "\<text>"  (text: ASCII digits)
//!   uni   <x|u|U> <s|b> <hex text>   literal "\x<text>" / "\u<text>" / "\U<text>"
//!   name  <hex text>             literal "\N<text>"    (text has no quote/backslash/newline)
//!   fnest <hex body>             literal f"<body>"     (body over `{ } : x`)
//!   fscan <hex src>              a source made of adjacent string literals (full f-string alphabet)
//!   errraw <m|i|e> <start> <hex src>     raw material for the `errconv` requests (see below)
//!   errconv <m|i|e> <start> <hex src> [v=.. t=.. x=..]   the public ParseError of parse_starts_at
//! answers
//!   total/rep: `len=<bytes> lex=<ok|err@OFF|panic|runaway> n=<tokens before the first error>
//!               parse=<ok|err@OFF|panic>`
//!   time     : the same followed by ` lex_us=<µs> parse_us=<µs> cpu_ms=<ms>` (wall time of the two
//!              stages and CPU time of both; never compared, never judged except by the generous
//!              ladder threshold, which looks at CPU time only)
//!   oct/uni/name/fnest: `ok <code points, comma separated>` | `err@OFF` | `panic`
//!              (for fnest/fscan: `ok` | `err@OFF` | `panic`)
//!   errraw   : `t=<l:Name:r;…|-> x=<Kind@loc|-> p=<kindtag>@<off>|ok` — the `Ok` items of the lexer's stream
//!              in front of its first `Err` (start, variant name, end), that `Err`, and the error of
//!              `parse_tokens(lex_starts_at(..))`, i.e. BEFORE the `not_before` clamp of `parse_starts_at`.
//!              tools/props/c03.py reconstructs the `lalrpop_util::ParseError` variant from these.
//!   errconv  : `<kindtag>@<off> indent=<0|1> reports=ok` for the error of `parse_starts_at` (after the clamp);
//!              kindtag = `Eof` | `ExtraToken:<Tok>` | `InvalidToken` | `UnrecognizedToken:<Tok>:<expected|->` |
//!              `Lexical:<Kind>`; `indent` = `ParseErrorType::is_indentation_error()`.  The `v= t= x=` arguments are
//!              for the Lean driver, which recomputes the same line from the reconstructed variant with
//!              `PV.C03.ErrConv` (and evaluates `reports` on the token stream, which the harness asserts).
use pvh::*;
use rustpython_parser::ast::{self, Constant, Expr};
use rustpython_parser::lexer::lex_starts_at;
use rustpython_parser::text_size::TextSize;
use rustpython_parser::{parse_starts_at, parse_tokens, Mode, Parse, ParseError, ParseErrorType};
use std::sync::atomic::{AtomicU64, Ordering};
use std::time::Instant;

fn mode_of(s: &str) -> Option<Mode> {
    match s {
        "m" => Some(Mode::Module),
        "i" => Some(Mode::Interactive),
        "e" => Some(Mode::Expression),
        _ => None,
    }
}

/// Lexer to exhaustion: tokens before the first error, first error offset, did the iterator end.
fn run_lex(src: &str, mode: Mode, start: u32) -> (String, u128) {
    let t = Instant::now();
    let cap = 4 * src.len() + 64;
    let r = guard(|| {
        let mut n = 0usize;
        for item in lex_starts_at(src, mode, TextSize::from(start)) {
            match item {
                Ok(_) => {
                    n += 1;
                    if n > cap {
                        return (n, "runaway".to_string());
                    }
                }
                Err(e) => return (n, format!("err@{}", u32::from(e.location))),
            }
        }
        (n, "ok".to_string())
    });
    let us = t.elapsed().as_micros();
    (
        match r {
            Some((n, s)) => format!("lex={} n={}", s, n),
            None => "lex=panic n=0".to_string(),
        },
        us,
    )
}

fn run_parse(src: &str, mode: Mode, start: u32) -> (String, u128) {
    let t = Instant::now();
    let r = guard(|| match parse_starts_at(src, mode, "<c03>", TextSize::from(start)) {
        Ok(tree) => {
            drop(tree);
            "ok".to_string()
        }
        Err(e) => format!("err@{}", u32::from(e.offset)),
    });
    let us = t.elapsed().as_micros();
    (format!("parse={}", r.unwrap_or_else(|| "panic".to_string())), us)
}

fn total(src: &str, mode: Mode, start: u32, timed: bool) -> String {
    let c0 = cpu_ms();
    let (l, lus) = run_lex(src, mode, start);
    let (p, pus) = run_parse(src, mode, start);
    if timed {
        let cpu = match (c0, cpu_ms()) {
            (Some(a), Some(b)) => (b - a).to_string(),
            _ => "na".to_string(),
        };
        format!("len={} {} {} lex_us={} parse_us={} cpu_ms={}", src.len(), l, p, lus, pus, cpu)
    } else {
        format!("len={} {} {}", src.len(), l, p)
    }
}

/// Parse `src` as one expression that must be a single constant; canonical answer.
fn literal(src: &str) -> String {
    let r = guard(|| match ast::Expr::parse(src, "<c03>") {
        Ok(Expr::Constant(c)) => match c.value {
            Constant::Str(s) => {
                let v: Vec<String> = s.chars().map(|c| (c as u32).to_string()).collect();
                format!("ok {}", if v.is_empty() { "-".to_string() } else { v.join(",") })
            }
            Constant::Bytes(b) => {
                let v: Vec<String> = b.iter().map(|c| c.to_string()).collect();
                format!("ok {}", if v.is_empty() { "-".to_string() } else { v.join(",") })
            }
            _ => "other".to_string(),
        },
        Ok(_) => "other".to_string(),
        Err(e) => format!("err@{}", u32::from(e.offset)),
    });
    r.unwrap_or_else(|| "panic".to_string())
}

fn fnest(body: &str) -> String {
    let src = format!("f\"{}\"", body);
    let r = guard(|| match ast::Expr::parse(&src, "<c03>") {
        Ok(_) => "ok".to_string(),
        Err(e) => format!("err@{}", u32::from(e.offset)),
    });
    r.unwrap_or_else(|| "panic".to_string())
}

fn fscan(src: &str) -> String {
    let r = guard(|| match ast::Expr::parse(src, "<c03>") {
        Ok(_) => "ok".to_string(),
        Err(e) => format!("err@{}", u32::from(e.offset)),
    });
    r.unwrap_or_else(|| "panic".to_string())
}

/// Rust variant name of a token / error kind: the `Debug` text up to the first non-alphanumeric character
fn variant_name<T: std::fmt::Debug>(t: &T) -> String {
    format!("{:?}", t).chars().take_while(|c| c.is_ascii_alphanumeric()).collect()
}

fn kindtag(e: &ParseError) -> String {
    let k = match &e.error {
        ParseErrorType::Eof => "Eof".to_string(),
        ParseErrorType::ExtraToken(t) => format!("ExtraToken:{}", variant_name(t)),
        ParseErrorType::InvalidToken => "InvalidToken".to_string(),
        ParseErrorType::UnrecognizedToken(t, exp) => format!(
            "UnrecognizedToken:{}:{}",
            variant_name(t),
            match exp {
                Some(x) => x.chars().filter(|c| c.is_ascii_alphanumeric()).collect::<String>(),
                None => "-".to_string(),
            }
        ),
        ParseErrorType::Lexical(l) => format!("Lexical:{}", variant_name(l)),
    };
    format!("{}@{}", k, u32::from(e.offset))
}

fn errraw(src: &str, mode: Mode, start: u32) -> String {
    let r = guard(|| {
        let mut toks: Vec<String> = Vec::new();
        let mut lexerr = "-".to_string();
        for item in lex_starts_at(src, mode, TextSize::from(start)) {
            match item {
                Ok((t, range)) => toks.push(format!(
                    "{}:{}:{}",
                    u32::from(range.start()),
                    variant_name(&t),
                    u32::from(range.end())
                )),
                Err(e) => {
                    lexerr = format!("{}@{}", variant_name(&e.error), u32::from(e.location));
                    break;
                }
            }
        }
        let p = match parse_tokens(lex_starts_at(src, mode, TextSize::from(start)), mode, "<c03>") {
            Ok(_) => "ok".to_string(),
            Err(e) => kindtag(&e),
        };
        format!(
            "t={} x={} p={}",
            if toks.is_empty() { "-".to_string() } else { toks.join(";") },
            lexerr,
            p
        )
    });
    r.unwrap_or_else(|| "panic".to_string())
}

fn errconv(src: &str, mode: Mode, start: u32) -> String {
    let r = guard(|| match parse_starts_at(src, mode, "<c03>", TextSize::from(start)) {
        Ok(_) => "ok".to_string(),
        Err(e) => format!(
            "{} indent={} reports=ok",
            kindtag(&e),
            if e.error.is_indentation_error() { 1 } else { 0 }
        ),
    });
    r.unwrap_or_else(|| "panic".to_string())
}

fn build(prefix: &str, unit: &str, n: usize, suffix: &str) -> String {
    let mut s = String::with_capacity(prefix.len() + unit.len() * n + suffix.len());
    s.push_str(prefix);
    for _ in 0..n {
        s.push_str(unit);
    }
    s.push_str(suffix);
    s
}

fn handle(ws: &[&str]) -> String {
    let bad = || "bad-request".to_string();
    match ws {
        [op @ ("total" | "totalt"), m, start, src] => match (mode_of(m), start.parse::<u32>(), unhex_str(src)) {
            (Some(m), Ok(k), Some(s)) => total(&s, m, k, *op == "totalt"),
            _ => bad(),
        },
        [op @ ("rep" | "time"), m, start, n, p, u, s, ..] => match (
            mode_of(m),
            start.parse::<u32>(),
            n.parse::<usize>(),
            unhex_str(p),
            unhex_str(u),
            unhex_str(s),
        ) {
            (Some(m), Ok(k), Ok(n), Some(p), Some(u), Some(s)) => {
                let src = build(&p, &u, n, &s);
                total(&src, m, k, *op == "time")
            }
            _ => bad(),
        },
        ["oct", kind, text] => match unhex_str(text) {
            Some(t) => literal(&format!("{}\"\\{}\"", if *kind == "b" { "b" } else { "" }, t)),
            None => bad(),
        },
        ["uni", which, kind, text] => match unhex_str(text) {
            Some(t) => literal(&format!(
                "{}\"\\{}{}\"",
                if *kind == "b" { "b" } else { "" },
                which,
                t
            )),
            None => bad(),
        },
        ["name", text] => match unhex_str(text) {
            Some(t) => literal(&format!("\"\\N{}\"", t)),
            None => bad(),
        },
        ["fnest", body] => match unhex_str(body) {
            Some(t) => fnest(&t),
            None => bad(),
        },
        ["fscan", src] => match unhex_str(src) {
            Some(t) => fscan(&t),
            None => bad(),
        },
        ["errraw", m, start, src] => match (mode_of(m), start.parse::<u32>(), unhex_str(src)) {
            (Some(m), Ok(k), Some(s)) => errraw(&s, m, k),
            _ => bad(),
        },
        ["errconv", m, start, src, ..] => match (mode_of(m), start.parse::<u32>(), unhex_str(src)) {
            (Some(m), Ok(k), Some(s)) => errconv(&s, m, k),
            _ => bad(),
        },
        _ => bad(),
    }
}

/// budgets of the request being served (0 = idle): CPU time of this process in ms at which the
/// watchdog fires, and a wall-clock backstop (20 x the budget) for the case that CPU time is not
/// readable
static DEADLINE_CPU_MS: AtomicU64 = AtomicU64::new(0);
static DEADLINE_MS: AtomicU64 = AtomicU64::new(0);

fn now_ms() -> u64 {
    use std::time::{SystemTime, UNIX_EPOCH};
    SystemTime::now().duration_since(UNIX_EPOCH).map(|d| d.as_millis() as u64).unwrap_or(0)
}

/// CPU time (user + system) consumed by this process, in ms, from /proc/self/stat (USER_HZ = 100).
/// The watchdog budgets are CPU time, not wall time: a loaded machine must never turn a slow
/// schedule into an alarm, while a loop that does not advance burns CPU and is caught.
fn cpu_ms() -> Option<u64> {
    let s = std::fs::read_to_string("/proc/self/stat").ok()?;
    let rest = &s[s.rfind(')')? + 1..];
    let f: Vec<&str> = rest.split_ascii_whitespace().collect();
    let ut: u64 = f.get(11)?.parse().ok()?;
    let st: u64 = f.get(12)?.parse().ok()?;
    Some((ut + st) * 10)
}

/// seconds a request may take before the watchdog kills the process: generous multiples of the
/// normal cost (~1 µs per byte), never a judgement about polynomial growth
fn budget_secs(ws: &[&str]) -> u64 {
    let base: u64 = std::env::var("PVH_C03_WATCHDOG_S").ok().and_then(|s| s.parse().ok()).unwrap_or(5);
    match ws.first().copied() {
        Some("time") | Some("totalt") => 150,
        Some("rep") => {
            let n: u64 = ws.get(3).and_then(|s| s.parse().ok()).unwrap_or(0);
            let u = ws.get(5).map(|s| s.len() as u64 / 2).unwrap_or(1);
            base + n * u / 20_000
        }
        _ => base + ws.last().map(|s| s.len() as u64).unwrap_or(0) / 40_000,
    }
}

fn trip_path() -> Option<String> {
    std::env::var("PVH_C03_TRIP").ok().filter(|s| !s.is_empty())
}

fn tripped() -> bool {
    match trip_path() {
        Some(p) => std::fs::metadata(p).map(|m| m.len() >= 6).unwrap_or(false),
        None => false,
    }
}

/// Like `pvh::proto_loop` but (1) flushes after every answer: when a request aborts the process
/// (stack overflow, watchdog), every earlier answer has already reached the pipe, so
/// `core.run_lines` attributes the `(abort)` to the right request; (2) arms the watchdog; (3) once
/// the watchdog has fired 6 times in this run (trip file), answers `(skipped)` so that a code
/// change that hangs on every input does not make the check run for hours.
fn flushing_loop() {
    use std::io::{BufRead, Write};
    std::panic::set_hook(Box::new(|_| {}));
    let stdin = std::io::stdin();
    let stdout = std::io::stdout();
    for line in stdin.lock().lines() {
        let line = match line {
            Ok(l) => l,
            Err(_) => break,
        };
        let ws: Vec<&str> = line.split_ascii_whitespace().collect();
        let r = if tripped() {
            "(skipped)".to_string()
        } else {
            let b = budget_secs(&ws);
            DEADLINE_CPU_MS.store(cpu_ms().map(|c| c + 1000 * b).unwrap_or(0), Ordering::SeqCst);
            DEADLINE_MS.store(now_ms() + 20_000 * b, Ordering::SeqCst);
            let r = guard(|| handle(&ws)).unwrap_or_else(|| "(panic)".to_string());
            DEADLINE_MS.store(0, Ordering::SeqCst);
            DEADLINE_CPU_MS.store(0, Ordering::SeqCst);
            r
        };
        let mut out = stdout.lock();
        writeln!(out, "{}", r).unwrap();
        out.flush().unwrap();
    }
}

fn main() {
    let mb: usize = std::env::var("PVH_C03_STACK_MB")
        .ok()
        .and_then(|s| s.parse().ok())
        .unwrap_or(8);
    let t = std::thread::Builder::new()
        .stack_size(mb << 20)
        .spawn(flushing_loop)
        .expect("spawn");
    // watchdog: a request that exceeds its budget kills the process (exit 3); core.run_lines then
    // reports `(abort)` for exactly that request and restarts the harness for the rest.
    // A stack overflow on the worker aborts the whole process by itself (SIGSEGV).
    loop {
        if t.is_finished() {
            break;
        }
        let d = DEADLINE_MS.load(Ordering::SeqCst);
        let dc = DEADLINE_CPU_MS.load(Ordering::SeqCst);
        let cpu_over = d != 0 && dc != 0 && cpu_ms().map(|c| c > dc).unwrap_or(false);
        // re-check that the same request is still being served (the worker clears the deadlines)
        if (cpu_over || (d != 0 && now_ms() > d)) && DEADLINE_MS.load(Ordering::SeqCst) == d {
            if let Some(p) = trip_path() {
                use std::io::Write;
                if let Ok(mut f) = std::fs::OpenOptions::new().create(true).append(true).open(p) {
                    let _ = f.write_all(b"x");
                }
            }
            std::process::exit(3);
        }
        std::thread::sleep(std::time::Duration::from_millis(if d == 0 { 5 } else { 50 }));
    }
    if t.join().is_err() {
        std::process::exit(101);
    }
}
