//! C11 harness: `format!("{}", expr)` (feature `unparse` of rustpython-ast) and its round trip
//! through `Expr::parse` (rustpython_parser, expression mode).
//!
//!   unparse <hex src>
//!       Expr::parse(src) -> canonical tree (ranges and load/store tags erased) -> format!("{}")
//!       -> Expr::parse again -> trees compared -> format!("{}") again.
//!       answer: `ok tree=<tree> text=<hex> reparse=<0|1> equal=<0|1> fix=<0|1>` | `parse-error`
//!       (a panic while rendering gives `ok tree=<tree> text=panic reparse=0 equal=0 fix=0`).
//!
//!   paren <hex src>
//!       behavioural extraction of one parenthesisation decision: the source is a tiny expression
//!       in which the child under test is written inside parentheses; the answer is
//!       `paren=<0|1>` — whether the rendering has MORE tokens than the same source with that pair
//!       of parentheses deleted (sources are built by tools/props/c11.py so that the only possible
//!       difference is that one pair), or `parse-error`.
//!
//! The canonical tree is the compact S-expression documented in lean/Drv/C11.lean (`dump`).
use pvh::*;
use rustpython_ast as ast;
use rustpython_ast::text_size::TextRange;
use rustpython_parser::Parse;

type Expr = ast::Expr<TextRange>;

fn hx(s: &str) -> String {
    hex(s.as_bytes())
}

fn opt_expr(e: &Option<Box<Expr>>, out: &mut String) {
    match e {
        Some(e) => dump(e, out),
        None => out.push('~'),
    }
}

fn dump_list(es: &[Expr], out: &mut String) {
    for e in es {
        out.push(' ');
        dump(e, out);
    }
}

fn dump_params(ps: &[ast::ArgWithDefault<TextRange>], out: &mut String) {
    for p in ps {
        out.push_str(" (P ");
        out.push_str(&hx(p.def.arg.as_str()));
        if p.def.annotation.is_some() {
            out.push_str(":annotated");
        }
        out.push(' ');
        opt_expr(&p.default, out);
        out.push(')');
    }
}

fn dump_arg(a: &Option<Box<ast::Arg<TextRange>>>, out: &mut String) {
    match a {
        Some(a) => {
            out.push_str(&hx(a.arg.as_str()));
            if a.annotation.is_some() {
                out.push_str(":annotated");
            }
        }
        None => out.push('~'),
    }
}

fn dump_comps(gs: &[ast::Comprehension<TextRange>], out: &mut String) {
    for g in gs {
        out.push_str(" (Comp ");
        dump(&g.target, out);
        out.push(' ');
        dump(&g.iter, out);
        out.push_str(if g.is_async { " 1" } else { " 0" });
        dump_list(&g.ifs, out);
        out.push(')');
    }
}

fn dump_const(c: &ast::Constant, kind: &Option<String>, out: &mut String) {
    use ast::Constant::*;
    match c {
        None => out.push_str("(Const none)"),
        Bool(true) => out.push_str("(Const true)"),
        Bool(false) => out.push_str("(Const false)"),
        Ellipsis => out.push_str("(Const ellipsis)"),
        Int(i) => out.push_str(&format!("(Const int {})", i)),
        Float(f) => out.push_str(&format!("(Const float {:016x})", f.to_bits())),
        Complex { real, imag } => {
            if real.to_bits() == 0 {
                out.push_str(&format!("(Const imag {:016x})", imag.to_bits()))
            } else {
                out.push_str(&format!(
                    "(Const complex {:016x} {:016x})",
                    real.to_bits(),
                    imag.to_bits()
                ))
            }
        }
        Str(s) => {
            let k = match kind {
                Some(k) if k == "u" => "u".to_string(),
                Some(k) => format!("kind:{}", hx(k)),
                Option::None => "~".to_string(),
            };
            out.push_str(&format!("(Const str {} {})", hx(s), k))
        }
        Bytes(b) => out.push_str(&format!("(Const bytes {})", hex(b))),
        Tuple(_) => out.push_str("(Const tuple)"),
    }
}

fn dump(e: &Expr, out: &mut String) {
    match e {
        Expr::Name(n) => {
            out.push_str("(Name ");
            out.push_str(&hx(n.id.as_str()));
            out.push(')');
        }
        Expr::Constant(c) => dump_const(&c.value, &c.kind, out),
        Expr::BoolOp(b) => {
            out.push_str(match b.op {
                ast::BoolOp::And => "(BoolOp And",
                ast::BoolOp::Or => "(BoolOp Or",
            });
            dump_list(&b.values, out);
            out.push(')');
        }
        Expr::NamedExpr(n) => {
            out.push_str("(NamedExpr ");
            dump(&n.target, out);
            out.push(' ');
            dump(&n.value, out);
            out.push(')');
        }
        Expr::BinOp(b) => {
            out.push_str(&format!("(BinOp {:?} ", b.op));
            dump(&b.left, out);
            out.push(' ');
            dump(&b.right, out);
            out.push(')');
        }
        Expr::UnaryOp(u) => {
            out.push_str(&format!("(UnaryOp {:?} ", u.op));
            dump(&u.operand, out);
            out.push(')');
        }
        Expr::Lambda(l) => {
            out.push_str("(Lambda (posonly");
            dump_params(&l.args.posonlyargs, out);
            out.push_str(") (args");
            dump_params(&l.args.args, out);
            out.push_str(") (vararg ");
            dump_arg(&l.args.vararg, out);
            out.push_str(") (kwonly");
            dump_params(&l.args.kwonlyargs, out);
            out.push_str(") (kwarg ");
            dump_arg(&l.args.kwarg, out);
            out.push_str(") ");
            dump(&l.body, out);
            out.push(')');
        }
        Expr::IfExp(i) => {
            out.push_str("(IfExp ");
            dump(&i.test, out);
            out.push(' ');
            dump(&i.body, out);
            out.push(' ');
            dump(&i.orelse, out);
            out.push(')');
        }
        Expr::Dict(d) => {
            out.push_str("(Dict");
            if d.keys.len() != d.values.len() {
                out.push_str(" :length-mismatch");
            }
            for (k, v) in d.keys.iter().zip(d.values.iter()) {
                out.push_str(" (");
                match k {
                    Some(k) => dump(k, out),
                    None => out.push('~'),
                }
                out.push(' ');
                dump(v, out);
                out.push(')');
            }
            out.push(')');
        }
        Expr::Set(s) => {
            out.push_str("(Set");
            dump_list(&s.elts, out);
            out.push(')');
        }
        Expr::ListComp(c) => {
            out.push_str("(ListComp ");
            dump(&c.elt, out);
            dump_comps(&c.generators, out);
            out.push(')');
        }
        Expr::SetComp(c) => {
            out.push_str("(SetComp ");
            dump(&c.elt, out);
            dump_comps(&c.generators, out);
            out.push(')');
        }
        Expr::DictComp(c) => {
            out.push_str("(DictComp ");
            dump(&c.key, out);
            out.push(' ');
            dump(&c.value, out);
            dump_comps(&c.generators, out);
            out.push(')');
        }
        Expr::GeneratorExp(c) => {
            out.push_str("(GeneratorExp ");
            dump(&c.elt, out);
            dump_comps(&c.generators, out);
            out.push(')');
        }
        Expr::Await(a) => {
            out.push_str("(Await ");
            dump(&a.value, out);
            out.push(')');
        }
        Expr::Yield(y) => {
            out.push_str("(Yield ");
            opt_expr(&y.value, out);
            out.push(')');
        }
        Expr::YieldFrom(y) => {
            out.push_str("(YieldFrom ");
            dump(&y.value, out);
            out.push(')');
        }
        Expr::Compare(c) => {
            out.push_str("(Compare ");
            dump(&c.left, out);
            if c.ops.len() != c.comparators.len() {
                out.push_str(" :length-mismatch");
            }
            for (o, x) in c.ops.iter().zip(c.comparators.iter()) {
                out.push_str(&format!(" ({:?} ", o));
                dump(x, out);
                out.push(')');
            }
            out.push(')');
        }
        Expr::Call(c) => {
            out.push_str("(Call ");
            dump(&c.func, out);
            out.push_str(" (args");
            dump_list(&c.args, out);
            out.push_str(") (kws");
            for k in &c.keywords {
                out.push_str(" (");
                match &k.arg {
                    Some(a) => out.push_str(&hx(a.as_str())),
                    None => out.push('~'),
                }
                out.push(' ');
                dump(&k.value, out);
                out.push(')');
            }
            out.push_str("))");
        }
        Expr::FormattedValue(f) => {
            out.push_str("(FormattedValue ");
            dump(&f.value, out);
            let c = match f.conversion {
                ast::ConversionFlag::None => 0,
                other => other as i8 as i32,
            };
            out.push_str(&format!(" {} ", c));
            opt_expr(&f.format_spec, out);
            out.push(')');
        }
        Expr::JoinedStr(j) => {
            out.push_str("(JoinedStr");
            dump_list(&j.values, out);
            out.push(')');
        }
        Expr::Attribute(a) => {
            out.push_str("(Attribute ");
            dump(&a.value, out);
            out.push(' ');
            out.push_str(&hx(a.attr.as_str()));
            out.push(')');
        }
        Expr::Subscript(s) => {
            out.push_str("(Subscript ");
            dump(&s.value, out);
            out.push(' ');
            dump(&s.slice, out);
            out.push(')');
        }
        Expr::Starred(s) => {
            out.push_str("(Starred ");
            dump(&s.value, out);
            out.push(')');
        }
        Expr::List(l) => {
            out.push_str("(List");
            dump_list(&l.elts, out);
            out.push(')');
        }
        Expr::Tuple(t) => {
            out.push_str("(Tuple");
            dump_list(&t.elts, out);
            out.push(')');
        }
        Expr::Slice(s) => {
            out.push_str("(Slice ");
            opt_expr(&s.lower, out);
            out.push(' ');
            opt_expr(&s.upper, out);
            out.push(' ');
            opt_expr(&s.step, out);
            out.push(')');
        }
    }
}

fn tree(e: &Expr) -> String {
    let mut s = String::new();
    dump(e, &mut s);
    s
}

fn parse(src: &str) -> Option<Expr> {
    guard(|| Expr::parse(src, "<c11>").ok()).flatten()
}

fn render(e: &Expr) -> Option<String> {
    guard(|| format!("{}", e))
}

fn unparse(src: &str) -> String {
    let e = match parse(src) {
        Some(e) => e,
        None => return "parse-error".into(),
    };
    let t = tree(&e);
    let text = match render(&e) {
        Some(s) => s,
        None => return format!("ok tree={} text=panic reparse=0 equal=0 fix=0", t),
    };
    match parse(&text) {
        None => format!("ok tree={} text={} reparse=0 equal=0 fix=0", t, hx(&text)),
        Some(e2) => {
            let equal = tree(&e2) == t;
            let fix = render(&e2).map(|s| s == text).unwrap_or(false);
            format!(
                "ok tree={} text={} reparse=1 equal={} fix={}",
                t,
                hx(&text),
                equal as u8,
                fix as u8
            )
        }
    }
}

/// number of parenthesis characters outside string literals is not needed: the sources sent here
/// contain no string literals, so counting `(` in the rendering is exact.
fn count_lpar(s: &str) -> usize {
    s.bytes().filter(|b| *b == b'(').count()
}

fn paren(with: &str, without: &str) -> String {
    // `with` has the child in parentheses, `without` is the same text with that pair removed.
    // The rendering of `with` is compared with the rendering of the tree `without` WOULD have if it
    // parsed to the same tree; since it may not parse at all, count parentheses instead:
    // rendering(with) has exactly one more `(` than the text `without` (minus redundant pairs the
    // request did not contain) iff the unparser parenthesised the child.
    let e = match parse(with) {
        Some(e) => e,
        None => return "parse-error".into(),
    };
    match render(&e) {
        Some(text) => {
            let base = count_lpar(without);
            let n = count_lpar(&text);
            if n == base {
                "paren=0".into()
            } else if n == base + 1 {
                "paren=1".into()
            } else {
                format!("paren=? {}", hx(&text))
            }
        }
        None => "panic".into(),
    }
}

fn handle(ws: &[&str]) -> String {
    let bad = || "bad-request".to_string();
    match ws {
        ["unparse", s] => match unhex_str(s) {
            Some(s) => unparse(&s),
            None => bad(),
        },
        ["paren", a, b] => match (unhex_str(a), unhex_str(b)) {
            (Some(a), Some(b)) => paren(&a, &b),
            _ => bad(),
        },
        _ => bad(),
    }
}

fn main() {
    proto_loop(handle);
}
