//! C09 harness: every public entry point of the parser, at a start offset.
//!
//! Answers are `(ok <Debug text>)`, `(err <kind> <offset>)` or `(panic)`; fields of one answer line are
//! separated by TAB (Debug text never contains a raw TAB or newline: `{:?}` escapes them).
//!
//!   top     <k> <hex src>          parse_tokens(lex_starts_at(..)) (= parse_filtered_tokens, no clamp) and
//!                                  lexer::lex_starts_at for the three modes (pre-pass: the values of the
//!                                  model's parameters parseTop / lexTop)
//!   entries <k> <hex src> [full-lexer 0/1, checked] [..]     every parsing entry point at offset 0 and at offset k
//!   lexes   <k> <hex src> [..]     every lexing entry point at offset 0 and at offset k
//!   names                          the typed parsers this binary dispatches to, in order
//!   modes   <hex name>...          Mode::from_str on each candidate
//! Extra arguments (the attachments the Lean driver needs) are ignored here.
#![allow(deprecated)]
use pvh::*;
use rustpython_parser::ast;
use rustpython_parser::lexer::{self, LexResult};
use rustpython_parser::text_size::TextSize;
use rustpython_parser::{Mode, Parse, ParseError, ParseErrorType};
use std::fmt::Debug;

const PATH: &str = "<pvh>";

fn strip_other_error(s: &str) -> String {
    // drop the free-text message of LexicalErrorType::OtherError("…"): messages are never compared
    let pat = "OtherError(\"";
    let mut out = String::new();
    let mut rest = s;
    while let Some(i) = rest.find(pat) {
        out.push_str(&rest[..i]);
        out.push_str("OtherError(");
        let mut j = i + pat.len();
        let b = rest.as_bytes();
        while j < b.len() {
            if b[j] == b'\\' {
                j += 2;
            } else if b[j] == b'"' {
                j += 1;
                break;
            } else {
                j += 1;
            }
        }
        rest = &rest[j.min(rest.len())..];
    }
    out.push_str(rest);
    out
}

fn kind_text(dbg: String) -> String {
    strip_other_error(&dbg).replace(' ', "")
}

fn err_text(e: &ParseError) -> String {
    format!("(err {} {})", kind_text(format!("{:?}", e.error)), u32::from(e.offset))
}

fn show<T: Debug>(r: Option<Result<T, ParseError>>) -> String {
    match r {
        None => "(panic)".to_string(),
        Some(Ok(t)) => format!("(ok {:?})", t),
        Some(Err(e)) => err_text(&e),
    }
}

/// token stream: `(toks <Debug of Tok>@a..b<US>…[<US>(err kind offset)])`, items separated by U+001F
fn show_lex(it: impl Iterator<Item = LexResult>) -> String {
    match guard(|| {
        let mut items: Vec<String> = Vec::new();
        for r in it {
            match r {
                Ok((t, range)) => {
                    items.push(format!("{:?}@{}..{}", t, u32::from(range.start()), u32::from(range.end())));
                }
                Err(e) => {
                    items.push(format!("(err {} {})", kind_text(format!("{:?}", e.error)), u32::from(e.location)));
                    break;
                }
            }
        }
        format!("(toks {})", items.join("\u{1f}"))
    }) {
        Some(s) => s,
        None => "(panic)".to_string(),
    }
}

fn mode_of(c: &str) -> Mode {
    match c {
        "m" => Mode::Module,
        "i" => Mode::Interactive,
        _ => Mode::Expression,
    }
}

const MODES: [&str; 3] = ["m", "e", "i"];

/// the Parse methods of one implementing type; `lexmode` is the documented lexer mode of the type
fn typed<T: Parse + Debug>(name: &str, lexmode: &str, src: &str, k: u32, with0: bool, out: &mut Vec<String>) {
    let off = TextSize::from(k);
    if with0 {
        out.push(format!("{}.parse={}", name, show(guard(|| T::parse(src, PATH)))));
        out.push(format!("{}.parse_without_path={}", name, show(guard(|| T::parse_without_path(src)))));
    }
    out.push(format!("{}.parse_starts_at={}", name, show(guard(|| T::parse_starts_at(src, PATH, off)))));
    out.push(format!(
        "{}.parse_tokens={}",
        name,
        show(guard(|| T::parse_tokens(lexer::lex_starts_at(src, mode_of(lexmode), off), PATH)))
    ));
}

fn typed_lex<T: Parse>(name: &str, src: &str, k: u32, out: &mut Vec<String>) {
    out.push(format!("{}.lex_starts_at={}", name, show_lex(T::lex_starts_at(src, TextSize::from(k)))));
}

macro_rules! typed_list {
    ($mac:ident) => {
        $mac!(
            (ModModule, "m"), (ModExpression, "e"), (ModInteractive, "i"), (Suite, "m"), (Stmt, "m"), (Expr, "e"),
            (Identifier, "e"), (Constant, "e"),
            (StmtFunctionDef, "m"), (StmtAsyncFunctionDef, "m"), (StmtClassDef, "m"), (StmtReturn, "m"),
            (StmtDelete, "m"), (StmtAssign, "m"), (StmtTypeAlias, "m"), (StmtAugAssign, "m"), (StmtAnnAssign, "m"),
            (StmtFor, "m"), (StmtAsyncFor, "m"), (StmtWhile, "m"), (StmtIf, "m"), (StmtWith, "m"),
            (StmtAsyncWith, "m"), (StmtMatch, "m"), (StmtRaise, "m"), (StmtTry, "m"), (StmtTryStar, "m"),
            (StmtAssert, "m"), (StmtImport, "m"), (StmtImportFrom, "m"), (StmtGlobal, "m"), (StmtNonlocal, "m"),
            (StmtExpr, "m"), (StmtPass, "m"), (StmtBreak, "m"), (StmtContinue, "m"),
            (ExprBoolOp, "e"), (ExprNamedExpr, "e"), (ExprBinOp, "e"), (ExprUnaryOp, "e"), (ExprLambda, "e"),
            (ExprIfExp, "e"), (ExprDict, "e"), (ExprSet, "e"), (ExprListComp, "e"), (ExprSetComp, "e"),
            (ExprDictComp, "e"), (ExprGeneratorExp, "e"), (ExprAwait, "e"), (ExprYield, "e"), (ExprYieldFrom, "e"),
            (ExprCompare, "e"), (ExprCall, "e"), (ExprFormattedValue, "e"), (ExprJoinedStr, "e"),
            (ExprConstant, "e"), (ExprAttribute, "e"), (ExprSubscript, "e"), (ExprStarred, "e"), (ExprName, "e"),
            (ExprList, "e"), (ExprTuple, "e"), (ExprSlice, "e")
        )
    };
}

fn block(src: &str, k: u32, with0: bool, out: &mut Vec<String>) {
    let off = TextSize::from(k);
    if with0 {
        for m in MODES {
            out.push(format!("parse.{}={}", m, show(guard(|| rustpython_parser::parse(src, mode_of(m), PATH)))));
        }
    }
    for m in MODES {
        out.push(format!(
            "parse_starts_at.{}={}",
            m,
            show(guard(|| rustpython_parser::parse_starts_at(src, mode_of(m), PATH, off)))
        ));
    }
    for m in MODES {
        out.push(format!(
            "parse_tokens.{}={}",
            m,
            show(guard(|| {
                if with0 {
                    rustpython_parser::parse_tokens(lexer::lex(src, mode_of(m)), mode_of(m), PATH)
                } else {
                    rustpython_parser::parse_tokens(lexer::lex_starts_at(src, mode_of(m), off), mode_of(m), PATH)
                }
            }))
        ));
    }
    if with0 {
        out.push(format!("parse_program={}", show(guard(|| rustpython_parser::parse_program(src, PATH)))));
        out.push(format!("parse_expression={}", show(guard(|| rustpython_parser::parse_expression(src, PATH)))));
    }
    out.push(format!(
        "parse_expression_starts_at={}",
        show(guard(|| rustpython_parser::parse_expression_starts_at(src, PATH, off)))
    ));
    macro_rules! go {
        ($(($t:ident, $m:expr)),*) => { $( typed::<ast::$t>(stringify!($t), $m, src, k, with0, out); )* };
    }
    typed_list!(go);
}

fn lex_block(src: &str, k: u32, with0: bool, out: &mut Vec<String>) {
    let off = TextSize::from(k);
    if with0 {
        for m in MODES {
            out.push(format!("lex.{}={}", m, show_lex(lexer::lex(src, mode_of(m)))));
        }
    }
    for m in MODES {
        out.push(format!("lex_starts_at.{}={}", m, show_lex(lexer::lex_starts_at(src, mode_of(m), off))));
    }
    macro_rules! go {
        ($(($t:ident, $m:expr)),*) => { $( typed_lex::<ast::$t>(stringify!($t), src, k, out); )* };
    }
    typed_list!(go);
}

fn names() -> String {
    let mut v: Vec<String> = Vec::new();
    macro_rules! go {
        ($(($t:ident, $m:expr)),*) => { $( v.push(format!("{}:{}", stringify!($t), $m)); )* };
    }
    typed_list!(go);
    v.join(" ")
}

fn handle(ws: &[&str]) -> String {
    match ws {
        ["top", k, src] => {
            let (k, src) = match (k.parse::<u32>(), unhex_str(src)) {
                (Ok(k), Some(s)) => (k, s),
                _ => return "bad-request".into(),
            };
            let off = TextSize::from(k);
            let mut out = Vec::new();
            // the value of the model's parameter `parseTop` at this text: what the LALRPOP parser answers when
            // `parse_filtered_tokens` (= the public `parse_tokens`, nothing else) feeds it marker + stream.
            // NOT `parse_starts_at`: its `not_before` clamp is part of the model.
            for m in MODES {
                out.push(format!(
                    "{}={}",
                    m,
                    show(guard(|| rustpython_parser::parse_tokens(
                        lexer::lex_starts_at(&src, mode_of(m), off),
                        mode_of(m),
                        PATH
                    )))
                ));
            }
            for m in MODES {
                out.push(format!("lex.{}={}", m, show_lex(lexer::lex_starts_at(&src, mode_of(m), off))));
            }
            out.join("\t")
        }
        ["entries", k, src, ..] | ["lexes", k, src, ..] => {
            let (k, src) = match (k.parse::<u32>(), unhex_str(src)) {
                (Ok(k), Some(s)) => (k, s),
                _ => return "bad-request".into(),
            };
            if let Some(full) = ws.get(3) {
                if (*full == "1") != cfg!(feature = "full-lexer") {
                    return "bad-config".into();
                }
            }
            let mut out = Vec::new();
            out.push("@0".to_string());
            if ws[0] == "entries" {
                block(&src, 0, true, &mut out);
            } else {
                lex_block(&src, 0, true, &mut out);
            }
            if k != 0 {
                out.push(format!("@{}", k));
                if ws[0] == "entries" {
                    block(&src, k, false, &mut out);
                } else {
                    lex_block(&src, k, false, &mut out);
                }
            }
            out.join("\t")
        }
        ["names"] => names(),
        ["modes", rest @ ..] => {
            let mut out = Vec::new();
            for h in rest {
                let s = match unhex_str(h) {
                    Some(s) => s,
                    None => return "bad-request".into(),
                };
                let r = match s.parse::<Mode>() {
                    Ok(m) => {
                        if m == Mode::Module {
                            "Module"
                        } else if m == Mode::Interactive {
                            "Interactive"
                        } else if m == Mode::Expression {
                            "Expression"
                        } else {
                            "?"
                        }
                    }
                    Err(_) => "err",
                };
                out.push(format!("{}={}", h, r));
            }
            out.join(" ")
        }
        _ => "bad-request".into(),
    }
}

fn main() {
    proto_loop(handle);
}
